package main

import (
	"fmt"
	"go/token"
	"go/types"
	"regexp"
	"strings"

	"golang.org/x/tools/go/ssa"
)

func ruleFilePlugin(c *Ctx, prefix string) {
	pkgF := modPath + "/plugins/file"
	g := c.P.Global("plugins/file", "StaticRecords")
	h4 := c.P.Func("plugins/file", "", "Handler4")
	h6 := c.P.Func("plugins/file", "", "Handler6")
	l4 := c.P.Func("plugins/file", "", "LoadDHCPv4Records")
	l6 := c.P.Func("plugins/file", "", "LoadDHCPv6Records")
	if g == nil || h4 == nil || h6 == nil || l4 == nil || l6 == nil {
		c.R.Fatalf("ANCHOR-UNRESOLVED: file plugin anchors (StaticRecords, Handler4/6, LoadDHCPv4/6Records)")
		return
	}
	for _, f := range []*ssa.Function{h4, h6, l4, l6} {
		c.R.Functions[shortFn(f)] = true
	}
	// ---- PER-PROTOCOL: which loaders feed the table each handler reads
	var swapValues []string // canonical values stored into the table, collected by the SWAP exploration
	perProtocol := func() {
		feeders := map[string]bool{}
		for _, v := range swapValues {
			for _, m := range regexp.MustCompile(reQ(pkgF)+`\.(LoadDHCPv[46]Records)`).FindAllStringSubmatch(v, -1) {
				feeders[m[1]] = true
			}
		}
		var storeFns []string
		for _, s := range findStores(c.P, nil, g) {
			storeFns = append(storeFns, shortFn(s.Parent()))
			for _, o := range valueOrigins(s.Val) {
				if e, ok := o.(*ssa.Extract); ok {
					if call, ok := e.Tuple.(*ssa.Call); ok {
						if f := call.Call.StaticCallee(); f != nil {
							feeders[f.Name()] = true
						}
					}
				}
			}
			// values assigned through a local first
			if ld, ok := s.Val.(*ssa.UnOp); ok {
				if al, ok := ld.X.(*ssa.Alloc); ok {
					for _, r := range *al.Referrers() {
						if st, ok := r.(*ssa.Store); ok {
							for _, o := range valueOrigins(st.Val) {
								if e, ok := o.(*ssa.Extract); ok {
									if call, ok := e.Tuple.(*ssa.Call); ok {
										if f := call.Call.StaticCallee(); f != nil {
											feeders[f.Name()] = true
										}
									}
								}
							}
						}
					}
				}
			}
		}
		readers := map[string]bool{}
		for _, h := range []*ssa.Function{h4, h6} {
			eachInstr(h, func(in ssa.Instruction) {
				if touchesGlobal(in, g) {
					readers[h.Name()] = true
				}
			})
		}
		key := "file.StaticRecords shared by both protocols"
		if feeders["LoadDHCPv4Records"] && feeders["LoadDHCPv6Records"] && readers["Handler4"] && readers["Handler6"] {
			c.R.bad(prefix+"FILE.PER-PROTOCOL", key, c.P.Pos(g.Pos()), pkgShort(pkgF), fmt.Sprintf("one package-level table is written from both LoadDHCPv4Records and LoadDHCPv6Records (in %v) and read by both Handler4 and Handler6: with the plugin configured under server4 and server6 the instance loaded last overwrites the other's mapping and the DHCPv6 handler serves IPv4 addresses", dedup(storeFns)))
		} else {
			c.R.ok(prefix+"FILE.PER-PROTOCOL", key, c.P.Pos(g.Pos()), pkgShort(pkgF), "each handler's table is fed only by its own protocol's loader")
		}
	}
	defer perProtocol()
	// ---- SWAP
	{
		n := 0
		storeFnsSeen := map[*ssa.Function]bool{}
		for _, fn := range c.P.SrcFuncs() {
			if fnPkgPath(fn) != pkgF || isFixture(fn) {
				continue
			}
			has := false
			for _, b := range fn.Blocks {
				for _, in := range b.Instrs {
					if s, ok := in.(*ssa.Store); ok && s.Addr == ssa.Value(g) {
						has = true
					}
					if mu, ok := in.(*ssa.MapUpdate); ok {
						if ld, ok := mu.Map.(*ssa.UnOp); ok && ld.X == ssa.Value(g) {
							c.R.bad(prefix+"FILE.SWAP", shortFn(fn)+" in-place edit", c.P.InstrPos(in), shortFn(fn), "the served table is edited in place: a failing reload would leave a half-updated mapping in force")
						}
					}
				}
			}
			if !has {
				continue
			}
			storeFnsSeen[fn] = true
		}
		var swapRoots []*ssa.Function
		for _, fn := range c.P.SrcFuncs() {
			if storeFnsSeen[fn] {
				for _, r := range explorationRoots(c, fn) {
					swapRoots = appendUniqueFn(swapRoots, r)
				}
			}
		}
		for _, fn := range swapRoots {
			ex := NewExplorer(c.P, c.Pure, fn)
			var bad []string
			ex.Hooks.Instr = func(st *State, in ssa.Instruction) {
				s, ok := in.(*ssa.Store)
				if !ok || s.Addr != ssa.Value(g) {
					return
				}
				n++
				v := ex.Canon(st, s.Val).S
				swapValues = append(swapValues, v)
				m := regexp.MustCompile(`^(` + reQ(pkgF) + `\.LoadDHCPv[46]Records@(?:[\w$]+·)?t\d+\(.*\))#0$`).FindStringSubmatch(v)
				if m == nil {
					bad = append(bad, "the served table is replaced by something other than a loader's result: "+shortName(stripAt(v)))
					return
				}
				if e, _ := histFact(st, "nil", regexp.MustCompile(`^`+reQ(m[1])+`#1$`)); e != 1 {
					bad = append(bad, fmt.Sprintf("the served table is replaced at %s before the loader's error was found nil: a malformed update wipes the previous mapping", c.P.InstrPos(in)))
				}
				if !st.Holds(pkgF+".recLock", 'W') {
					bad = append(bad, "the served table is replaced without the write lock")
				}
			}
			ex.Run()
			key := shortFn(fn) + " table swap"
			if len(bad) > 0 {
				c.R.bad(prefix+"FILE.SWAP", key, c.P.Pos(fn.Pos()), shortFn(fn), strings.Join(dedup(bad), "; "))
			} else {
				c.R.ok(prefix+"FILE.SWAP", key, c.P.Pos(fn.Pos()), shortFn(fn), "whole-map swap under the write lock, only on the loader's err == nil edge")
			}
		}
		if n == 0 {
			c.R.bad(prefix+"FILE.SWAP", "table store", "-", "-", "no store to the served table found")
		}
		// a (re)load that reports success has replaced the table: no success exit bypasses the read-and-swap
		// (a cache keyed on size / mtime / checksum answers "unchanged" for an update it cannot tell apart)
		cands := append([]*ssa.Function{}, swapRoots...)
		for _, fn := range c.P.SrcFuncs() {
			if storeFnsSeen[fn] {
				cands = appendUniqueFn(cands, fn)
			}
		}
		for _, fn := range cands {
			res := fn.Signature.Results()
			if res.Len() == 0 || res.At(res.Len()-1).Type().String() != "error" {
				continue
			}
			ex := NewExplorer(c.P, c.Pure, fn)
			var bad []string
			nOK := 0
			ex.Hooks.Label = func(st *State, in ssa.Instruction) string {
				if s, ok := in.(*ssa.Store); ok && s.Addr == ssa.Value(g) {
					return "swapped"
				}
				return ""
			}
			ex.Hooks.Exit = func(st *State, in ssa.Instruction) {
				ret, ok := in.(*ssa.Return)
				if !ok || len(ret.Results) == 0 {
					return
				}
				if !retIsNil(ex, st, ret.Results[len(ret.Results)-1]) {
					return
				}
				nOK++
				if !st.seen["swapped"] {
					bad = append(bad, fmt.Sprintf("success is returned at %s on a path that did not replace the served table: an update of the file is reported as loaded while the old mapping stays in force", c.P.InstrPos(in)))
				}
			}
			ex.Run()
			key := shortFn(fn) + " success implies swap"
			switch {
			case len(bad) > 0:
				c.R.bad(prefix+"FILE.RELOAD-COMPLETE", key, c.P.Pos(fn.Pos()), shortFn(fn), strings.Join(dedup(bad), "; "))
			case nOK == 0:
				c.R.bad(prefix+"FILE.RELOAD-COMPLETE", key, c.P.Pos(fn.Pos()), shortFn(fn), "no success exit found: shape not recognised")
			default:
				c.R.ok(prefix+"FILE.RELOAD-COMPLETE", key, c.P.Pos(fn.Pos()), shortFn(fn), fmt.Sprintf("each of the %d success exits is preceded by the swap of the served table", nOK))
			}
		}
	}
	// ---- loaders
	for _, ld := range []struct {
		fn *ssa.Function
		v6 bool
	}{{l4, false}, {l6, true}} {
		ruleFileLoader(c, prefix, ld.fn, ld.v6)
	}
	// ---- lookups
	ruleFileLookup(c, prefix, h4, false, g)
	ruleFileLookup(c, prefix, h6, true, g)
	// ---- watcher
	ruleFileWatch(c, prefix)
}

func pkgShort(p string) string { return shortName(p) }

func ruleFileLoader(c *Ctx, prefix string, fn *ssa.Function, v6 bool) {
	ex := NewExplorer(c.P, c.Pure, fn)
	var gram, aon []string
	addg := func(s string) {
		for _, x := range gram {
			if x == s {
				return
			}
		}
		if len(gram) < 6 {
			gram = append(gram, s)
		}
	}
	var ins *ssa.MapUpdate
	eachInstr(fn, func(in ssa.Instruction) {
		if mu, ok := in.(*ssa.MapUpdate); ok {
			if ins != nil {
				addg("more than one record store in the loader")
			}
			ins = mu
		}
	})
	if ins == nil {
		c.R.bad(prefix+"FILE.LINE-GRAMMAR", shortFn(fn), c.P.Pos(fn.Pos()), shortFn(fn), "loader never stores a record")
		return
	}
	// the line loop: the loop (of whichever function holds the store) that contains the store
	var hdrBlk *ssa.BasicBlock
	for h, body := range InfoOf(ins.Parent()).LoopOf {
		if body[ins.Block().Index] {
			hdrBlk = ins.Parent().Blocks[h]
		}
	}
	line := `conv<string>\(bytes\.Split(@(?:[\w$]+·)?t\d+)?\(os\.ReadFile(@(?:[\w$]+·)?t\d+)?\(\$0\)#0,[^)]*\)\[` + idxRe + `\]\)`
	fields := `strings\.Fields(@(?:[\w$]+·)?t\d+)?\(` + line + `\)`
	iters, nIns := 0, 0
	ex.Hooks.Label = func(st *State, in ssa.Instruction) string {
		if in == ssa.Instruction(ins) {
			if st.seen["ins"] {
				return "ins+"
			}
			return "ins"
		}
		return ""
	}
	ex.Hooks.Instr = func(st *State, in ssa.Instruction) {
		if in != ssa.Instruction(ins) {
			return
		}
		nIns++
		empty, _ := histEq(st, regexp.MustCompile(`^len\(`+line+`\)$`), "0")
		comment, _ := histFact(st, "bool", regexp.MustCompile(`^strings\.HasPrefix(@(?:[\w$]+·)?t\d+)?\(`+line+`,"#"\)$`))
		two, _ := histEq(st, regexp.MustCompile(`^len\(`+fields+`\)$`), "2")
		macOK, _ := histFact(st, "nil", regexp.MustCompile(`^net\.ParseMAC(@(?:[\w$]+·)?t\d+)?\(`+fields+`\[0\]\)#1$`))
		ip := `net\.ParseIP(@(?:[\w$]+·)?t\d+)?\(` + fields + `\[1\]\)`
		to4nil, _ := histFact(st, "nil", regexp.MustCompile(`^\(net\.IP\)\.To4\(`+ip+`\)$`))
		to16nil, _ := histFact(st, "nil", regexp.MustCompile(`^\(net\.IP\)\.To16\(`+ip+`\)$`))
		fam := not3(to4nil)
		if v6 {
			fam = and3(not3(to16nil), to4nil)
		}
		if and3(not3(empty), not3(comment), two, macOK, fam) != 1 {
			addg(fmt.Sprintf("a record is stored for a line that is not shown to be non-empty, not a comment, exactly two fields, a valid MAC and an address of the right family (non-empty=%s not-comment=%s two-fields=%s mac-ok=%s family-ok=%s)", tri(not3(empty)), tri(not3(comment)), tri(two), tri(macOK), tri(fam)))
		}
		k := ex.Canon(st, ins.Key).S
		if !regexp.MustCompile(`^\(net\.HardwareAddr\)\.String\(net\.ParseMAC(@(?:[\w$]+·)?t\d+)?\(` + fields + `\[0\]\)#0\)$`).MatchString(k) {
			addg("records are keyed by something other than HardwareAddr.String() of the parsed first field: " + shortName(stripAt(k)))
		}
		v := ex.Canon(st, ins.Value).S
		if !regexp.MustCompile(`^` + ip + `$`).MatchString(v) {
			addg("the stored address is not the parsed second field: " + shortName(stripAt(v)))
		}
		if _, ok := ex.Resolve(st, ins.Map).(*ssa.MakeMap); !ok {
			addg("records are not collected into a fresh map")
		}
	}
	ex.Hooks.BackEdge = func(st *State, from, header *ssa.BasicBlock) {
		if header != hdrBlk {
			return
		}
		iters++
		empty, _ := histEq(st, regexp.MustCompile(`^len\(`+line+`\)$`), "0")
		comment, _ := histFact(st, "bool", regexp.MustCompile(`^strings\.HasPrefix(@(?:[\w$]+·)?t\d+)?\(`+line+`,"#"\)$`))
		skip := or3(empty, comment)
		switch {
		case st.seen["ins+"]:
			addg("a line stores more than one record")
		case st.seen["ins"]:
		case skip == 1:
		default:
			addg(fmt.Sprintf("a line that is neither empty nor a comment is skipped without an error (empty=%s comment=%s): a malformed line would be silently ignored", tri(empty), tri(comment)))
		}
		delete(st.seen, "ins")
		delete(st.seen, "ins+")
	}
	nS, nE := 0, 0
	ex.Hooks.Exit = func(st *State, in ssa.Instruction) {
		ret, ok := in.(*ssa.Return)
		if !ok || len(ret.Results) != 2 {
			return
		}
		errN, _ := ex.NilState(st, ret.Results[1])
		mapN, _ := ex.NilState(st, ret.Results[0])
		if errN == 1 {
			nS++
			if _, ok := ex.ResolveDeep(st, ret.Results[0]).(*ssa.MakeMap); !ok {
				aon = append(aon, "success return does not return the freshly built map")
			}
			// the loop must have run to exhaustion: the exit edge's `index < len(lines)` is decided false
			exhausted := false
			for _, k := range sortedKeys(st.hist) {
				f := st.hist[k]
				if f.Kind == "lt" && !f.Val && regexp.MustCompile(`^`+idxRe+`$`).MatchString(f.X) && strings.HasPrefix(f.Y, "len(bytes.Split") {
					exhausted = true
				}
			}
			if hdrBlk != nil && !exhausted {
				aon = append(aon, "success is returned without the line loop having run to its end: later lines are not read")
			}
		} else {
			nE++
			if mapN != 1 {
				aon = append(aon, fmt.Sprintf("error return at %s also returns a (partial) mapping", c.P.InstrPos(in)))
			}
		}
	}
	ex.Run()
	if iters == 0 || nIns == 0 || nS == 0 || nE == 0 {
		addg(fmt.Sprintf("loader shape not recognised (iterations=%d stores=%d success=%d errors=%d)", iters, nIns, nS, nE))
	}
	if len(gram) > 0 {
		c.R.bad(prefix+"FILE.LINE-GRAMMAR", shortFn(fn), c.P.InstrPos(ins), shortFn(fn), strings.Join(gram, "; "))
	} else {
		c.R.ok(prefix+"FILE.LINE-GRAMMAR", shortFn(fn), c.P.InstrPos(ins), shortFn(fn), fmt.Sprintf("a record is stored exactly for non-empty, non-comment lines with two fields, a valid MAC and an address of the loader's family; every other non-skipped line is an error (%d iteration states)", iters))
	}
	if len(aon) > 0 {
		c.R.bad(prefix+"FILE.ALL-OR-NOTHING", shortFn(fn), c.P.Pos(fn.Pos()), shortFn(fn), strings.Join(dedup(aon), "; "))
	} else {
		c.R.ok(prefix+"FILE.ALL-OR-NOTHING", shortFn(fn), c.P.Pos(fn.Pos()), shortFn(fn), fmt.Sprintf("%d error exits return a nil map; the map is returned only after every line was consumed", nE))
	}
}

func ruleFileLookup(c *Ctx, prefix string, fn *ssa.Function, v6 bool, g *ssa.Global) {
	ex := NewExplorer(c.P, c.Pure, fn)
	var bad []string
	addb := func(s string) {
		for _, x := range bad {
			if x == s {
				return
			}
		}
		if len(bad) < 6 {
			bad = append(bad, s)
		}
	}
	keyPat := `^\(net\.HardwareAddr\)\.String\(\$0\.ClientHWAddr\)$`
	if v6 {
		keyPat = `^\(net\.HardwareAddr\)\.String\(` + reQ(pkgDHCP6) + `\.ExtractMAC(@(?:[\w$]+·)?t\d+)?\(\$0\)#0\)$`
	}
	lookRe := regexp.MustCompile(`^lookup@(?:[\w$]+·)?t\d+\(` + reQ(g.String()) + `,`)
	nLook := 0
	ex.Hooks.Label = func(st *State, in ssa.Instruction) string {
		switch x := in.(type) {
		case *ssa.Store:
			if fa, ok := x.Addr.(*ssa.FieldAddr); ok && ex.Canon(st, fa.X).S == "$1" {
				v := ex.Canon(st, x.Val).S
				if fieldName(fa) == "YourIPAddr" && lookRe.MatchString(v) && strings.HasSuffix(v, "#0") {
					return "yiaddr"
				}
				return "resp-store:" + fieldName(fa)
			}
		}
		return ""
	}
	ex.Hooks.Instr = func(st *State, in ssa.Instruction) {
		switch x := in.(type) {
		case *ssa.Lookup:
			if ex.Canon(st, x.X).S == g.String() {
				nLook++
				if k := ex.Canon(st, x.Index).S; !regexp.MustCompile(keyPat).MatchString(k) {
					addb("the table is looked up under " + shortName(stripAt(k)) + ", not under HardwareAddr.String() of the client's hardware address as the server learnt it (chaddr / ExtractMAC of the received packet, which honours relay information)")
				}
			}
		case *ssa.Call:
			if x.Call.IsInvoke() && (x.Call.Method.Name() == "AddOption" || x.Call.Method.Name() == "UpdateOption") && ex.Canon(st, x.Call.Value).S == "$1" {
				al, ok := unbox(x.Call.Args[0]).(*ssa.Alloc)
				if !ok || namedOf(al.Type()) != pkgDHCP6+".OptIANA" {
					addb("an option other than the IA_NA is added to the reply")
					return
				}
				st.seen["iana"] = true
				iaid, _ := st.ReadLocal("new@" + anm(al) + ".IaId")
				if !regexp.MustCompile(`OneIANA\(.*GetInnerMessage\(\$0\)#0\.Options\)\.IaId$`).MatchString(iaid) {
					addb("the IA_NA in the reply does not carry the request IA_NA's IAID: " + shortName(iaid))
				}
				// the address inside is the looked-up one
				found := false
				for k, ce := range st.store {
					if strings.HasSuffix(k, ".IPv6Addr") && lookRe.MatchString(ce.S) && strings.HasSuffix(ce.S, "#0") {
						found = true
					}
				}
				if !found {
					addb("the IA_NA does not carry the address listed for the client")
				}
				if v, _ := histFact(st, "nil", regexp.MustCompile(`OneIANA\(.*\)$`)); v != 0 {
					addb("an address is handed out although the client did not request an IA_NA")
				}
			}
		}
	}
	nFound, nMiss := 0, 0
	ex.Hooks.Exit = func(st *State, in ssa.Instruction) {
		ret, ok := in.(*ssa.Return)
		if !ok || len(ret.Results) != 2 {
			return
		}
		found, _ := histFact(st, "bool", regexp.MustCompile(`^lookup@(?:[\w$]+·)?t\d+\(`+reQ(g.String())+`,.*\)#1$`))
		r0 := ex.ResolveDeep(st, ret.Results[0])
		stop := false
		if k, ok := ex.ResolveDeep(st, ret.Results[1]).(*ssa.Const); ok && constStr(k) == "true" {
			stop = true
		}
		if isNilConst(r0) {
			if v, _ := histFact(st, "nil", regexp.MustCompile(`GetInnerMessage\(\$0\)#1$`)); v == 0 {
				return
			}
			addb(fmt.Sprintf("request dropped at %s", c.P.InstrPos(in)))
			return
		}
		if p, ok := r0.(*ssa.Parameter); !ok || p != fn.Params[1] {
			addb("the handler does not return the response it was given")
		}
		touched := false
		for l := range st.seen {
			if l == "yiaddr" || l == "iana" || strings.HasPrefix(l, "resp-store:") {
				touched = true
			}
		}
		switch found {
		case 1:
			nFound++
			if v6 {
				if !st.seen["iana"] || stop {
					addb(fmt.Sprintf("a listed DHCPv6 client is not answered with an IA_NA and continue at %s", c.P.InstrPos(in)))
				}
			} else if !st.seen["yiaddr"] || !stop {
				addb(fmt.Sprintf("a listed DHCPv4 client is not answered with yiaddr = the listed address, ending the chain, at %s", c.P.InstrPos(in)))
			}
		default:
			nMiss++
			if touched || stop {
				addb(fmt.Sprintf("a client that is not listed (or not looked up) gets something from this plugin at %s (touched=%v stop=%v)", c.P.InstrPos(in), touched, stop))
			}
		}
	}
	ex.Run()
	if nLook == 0 || nFound == 0 || nMiss == 0 {
		addb(fmt.Sprintf("handler shape not recognised (lookups=%d found-exits=%d miss-exits=%d)", nLook, nFound, nMiss))
	}
	key := shortFn(fn)
	if len(bad) > 0 {
		c.R.bad(prefix+"FILE.LOOKUP", key, c.P.Pos(fn.Pos()), shortFn(fn), strings.Join(bad, "; "))
	} else {
		c.R.ok(prefix+"FILE.LOOKUP", key, c.P.Pos(fn.Pos()), shortFn(fn), "lookup by the loaders' canonical key; listed clients get exactly the listed address, others get nothing from this plugin")
	}
}

func ruleFileWatch(c *Ctx, prefix string) {
	sf := c.P.Anchor("setupFile")
	if sf == nil {
		c.R.Fatalf("ANCHOR-UNRESOLVED: file.setupFile")
		return
	}
	var w *ssa.Function
	eachInstr(sf, func(in ssa.Instruction) {
		if g, ok := in.(*ssa.Go); ok {
			switch v := g.Call.Value.(type) {
			case *ssa.MakeClosure:
				w, _ = v.Fn.(*ssa.Function)
			case *ssa.Function: // a named watcher function started with `go`
				if FirstParty(v) {
					w = v
				}
			}
		}
	})
	key := "file watcher goroutine"
	if w == nil {
		c.R.bad(prefix+"FILE.WATCH", key, c.P.Pos(sf.Pos()), shortFn(sf), "setupFile starts no watcher goroutine: autorefresh never reloads")
		return
	}
	c.R.Functions[shortFn(w)] = true
	info := InfoOf(w)
	var bad []string
	hdr := -1
	for h := range info.LoopOf {
		hdr = h
	}
	if hdr < 0 || len(info.LoopOf) != 1 {
		bad = append(bad, "the watcher is not a single loop over the event channel")
	} else {
		// receives from the channel in the header region; no return / panic inside the loop
		recv := false
		reload := false
		for bi := range info.LoopOf[hdr] {
			for _, in := range w.Blocks[bi].Instrs {
				switch x := in.(type) {
				case *ssa.UnOp:
					if x.Op.String() == "<-" {
						recv = true
						// ... from the watcher's own event channel: an intermediate channel (a coalescing
						// or debouncing stage) can drop or reorder the event that announces the last update
						fromEvents := false
						if ld, ok := x.X.(*ssa.UnOp); ok {
							if fa, ok := ld.X.(*ssa.FieldAddr); ok && fieldName(fa) == "Events" && strings.HasSuffix(namedOf(fa.X.Type()), "fsnotify.Watcher") {
								fromEvents = true
							}
						}
						if !fromEvents {
							bad = append(bad, fmt.Sprintf("the reload loop receives at %s from a channel that is not the watcher's Events channel itself: events can be dropped or merged before they cause a reload", c.P.InstrPos(in)))
						}
					}
				case *ssa.Return, *ssa.Panic:
					bad = append(bad, fmt.Sprintf("the watcher leaves its loop at %s: after one failed (or any) reload later updates are never picked up", c.P.InstrPos(in)))
				case *ssa.Call:
					if f := x.Call.StaticCallee(); f != nil {
						if isAnchor(f, "loadFromFile") {
							reload = true
						}
						for _, g := range inlineFuncs(f) {
							if isAnchor(g, "loadFromFile") {
								reload = true // through a helper extracted from the loop body
							}
						}
						if strings.Contains(fnCalls(f), "/plugins/file."+anRaw("loadFromFile")) && defaultInline(w, f) {
							reload = true
						}
					}
					if _, ok := panicSite(in); ok {
						bad = append(bad, fmt.Sprintf("the watcher terminates the process at %s", c.P.InstrPos(in)))
					}
				}
			}
			for _, s := range w.Blocks[bi].Succs {
				if !info.LoopOf[hdr][s.Index] && bi != hdr {
					bad = append(bad, "the watcher loop has an exit other than the event channel being closed")
				}
			}
		}
		if !recv {
			bad = append(bad, "the watcher does not receive from the event channel")
		}
		if !reload {
			bad = append(bad, "the watcher does not reload the file on an event")
		}
	}
	if len(bad) > 0 {
		c.R.bad(prefix+"FILE.WATCH", key, c.P.Pos(w.Pos()), shortFn(w), strings.Join(dedup(bad), "; "))
	} else {
		c.R.ok(prefix+"FILE.WATCH", key, c.P.Pos(w.Pos()), shortFn(w), "reloads on every event; a failing reload continues with the next event; the loop ends only when the channel is closed")
	}
	ruleFileName(c, prefix, sf, w)
}

// ruleFileName: the path loaded at start-up, the path watched and the path
// reloaded on every event are all the configured argument itself (at most
// lexically normalised): "the file" of the property is the configured name at
// the time of each reload, not whatever it resolved to when the server started.
func ruleFileName(c *Ctx, prefix string, sf, w *ssa.Function) {
	rule := prefix + "FILE.NAME"
	var accept func(v ssa.Value) bool
	accept = func(v ssa.Value) bool {
		switch x := v.(type) {
		case *ssa.Parameter:
			// the name handed to a watcher goroutine / helper: what every call site passes
			g := x.Parent()
			if g == sf {
				return false
			}
			n := 0
			for i, q := range g.Params {
				if q != x {
					continue
				}
				for _, site := range c.P.CallersOf(g) {
					if i >= len(site.Common().Args) || site.Common().StaticCallee() != g {
						return false
					}
					n++
					if ok, _ := staticOrigins(c, sf, site.Common().Args[i], accept); !ok {
						return false
					}
				}
			}
			return n > 0
		case *ssa.Const:
			return x.Value != nil && x.Value.ExactString() == `""` // a helper's failure return: no file is ever read under the empty name
		case *ssa.UnOp:
			if ia, ok := x.X.(*ssa.IndexAddr); ok && x.Op == token.MUL {
				_, isParam := ia.X.(*ssa.Parameter)
				k, isConst := ia.Index.(*ssa.Const)
				return isParam && isConst && k.Value != nil && k.Value.ExactString() == "0"
			}
		case *ssa.Call:
			if f := x.Call.StaticCallee(); f != nil && f.String() == "path/filepath.Clean" {
				ok, _ := staticOrigins(c, sf, x.Call.Args[0], accept)
				return ok
			}
		case *ssa.Extract:
			if call, ok := x.Tuple.(*ssa.Call); ok && x.Index == 0 {
				if f := call.Call.StaticCallee(); f != nil && f.String() == "path/filepath.Abs" {
					ok, _ := staticOrigins(c, sf, call.Call.Args[0], accept)
					return ok
				}
			}
		}
		return false
	}
	n := 0
	seen := map[ssa.Instruction]bool{}
	check := func(in ssa.Instruction) {
		call, ok := in.(*ssa.Call)
		if !ok || seen[in] {
			return
		}
		f := call.Call.StaticCallee()
		if f == nil {
			return
		}
		var arg ssa.Value
		what := ""
		switch {
		case isAnchor(f, "loadFromFile"):
			for _, a := range call.Call.Args {
				if b, ok := a.Type().Underlying().(*types.Basic); ok && b.Kind() == types.String {
					arg, what = a, "loaded"
				}
			}
		case f.Name() == "Add" && f.Signature.Recv() != nil && strings.HasSuffix(namedOf(f.Signature.Recv().Type()), "fsnotify.Watcher"):
			arg, what = call.Call.Args[len(call.Call.Args)-1], "watched"
		}
		if arg == nil {
			return
		}
		seen[in] = true
		n++
		key := fmt.Sprintf("%s path %s#%d", shortFn(in.Parent()), what, n)
		if ok, why := staticOrigins(c, sf, arg, accept); ok {
			c.R.ok(rule, key, c.P.InstrPos(in), shortFn(in.Parent()), "the path "+what+" is the configured argument itself")
		} else {
			c.R.bad(rule, key, c.P.InstrPos(in), shortFn(in.Parent()), "the path "+what+" is not the configured file name itself but derived from it ("+shortName(why)+"): a reload reads whatever that resolved to at start-up, not the configured file")
		}
	}
	eachInstr(sf, check)
	if w != nil {
		eachInstr(w, check)
	}
}
