package main

import (
	"fmt"
	"go/token"
	"go/types"
	"sort"
	"strings"

	"golang.org/x/tools/go/ssa"
)

// panicSite reports whether the instruction terminates the process / goroutine
// abnormally: builtin panic, logrus Panic*/Fatal*, log.Fatal*, os.Exit.
func panicSite(in ssa.Instruction) (string, bool) {
	switch x := in.(type) {
	case *ssa.Panic:
		// go/ssa closes the case dispatch of a blocking select with a synthetic
		// panic("blocking select matched no case"): it is unreachable by construction
		if mi, ok := x.X.(*ssa.MakeInterface); ok {
			if k, ok := mi.X.(*ssa.Const); ok && k.Value != nil && strings.Contains(k.Value.ExactString(), "blocking select matched no case") {
				return "", false
			}
		}
		return "panic", true
	case *ssa.Call:
		fn := x.Call.StaticCallee()
		if fn == nil {
			return "", false
		}
		s := fn.String()
		switch {
		case s == "os.Exit":
			return "os.Exit", true
		case strings.HasPrefix(s, "(*github.com/sirupsen/logrus.Entry).Panic"),
			strings.HasPrefix(s, "(*github.com/sirupsen/logrus.Entry).Fatal"),
			strings.HasPrefix(s, "(*github.com/sirupsen/logrus.Logger).Panic"),
			strings.HasPrefix(s, "(*github.com/sirupsen/logrus.Logger).Fatal"),
			strings.HasPrefix(s, "log.Fatal"), strings.HasPrefix(s, "log.Panic"),
			strings.HasPrefix(s, "(*log.Logger).Fatal"), strings.HasPrefix(s, "(*log.Logger).Panic"):
			return fn.Name(), true
		}
	}
	return "", false
}

// paramConsts computes the set of constants a parameter can receive over all
// first-party call sites, transitively through callers' parameters. ok=false
// when some call site passes a non-constant.
func paramConsts(p *Program, fn *ssa.Function, idx int, depth int, seen map[string]bool) (map[string]bool, bool) {
	k := fmt.Sprintf("%s#%d", fn.String(), idx)
	if seen[k] {
		return map[string]bool{}, true
	}
	seen[k] = true
	if depth > 6 {
		return nil, false
	}
	if fn.Object() != nil && fn.Object().Exported() {
		return nil, false
	}
	sites := p.CallersOf(fn)
	if len(sites) == 0 {
		return nil, false
	}
	out := map[string]bool{}
	for _, s := range sites {
		cc := s.Common()
		if cc.StaticCallee() != fn || idx >= len(cc.Args) {
			return nil, false
		}
		sub, ok := constSetOf(p, cc.Args[idx], depth, seen)
		if !ok {
			return nil, false
		}
		for c := range sub {
			out[c] = true
		}
	}
	return out, true
}

// rulePanic discharges every panic/Fatal/exit site in fns.
func rulePanic(c *Ctx, prefix string, fns []*ssa.Function, pred map[*ssa.Function]*ssa.Function, ro *Roots) {
	rule := prefix + "PANIC"
	for _, fn := range fns {
		has := false
		for _, b := range fn.Blocks {
			for _, in := range b.Instrs {
				if _, ok := panicSite(in); ok {
					has = true
				}
			}
		}
		if !has {
			continue
		}
		ex := NewExplorer(c.P, c.Pure, fn)
		type hit struct {
			in ssa.Instruction
			st *State
		}
		var hits []hit
		check := func(st *State, in ssa.Instruction) {
			if _, ok := panicSite(in); ok {
				hits = append(hits, hit{in, st})
			}
		}
		ex.Hooks.Instr = check
		ex.Run()
		ord := map[string]int{}
		seenSite := map[ssa.Instruction]bool{}
		for _, h := range hits {
			what, _ := panicSite(h.in)
			if !seenSite[h.in] {
				seenSite[h.in] = true
				ord[what]++
			}
			key := fmt.Sprintf("%s %s#%d", shortFn(fn), what, siteOrdinal(fn, h.in))
			// find discriminating guard facts
			ok, why := dischargePanic(c, fn, h.st, ro)
			o := &Obl{Rule: rule, Key: key + " " + guardDesc(h.st), Pos: c.P.InstrPos(h.in), Fn: shortFn(fn), Fixture: isFixture(fn)}
			if ok {
				o.Verdict, o.Detail = Discharged, why
			} else {
				o.Verdict = Violated
				o.Detail = fmt.Sprintf("%s reachable from %s and not shown unreachable: %s", what, witnessPath(pred, fn), why)
				o.Facts = append(o.Facts, fmt.Sprintf("abstract path (blocks): %v", h.st.Trail()))
				for _, s := range h.st.HistStrings() {
					o.Facts = append(o.Facts, "decided: "+shortName(s))
				}
			}
			c.R.Add(o)
		}
		// sites never reached by the exploration (dead code) are still listed
		for _, in := range viewInstrs(fn) {
			{
				if what, ok := panicSite(in); ok && !seenSite[in] {
					c.R.ok(rule, fmt.Sprintf("%s %s (unreachable)", shortFn(fn), what), c.P.InstrPos(in), shortFn(fn), "no abstract path reaches the site (branch conditions are contradictory)")
				}
			}
		}
	}
}

func guardDesc(st *State) string {
	// the last decided fact is the guard of the site
	var last *Fact
	for _, k := range sortedKeys(st.hist) {
		f := st.hist[k]
		if last == nil || (f.At != nil && last.At != nil && f.At.Pos() > last.At.Pos()) {
			last = f
		}
	}
	if last == nil {
		return "unguarded"
	}
	return "guard[" + stableKey(last.String()) + "]"
}

func dischargePanic(c *Ctx, fn *ssa.Function, st *State, ro *Roots) (bool, string) {
	var reasons []string
	for _, k := range sortedKeys(st.hist) {
		f := st.hist[k]
		// (a) constant-unreachable: a parameter compared with constants
		if f.Kind == "eq" && strings.HasPrefix(f.X, "$") && !strings.ContainsAny(f.X, ".[") {
			idx := 0
			fmt.Sscanf(f.X, "$%d", &idx)
			consts, ok := paramConsts(c.P, fn, idx, 0, map[string]bool{})
			if ok && len(consts) > 0 {
				feasible := false
				for cst := range consts {
					if f.Eq != "" {
						if f.Eq == cst {
							feasible = true
						}
					} else {
						ex := false
						for _, ne := range f.Ne {
							if ne == cst {
								ex = true
							}
						}
						if !ex {
							feasible = true
						}
					}
				}
				if !feasible {
					cs := []string{}
					for cst := range consts {
						cs = append(cs, cst)
					}
					sort.Strings(cs)
					return true, fmt.Sprintf("constant-unreachable: parameter %s only ever receives {%s} over all first-party call chains, guard requires %s", f.X, strings.Join(cs, ","), f.String())
				}
				reasons = append(reasons, fmt.Sprintf("guard %s is satisfiable by caller constants", f.String()))
			} else if !ok {
				reasons = append(reasons, fmt.Sprintf("parameter %s receives non-constant values", f.X))
			}
		}
		// (b) init-before-use: guarded by `G == nil` for a package variable G
		if f.Kind == "nil" && f.Val {
			for _, r := range f.Reads {
				if r.Global != nil && r.Path == f.X {
					ok, why := initBeforeUse(c, fn, r.Global, ro)
					if ok {
						return true, why
					}
					reasons = append(reasons, why)
				}
			}
		}
	}
	// (c) range-proved table
	if chk, ok := rangeProved[anchorKeyOf(fn)]; ok {
		ok2, why := chk(c, fn)
		if ok2 {
			return true, why
		}
		reasons = append(reasons, why)
	}
	if len(reasons) == 0 {
		reasons = append(reasons, "no guard fact of a recognised kind (caller constants, init-before-use, range table) on the path")
	}
	return false, strings.Join(reasons, "; ")
}

// initBeforeUse: every setup function that returns `handler` with a nil error
// stores a non-nil value to G on every path to that return.
func initBeforeUse(c *Ctx, handler *ssa.Function, G *ssa.Global, ro *Roots) (bool, string) {
	found := 0
	for _, su := range ro.AllSetups() {
		returnsIt := false
		for _, b := range su.Blocks {
			if ret, ok := b.Instrs[len(b.Instrs)-1].(*ssa.Return); ok && len(ret.Results) == 2 {
				if f, ok := ret.Results[0].(*ssa.Function); ok && f == handler {
					returnsIt = true
				}
				if ci, ok := ret.Results[0].(*ssa.ChangeType); ok {
					if f, ok := ci.X.(*ssa.Function); ok && f == handler {
						returnsIt = true
					}
				}
			}
		}
		if !returnsIt {
			continue
		}
		found++
		ex := NewExplorer(c.P, c.Pure, su)
		bad := ""
		ex.Hooks.Label = func(st *State, in ssa.Instruction) string {
			if s, ok := in.(*ssa.Store); ok && s.Addr == G {
				if n, _ := ex.NilState(st, s.Val); n == 0 {
					return "init:" + G.Name()
				}
			}
			return ""
		}
		ex.Hooks.Exit = func(st *State, in ssa.Instruction) {
			ret, ok := in.(*ssa.Return)
			if !ok || len(ret.Results) != 2 {
				return
			}
			if !isNilConst(ex.ResolveDeep(st, ret.Results[1])) {
				return // error return
			}
			r0 := ex.ResolveDeep(st, ret.Results[0])
			if f, ok := r0.(*ssa.Function); !ok || f != handler {
				return
			}
			if !st.seen["init:"+G.Name()] {
				bad = fmt.Sprintf("setup %s returns %s with a nil error at %s without storing a non-nil value to %s (path %v)", shortFn(su), handler.Name(), c.P.InstrPos(in), G.Name(), st.Trail())
			}
		}
		ex.Run()
		if bad != "" {
			return false, bad
		}
		if ex.Exceeded {
			return false, "state budget exceeded in " + shortFn(su)
		}
	}
	if found == 0 {
		return false, fmt.Sprintf("no setup function returns %s", handler.Name())
	}
	return true, fmt.Sprintf("init-before-use: %d setup function(s) returning %s store a non-nil %s on every successful path", found, handler.Name(), G.Name())
}

// rangeProved: panic guards that are ordering tests on values whose range is
// established by the callers; each entry carries a machine-checked side
// condition and refers to the rule that proves the arithmetic part.
var rangeProved = map[string]func(c *Ctx, fn *ssa.Function) (bool, string){
	"toIP": func(c *Ctx, fn *ssa.Function) (bool, string) {
		// every caller passes an offset that is either a successful toOffset
		// result (≤ end-start by its own guard, C05.LINMAP) or a NextClear
		// result (< bitset length = end-start+1, C05.LINMAP + bitset contract)
		sites := c.P.CallersOf(fn)
		if len(sites) == 0 {
			return false, "toIP has no callers (anchor moved?)"
		}
		for _, s := range sites {
			arg := s.Common().Args[1]
			root := s.Parent()
			if rs := explorationRoots(c, root); len(rs) == 1 {
				root = rs[0] // a helper extracted from Allocate is judged as part of Allocate
			}
			ok, why := staticOrigins(c, root, arg, func(v ssa.Value) bool {
				if e, ok := v.(*ssa.Extract); ok && e.Index == 0 {
					if call, ok := e.Tuple.(*ssa.Call); ok {
						if g := call.Call.StaticCallee(); g != nil {
							n := g.String()
							return isAnchor(g, "toOffset") || n == "(*github.com/bits-and-blooms/bitset.BitSet).NextClear"
						}
					}
				}
				return false
			})
			if !ok {
				return false, fmt.Sprintf("toIP argument at %s has an origin other than toOffset/NextClear results: %s", c.P.InstrPos(s), why)
			}
		}
		return true, fmt.Sprintf("range-proved: all %d toIP call sites pass a toOffset/NextClear result (range shown by C05.LINMAP)", len(sites))
	},
}

// originsWithin walks phis/conversions backwards and requires every leaf to
// satisfy ok.
func originsWithin(v ssa.Value, ok func(ssa.Value) bool) (bool, string) {
	seen := map[ssa.Value]bool{}
	var walk func(v ssa.Value) (bool, string)
	walk = func(v ssa.Value) (bool, string) {
		if seen[v] {
			return true, ""
		}
		seen[v] = true
		if ok(v) {
			return true, ""
		}
		switch x := v.(type) {
		case *ssa.Phi:
			for _, e := range x.Edges {
				if r, why := walk(e); !r {
					return false, why
				}
			}
			return true, ""
		case *ssa.Convert:
			return walk(x.X)
		case *ssa.ChangeType:
			return walk(x.X)
		}
		return false, v.String()
	}
	return walk(v)
}

// ---- NOBLOCK -----------------------------------------------------------------

var sleepAllowed = map[string]string{
	"github.com/coredhcp/coredhcp/plugins/sleep": "the sleep plugin delays by the configured finite duration (its documented purpose)",
}

func ruleNoBlock(c *Ctx, prefix string, fns []*ssa.Function, pred map[*ssa.Function]*ssa.Function) {
	rule := prefix + "NOBLOCK"
	for _, fn := range fns {
		info := InfoOf(fn)
		n := 0
		for _, b := range fn.Blocks {
			for _, in := range b.Instrs {
				bad := ""
				switch x := in.(type) {
				case *ssa.Send:
					bad = "channel send"
				case *ssa.Select:
					if x.Blocking {
						bad = "blocking select"
					}
				case *ssa.UnOp:
					if x.Op.String() == "<-" {
						bad = "channel receive"
					}
				case *ssa.Range:
					if _, ok := x.X.Type().Underlying().(*types.Chan); ok {
						bad = "range over channel"
					}
				case *ssa.Call:
					if f := x.Call.StaticCallee(); f != nil {
						switch f.String() {
						case "(*sync.Cond).Wait", "(*sync.WaitGroup).Wait":
							bad = f.String()
						case "time.Sleep":
							if why, ok := sleepAllowed[fnPkgPath(fn)]; ok {
								c.R.Add(&Obl{Rule: rule, Key: shortFn(fn) + " time.Sleep", Pos: c.P.InstrPos(in), Fn: shortFn(fn), Verdict: Discharged, Detail: "table exception: " + why, Fixture: isFixture(fn)})
								n++
							} else {
								bad = "time.Sleep"
							}
						}
					}
				}
				if bad != "" {
					n++
					c.R.Add(&Obl{Rule: rule, Key: shortFn(fn) + " " + bad, Pos: c.P.InstrPos(in), Fn: shortFn(fn), Verdict: Violated,
						Detail: fmt.Sprintf("%s in code handling a datagram (reached via %s): handling may block forever", bad, witnessPath(pred, fn)), Fixture: isFixture(fn)})
				}
			}
		}
		// loops must be bounded range loops
		hs := []int{}
		for h := range info.LoopOf {
			hs = append(hs, h)
		}
		sort.Ints(hs)
		for i, h := range hs {
			hb := fn.Blocks[h]
			kind := ""
			switch {
			case strings.HasPrefix(hb.Comment, "rangeindex."):
				kind = "range over slice/array/int"
			case strings.HasPrefix(hb.Comment, "rangeiter."):
				kind = "range over map/string"
				for _, in := range hb.Instrs {
					if nx, ok := in.(*ssa.Next); ok {
						if rg, ok := nx.Iter.(*ssa.Range); ok {
							if _, isChan := rg.X.Type().Underlying().(*types.Chan); isChan {
								kind = ""
							}
						}
					}
				}
			case strings.HasPrefix(hb.Comment, "rangechan."):
				kind = ""
			default:
				if cl := CountedLoopAt(fn, h); cl != nil && LoopInvariant(fn, h, cl.Bound) {
					kind = fmt.Sprintf("counted loop: index steps by %d towards a loop-invariant bound", cl.Step)
				}
			}
			key := fmt.Sprintf("%s loop#%d", shortFn(fn), i+1)
			pos := c.P.InstrPos(hb.Instrs[0])
			if kind != "" {
				c.R.Add(&Obl{Rule: rule, Key: key, Pos: pos, Fn: shortFn(fn), Verdict: Discharged, Detail: "bounded loop: " + kind, Fixture: isFixture(fn)})
			} else {
				c.R.Add(&Obl{Rule: rule, Key: key, Pos: pos, Fn: shortFn(fn), Verdict: Violated,
					Detail: fmt.Sprintf("loop (%s) is not a range over a finite collection; termination not shown (reached via %s)", hb.Comment, witnessPath(pred, fn)), Fixture: isFixture(fn)})
			}
			n++
		}
		if n == 0 {
			c.R.Add(&Obl{Rule: rule, Key: shortFn(fn) + " (no loops, no blocking operations)", Pos: c.P.Pos(fn.Pos()), Fn: shortFn(fn), Verdict: Discharged, Detail: "straight-line w.r.t. blocking", Fixture: isFixture(fn)})
		}
	}
}

// ---- SENDONCE ----------------------------------------------------------------

func isSendSite(in ssa.Instruction) string {
	call, ok := in.(*ssa.Call)
	if !ok {
		return ""
	}
	fn := call.Call.StaticCallee()
	if fn == nil {
		return ""
	}
	s := fn.String()
	switch {
	case strings.HasSuffix(s, "payloadHandler).WriteTo"), strings.HasSuffix(s, "PacketConn).WriteTo"), strings.HasSuffix(s, "UDPConn).WriteTo"), strings.HasSuffix(s, "UDPConn).WriteToUDP"):
		return "WriteTo"
	case isAnchor(fn, "sendEthernet"):
		return "sendEthernet"
	case s == "syscall.Sendto":
		return "Sendto"
	}
	return ""
}

func ruleSendOnce(c *Ctx, prefix string, fns []*ssa.Function) {
	rule := prefix + "SENDONCE"
	for _, fn := range fns {
		info := InfoOf(fn)
		sites := 0
		ex := NewExplorer(c.P, c.Pure, fn)
		type dbl struct {
			in ssa.Instruction
			st *State
		}
		var doubles []dbl
		ex.Hooks.Instr = func(st *State, in ssa.Instruction) {
			if isSendSite(in) != "" && st.seen["send"] {
				doubles = append(doubles, dbl{in, st})
			}
		}
		ex.Hooks.Label = func(st *State, in ssa.Instruction) string {
			if isSendSite(in) != "" {
				return "send"
			}
			return ""
		}
		ex.Run()
		bad := map[ssa.Instruction]*State{}
		for _, d := range doubles {
			bad[d.in] = d.st
		}
		for _, b := range fn.Blocks {
			for _, in := range b.Instrs {
				k := isSendSite(in)
				if k == "" {
					continue
				}
				sites++
				key := fmt.Sprintf("%s %s#%d", shortFn(fn), k, sites)
				o := &Obl{Rule: rule, Key: key, Pos: c.P.InstrPos(in), Fn: shortFn(fn), Fixture: isFixture(fn)}
				switch {
				case info.InLoop[b.Index]:
					o.Verdict, o.Detail = Violated, "send site inside a loop: more than one reply per datagram possible"
				case bad[in] != nil:
					o.Verdict, o.Detail = Violated, fmt.Sprintf("a second send is reachable after an earlier one on abstract path %v", bad[in].Trail())
				default:
					o.Verdict, o.Detail = Discharged, "no abstract path executes two send sites; site is not in a cycle"
				}
				c.R.Add(o)
			}
		}
		if ex.Exceeded {
			c.R.unk(rule, shortFn(fn)+" explore", c.P.Pos(fn.Pos()), shortFn(fn), "state budget exceeded")
		}
	}
}

// ---- LOCKORDER ---------------------------------------------------------------

// mutexAnchor names a mutex by the field or global that holds it.
func mutexAnchor(v ssa.Value) string {
	switch x := v.(type) {
	case *ssa.FieldAddr:
		if f := fieldOf(x.X.Type(), x.Field); f != nil {
			return shortName(namedOf(x.X.Type())) + "." + f.Name()
		}
	case *ssa.Global:
		return shortName(x.String())
	}
	return "?" + v.String()
}

func ruleLockOrder(c *Ctx, prefix string) {
	rule := prefix + "LOCKORDER"
	// direct acquisitions per function
	acq := map[*ssa.Function]map[string]bool{}
	for _, fn := range c.P.SrcFuncs() {
		for _, b := range fn.Blocks {
			for _, in := range b.Instrs {
				if call, ok := in.(*ssa.Call); ok {
					if op, _ := mutexOp(&call.Call); op == "lock" {
						if acq[fn] == nil {
							acq[fn] = map[string]bool{}
						}
						acq[fn][mutexAnchor(call.Call.Args[0])] = true
					}
				}
			}
		}
	}
	// transitive closure over first-party call edges
	memo := map[*ssa.Function]map[string]bool{}
	var trans func(fn *ssa.Function, stack map[*ssa.Function]bool) map[string]bool
	trans = func(fn *ssa.Function, stack map[*ssa.Function]bool) map[string]bool {
		if m, ok := memo[fn]; ok {
			return m
		}
		if stack[fn] {
			return map[string]bool{}
		}
		stack[fn] = true
		out := map[string]bool{}
		for a := range acq[fn] {
			out[a] = true
		}
		if n := c.P.CallGraph().Nodes[fn]; n != nil {
			for _, e := range n.Out {
				if FirstParty(e.Callee.Func) {
					for a := range trans(e.Callee.Func, stack) {
						out[a] = true
					}
				}
			}
		}
		delete(stack, fn)
		memo[fn] = out
		return out
	}
	edges := map[string]map[string]string{} // A -> B -> witness
	for _, fn := range c.P.SrcFuncs() {
		if acq[fn] == nil || isFixture(fn) {
			continue
		}
		ex := NewExplorer(c.P, c.Pure, fn)
		anchorOf := map[string]string{} // canonical key -> anchor
		ex.Hooks.Instr = func(st *State, in ssa.Instruction) {
			call, ok := in.(ssa.CallInstruction)
			if !ok {
				return
			}
			if _, isGo := in.(*ssa.Go); isGo {
				return
			}
			cc := call.Common()
			if op, _ := mutexOp(cc); op == "lock" {
				key := strings.TrimPrefix(ex.Canon(st, cc.Args[0]).S, "&")
				anchorOf[key] = mutexAnchor(cc.Args[0])
				for _, h := range st.held {
					a := anchorOf[h.Key]
					b := mutexAnchor(cc.Args[0])
					if edges[a] == nil {
						edges[a] = map[string]string{}
					}
					edges[a][b] = fmt.Sprintf("%s acquires %s while holding %s at %s", shortFn(fn), b, a, c.P.InstrPos(in))
				}
				return
			}
			if op, _ := mutexOp(cc); op != "" || len(st.held) == 0 {
				return
			}
			for _, callee := range c.P.CalleesOf(call) {
				if !FirstParty(callee) {
					continue
				}
				for b := range trans(callee, map[*ssa.Function]bool{}) {
					for _, h := range st.held {
						a := anchorOf[h.Key]
						if edges[a] == nil {
							edges[a] = map[string]string{}
						}
						if _, ok := edges[a][b]; !ok {
							edges[a][b] = fmt.Sprintf("%s calls %s (acquires %s) while holding %s at %s", shortFn(fn), shortFn(callee), b, a, c.P.InstrPos(in))
						}
					}
				}
			}
		}
		ex.Run()
	}
	// acyclicity
	anchors := map[string]bool{}
	for fn, m := range acq {
		if isFixture(fn) {
			continue
		}
		for a := range m {
			anchors[a] = true
		}
	}
	var names []string
	for a := range anchors {
		names = append(names, a)
	}
	sort.Strings(names)
	reach := func(from, to string) (bool, []string) {
		seen := map[string]bool{}
		var path []string
		var dfs func(x string) bool
		dfs = func(x string) bool {
			for y, w := range edges[x] {
				if y == to {
					path = append(path, w)
					return true
				}
				if !seen[y] {
					seen[y] = true
					if dfs(y) {
						path = append(path, w)
						return true
					}
				}
			}
			return false
		}
		ok := dfs(from)
		return ok, path
	}
	for _, a := range names {
		if cyc, path := reach(a, a); cyc {
			c.R.bad(rule, "mutex "+a, "-", "-", fmt.Sprintf("lock-order cycle through %s: %s", a, strings.Join(path, " ; ")))
		} else {
			var outs []string
			for b := range edges[a] {
				outs = append(outs, b)
			}
			sort.Strings(outs)
			c.R.ok(rule, "mutex "+a, "-", "-", fmt.Sprintf("no cycle; acquired-while-held successors: %v", outs))
		}
	}
}

// siteOrdinal: position of the panic site among the function's panic sites.
func siteOrdinal(fn *ssa.Function, at ssa.Instruction) int {
	n := 0
	for _, b := range fn.Blocks {
		for _, in := range b.Instrs {
			if _, ok := panicSite(in); ok {
				n++
				if in == at {
					return n
				}
			}
		}
	}
	return 0
}

// constSetOf: the constants a value can take: a constant, a caller's parameter
// (recursively), a phi of such, or an element of a literal array/slice of constants.
func constSetOf(p *Program, v ssa.Value, depth int, seen map[string]bool) (map[string]bool, bool) {
	out := map[string]bool{}
	switch a := v.(type) {
	case *ssa.Const:
		out[constStr(a)] = true
		return out, true
	case *ssa.Parameter:
		caller := a.Parent()
		j := -1
		for i, q := range caller.Params {
			if q == a {
				j = i
			}
		}
		return paramConsts(p, caller, j, depth+1, seen)
	case *ssa.Phi:
		for _, e := range a.Edges {
			sub, ok := constSetOf(p, e, depth+1, seen)
			if !ok {
				return nil, false
			}
			for c := range sub {
				out[c] = true
			}
		}
		return out, true
	case *ssa.ChangeType:
		return constSetOf(p, a.X, depth+1, seen)
	case *ssa.Index:
		// element of (a copy of) a package-level array of constants written only by its initialiser
		if ld, ok := a.X.(*ssa.UnOp); ok && ld.Op == token.MUL {
			if g, ok := ld.X.(*ssa.Global); ok {
				n := 0
				for _, st := range findGlobalElemStores(p, g) {
					k, isC := st.Val.(*ssa.Const)
					if st.Parent().Name() != "init" || !isC {
						return nil, false
					}
					out[constStr(k)] = true
					n++
				}
				if al, ok := arrayLen(ld.Type()); ok && int64(n) == al && len(findStores(p, nil, g)) == 0 {
					return out, true
				}
			}
		}
		return nil, false
	case *ssa.UnOp:
		// element of a literal: every element store is a constant
		ia, ok := a.X.(*ssa.IndexAddr)
		if !ok {
			return nil, false
		}
		var arr *ssa.Alloc
		switch b := ia.X.(type) {
		case *ssa.Slice:
			arr, _ = b.X.(*ssa.Alloc)
		case *ssa.Alloc:
			arr = b
		case *ssa.UnOp:
			// element of a package-level table: its only store is the initialiser's literal
			if g, ok := b.X.(*ssa.Global); ok && b.Op == token.MUL {
				stores := findStores(p, nil, g)
				if len(stores) != 1 || stores[0].Parent().Name() != "init" {
					return nil, false
				}
				sv := stores[0].Val
				if sl, ok := sv.(*ssa.Slice); ok {
					arr, _ = sl.X.(*ssa.Alloc)
				}
			}
		case *ssa.Global:
			// a package-level array indexed directly: element stores happen in init only
			n := 0
			for _, st := range findGlobalElemStores(p, b) {
				if st.Parent().Name() != "init" {
					return nil, false
				}
				k, ok := st.Val.(*ssa.Const)
				if !ok {
					return nil, false
				}
				out[constStr(k)] = true
				n++
			}
			return out, n > 0
		}
		if arr == nil {
			return nil, false
		}
		n := 0
		for _, r := range *arr.Referrers() {
			ea, ok := r.(*ssa.IndexAddr)
			if !ok {
				continue
			}
			for _, r2 := range *ea.Referrers() {
				if s, ok := r2.(*ssa.Store); ok {
					k, ok := s.Val.(*ssa.Const)
					if !ok {
						return nil, false
					}
					out[constStr(k)] = true
					n++
				}
			}
		}
		return out, n > 0
	}
	return nil, false
}

// findGlobalElemStores: stores through IndexAddr of the package-level array g.
func findGlobalElemStores(p *Program, g *ssa.Global) []*ssa.Store {
	var out []*ssa.Store
	for fn := range p.AllFunctions() {
		if !FirstParty(fn) {
			continue
		}
		for _, b := range fn.Blocks {
			for _, in := range b.Instrs {
				if s, ok := in.(*ssa.Store); ok {
					if ia, ok := s.Addr.(*ssa.IndexAddr); ok && ia.X == ssa.Value(g) {
						out = append(out, s)
					}
				}
			}
		}
	}
	return out
}
