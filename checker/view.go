package main

import (
	"fmt"
	"go/token"
	"go/types"
	"sort"
	"strings"

	"golang.org/x/tools/go/ssa"
)

// inlineFuncs returns fn followed by every function the explorer inlines when
// it explores fn with the default policy (same-package first-party helpers
// that are not entry points; static calls only; depth ≤ 3; ≤ 80 blocks; no
// recursion), in a deterministic order. Rules use it for their site scans so
// that moving statements into a helper does not hide the sites.
func inlineFuncs(fn *ssa.Function) []*ssa.Function {
	return inlineFuncsBy(fn, defaultInline)
}

// inlineFuncsBy is inlineFuncs for an explicit inlining policy.
func inlineFuncsBy(fn *ssa.Function, policy func(caller, callee *ssa.Function) bool) []*ssa.Function {
	out := []*ssa.Function{fn}
	seen := map[*ssa.Function]bool{fn: true}
	var walk func(f *ssa.Function, depth int)
	walk = func(f *ssa.Function, depth int) {
		if depth >= 3 {
			return
		}
		for _, b := range f.Blocks {
			for _, in := range b.Instrs {
				if mc, ok := in.(*ssa.MakeClosure); ok {
					// closures built here may be explored inline (handed to a helper that calls them)
					if cf, ok := mc.Fn.(*ssa.Function); ok && !seen[cf] && len(cf.Blocks) > 0 && len(cf.Blocks) <= 80 {
						if _, isGo := goOrDeferUse(mc); !isGo {
							seen[cf] = true
							out = append(out, cf)
							walk(cf, depth+1)
						}
					}
					continue
				}
				call, ok := in.(*ssa.Call)
				if !ok || call.Call.IsInvoke() {
					continue
				}
				callee := call.Call.StaticCallee()
				if callee == nil || seen[callee] || len(callee.Blocks) == 0 || len(callee.Blocks) > 80 {
					continue
				}
				if !policy(f, callee) {
					continue
				}
				seen[callee] = true
				out = append(out, callee)
				walk(callee, depth+1)
			}
		}
	}
	walk(fn, 0)
	return out
}

// eachInstr calls f for every instruction of fn and of the helpers inlined into it.
func eachInstr(fn *ssa.Function, f func(in ssa.Instruction)) {
	for _, g := range inlineFuncs(fn) {
		for _, b := range g.Blocks {
			for _, in := range b.Instrs {
				f(in)
			}
		}
	}
}

// inLoopCtx: the instruction executes inside a loop of its own function, or
// the (inlined) call chain leading to it sits inside a loop of a caller.
func inLoopCtx(st *State, in ssa.Instruction) bool {
	if InfoOf(in.Parent()).InLoop[in.Block().Index] {
		return true
	}
	if st != nil {
		for _, fr := range st.frames {
			if InfoOf(fr.call.Parent()).InLoop[fr.call.Block().Index] {
				return true
			}
		}
	}
	return false
}

// constOfCanon: "true"/"false"/"nil" rendered by the canonicaliser (constants
// returned by inlined helpers included).
func canonIs(ex *Explorer, st *State, v ssa.Value, want string) bool {
	return ex.Canon(st, v).S == want
}

// viewInstrs: every instruction of fn and of the helpers inlined into it, in order.
func viewInstrs(fn *ssa.Function) []ssa.Instruction {
	var out []ssa.Instruction
	eachInstr(fn, func(in ssa.Instruction) { out = append(out, in) })
	return out
}

// idxRe matches the canonical rendering of a loop index: the index of a
// `range` loop ("(φtN + 1)") or of a counted `for i := 0; i < n; i++` loop ("φtN").
const idxRe = `(?:\(φ(?:[\w$]+·)?t\d+ \+ 1\)|φ(?:[\w$]+·)?t\d+)`

// retIsNil: the returned value is the nil constant on this abstract path
// (directly, or as the result an inlined helper returned).
func retIsNil(ex *Explorer, st *State, v ssa.Value) bool {
	if isNilConst(ex.Resolve(st, v)) || ex.Canon(st, v).S == "nil" {
		return true
	}
	n, _ := ex.NilState(st, v)
	return n == 1
}

// retBool: "true"/"false" when the returned boolean is a constant on this path, else "".
func retBool(ex *Explorer, st *State, v ssa.Value) string {
	if k, ok := ex.Resolve(st, v).(*ssa.Const); ok {
		return constStr(k)
	}
	if s := ex.Canon(st, v).S; s == "true" || s == "false" {
		return s
	}
	return ""
}

// explorationRoots: the functions from which fn's body is explored. A helper
// that every caller explores inline is judged in its callers (recursively);
// anything else is its own root.
func explorationRoots(c *Ctx, fn *ssa.Function) []*ssa.Function {
	seen := map[*ssa.Function]bool{}
	var out []*ssa.Function
	var walk func(f *ssa.Function, depth int)
	walk = func(f *ssa.Function, depth int) {
		if seen[f] {
			return
		}
		seen[f] = true
		if f.Parent() != nil && depth < 3 {
			// a closure: explored inline where its enclosing function (or a helper that function
			// hands it to) calls it - judged from the enclosing function
			walk(f.Parent(), depth+1)
			return
		}
		if depth < 3 && inlinedEverywhere(c, f) {
			for _, s := range c.P.CallersOf(f) {
				walk(s.Parent(), depth+1)
			}
			return
		}
		out = append(out, f)
	}
	walk(fn, 0)
	sort.Slice(out, func(i, j int) bool { return fnLess(c.P, out[i], out[j]) })
	return out
}

// staticOrigins is originsWithin across the boundaries of helpers that are
// explored inline from root: it walks phis, conversions and
//   - results of calls to such helpers  → the values their returns yield,
//   - parameters of such helpers        → the arguments at their call sites,
//
// and reports whether every origin satisfies accept. nil constants are
// reported to accept like any other origin (callers decide whether a nil
// origin matters).
func staticOrigins(c *Ctx, root *ssa.Function, v ssa.Value, accept func(ssa.Value) bool) (bool, string) {
	inl := map[*ssa.Function]bool{}
	for _, f := range inlineFuncs(root) {
		inl[f] = true
	}
	seen := map[ssa.Value]bool{}
	var walk func(v ssa.Value, depth int) (bool, string)
	retsOf := func(f *ssa.Function, k int, depth int) (bool, string) {
		n := 0
		for _, b := range f.Blocks {
			ret, ok := b.Instrs[len(b.Instrs)-1].(*ssa.Return)
			if !ok || k >= len(ret.Results) {
				continue
			}
			n++
			if r, why := walk(ret.Results[k], depth+1); !r {
				return false, why
			}
		}
		if n == 0 {
			return false, "helper " + f.Name() + " has no return"
		}
		return true, ""
	}
	walk = func(v ssa.Value, depth int) (bool, string) {
		if v == nil || seen[v] || depth > 24 {
			return true, ""
		}
		seen[v] = true
		if accept(v) {
			return true, ""
		}
		switch x := v.(type) {
		case *ssa.Phi:
			for _, e := range x.Edges {
				if r, why := walk(e, depth+1); !r {
					return false, why
				}
			}
			return true, ""
		case *ssa.Convert:
			return walk(x.X, depth+1)
		case *ssa.ChangeType:
			return walk(x.X, depth+1)
		case *ssa.ChangeInterface:
			return walk(x.X, depth+1)
		case *ssa.Extract:
			if call, ok := x.Tuple.(*ssa.Call); ok {
				if f := call.Call.StaticCallee(); f != nil && inl[f] && f != root {
					return retsOf(f, x.Index, depth)
				}
			}
		case *ssa.Call:
			if f := x.Call.StaticCallee(); f != nil && inl[f] && f != root && f.Signature.Results().Len() == 1 {
				return retsOf(f, 0, depth)
			}
		case *ssa.Parameter:
			g := x.Parent()
			if g != root && inl[g] {
				idx := -1
				for i, p := range g.Params {
					if p == x {
						idx = i
					}
				}
				n := 0
				for _, site := range c.P.CallersOf(g) {
					if !inl[site.Parent()] || site.Common().StaticCallee() != g || idx >= len(site.Common().Args) {
						continue
					}
					n++
					if r, why := walk(site.Common().Args[idx], depth+1); !r {
						return false, why
					}
				}
				if n > 0 {
					return true, ""
				}
			}
		case *ssa.UnOp:
			// a variable captured by a closure that is explored inline: the captured variable itself
			if fv, ok := x.X.(*ssa.FreeVar); ok && x.Op == token.MUL {
				for f := range inl {
					for _, b := range f.Blocks {
						for _, in := range b.Instrs {
							mc, ok := in.(*ssa.MakeClosure)
							if !ok || mc.Fn != ssa.Value(fv.Parent()) {
								continue
							}
							for j, q := range fv.Parent().FreeVars {
								if q == fv && j < len(mc.Bindings) {
									if al, ok := mc.Bindings[j].(*ssa.Alloc); ok {
										n := 0
										for _, r := range *al.Referrers() {
											if s, ok := r.(*ssa.Store); ok && s.Addr == ssa.Value(al) {
												n++
												if r2, why := walk(s.Val, depth+1); !r2 {
													return false, why
												}
											}
										}
										if n > 0 {
											return true, ""
										}
									}
								}
							}
						}
					}
				}
			}
			// a local variable (spilled named result, address-taken local): every value stored into it
			if al, ok := x.X.(*ssa.Alloc); ok && x.Op == token.MUL {
				n := 0
				for _, r := range *al.Referrers() {
					if s, ok := r.(*ssa.Store); ok && s.Addr == ssa.Value(al) {
						n++
						if r2, why := walk(s.Val, depth+1); !r2 {
							return false, why
						}
					}
				}
				if n > 0 {
					return true, ""
				}
			}
		}
		return false, v.String()
	}
	return walk(v, 0)
}

// loopExhausted reports what the path decided, the last time it evaluated the
// loop's own continuation test at header hdr: 1 = the test failed (the loop
// ran to its end), 0 = the test succeeded (the path left the loop from inside
// an iteration - break, return), -1 = never evaluated (loop not entered).
// Works for range loops over slices/arrays/ints, counted loops and range
// loops over maps/strings (the `ok` of the iterator).
func loopExhausted(ex *Explorer, st *State, hdr *ssa.BasicBlock) int {
	if hdr == nil || len(hdr.Instrs) == 0 {
		return -1
	}
	iff, ok := hdr.Instrs[len(hdr.Instrs)-1].(*ssa.If)
	if !ok || len(hdr.Succs) != 2 {
		return -1
	}
	info := InfoOf(hdr.Parent())
	body := info.LoopOf[hdr.Index]
	if body == nil {
		return -1
	}
	stays0 := body[hdr.Succs[0].Index]
	stays1 := body[hdr.Succs[1].Index]
	if stays0 == stays1 {
		return -1
	}
	a := ex.AtomOf(st, iff.Cond)
	if a.Const != nil {
		return -1
	}
	f, ok := st.hist[a.key()]
	if !ok {
		return -1
	}
	// truth of the condition itself on the path
	val := f.Val
	switch f.Kind {
	case "eq":
		switch {
		case f.Eq != "":
			val = f.Eq == a.C
		default:
			val = true
			for _, ne := range f.Ne {
				if ne == a.C {
					val = false
				}
			}
			if val {
				return -1 // only exclusions of other constants are known
			}
		}
	}
	if a.Neg {
		val = !val
	}
	continues := val == stays0 // condition true -> Succs[0]
	if continues {
		return 0
	}
	return 1
}

// loopsWith: the headers of the loops (of the instruction's own function) that contain in.
func loopsWith(in ssa.Instruction) []*ssa.BasicBlock {
	var out []*ssa.BasicBlock
	fn := in.Parent()
	for h, body := range InfoOf(fn).LoopOf {
		if body[in.Block().Index] {
			out = append(out, fn.Blocks[h])
		}
	}
	sort.Slice(out, func(i, j int) bool { return out[i].Index < out[j].Index })
	return out
}

// goOrDeferUse: the closure is started with `go` or deferred (not explored inline).
func goOrDeferUse(mc *ssa.MakeClosure) (ssa.Instruction, bool) {
	if mc.Referrers() == nil {
		return nil, false
	}
	for _, r := range *mc.Referrers() {
		switch x := r.(type) {
		case *ssa.Go:
			if x.Call.Value == ssa.Value(mc) {
				return r, true
			}
		case *ssa.Defer:
			if x.Call.Value == ssa.Value(mc) {
				return r, true
			}
		}
	}
	return nil, false
}

// flowsTo: may the value v (defined in root's inline view) reach an
// instruction accepted by sink, following copies only - phis, conversions,
// stores into and loads from local variables and their fields, struct values
// carrying it in a field (returned by value, copied, passed on), arguments
// and results of the helpers explored inline with root. Existential and
// flow-insensitive: used where the rule asks "is this result used at all by X".
func flowsTo(c *Ctx, root *ssa.Function, v ssa.Value, sink func(user ssa.Instruction, v ssa.Value) (bool, string)) (bool, string) {
	inl := map[*ssa.Function]bool{}
	for _, f := range inlineFuncs(root) {
		inl[f] = true
	}
	type item struct {
		v     ssa.Value
		field string // "" = v itself; else v is a struct (or pointer to a local struct) carrying the value in this field path
	}
	seen := map[item]bool{}
	work := []item{{v, ""}}
	push := func(v ssa.Value, f string) {
		it := item{v, f}
		if v != nil && !seen[it] {
			seen[it] = true
			work = append(work, it)
		}
	}
	fname := func(t types.Type, i int) string {
		if f := fieldOf(t, i); f != nil {
			return f.Name()
		}
		return fmt.Sprint(i)
	}
	for len(work) > 0 && len(seen) < 4000 {
		it := work[0]
		work = work[1:]
		refs := it.v.Referrers()
		if refs == nil {
			continue
		}
		for _, u := range *refs {
			if it.field == "" {
				if ok, how := sink(u, it.v); ok {
					return true, how
				}
			}
			switch x := u.(type) {
			case *ssa.Phi:
				push(x, it.field)
			case *ssa.Convert:
				push(x, it.field)
			case *ssa.ChangeType:
				push(x, it.field)
			case *ssa.Store:
				if x.Val != it.v {
					continue
				}
				switch a := x.Addr.(type) {
				case *ssa.Alloc:
					// the variable now carries it (whole, or in the same field)
					push(a, "*"+it.field)
				case *ssa.FieldAddr:
					if al, ok := a.X.(*ssa.Alloc); ok && it.field == "" {
						push(al, "*."+fname(a.X.Type(), a.Field))
					}
				}
			case *ssa.UnOp:
				if x.Op == token.MUL && strings.HasPrefix(it.field, "*") {
					push(x, strings.TrimPrefix(it.field, "*")) // load of the whole variable
				}
			case *ssa.FieldAddr:
				if strings.HasPrefix(it.field, "*.") && it.field[2:] == fname(x.X.Type(), x.Field) {
					push(x, "*") // address of the carrying field: loads of it give the value
				}
			case *ssa.Field:
				if strings.HasPrefix(it.field, ".") && it.field[1:] == fname(x.X.Type(), x.Field) {
					push(x, "")
				}
			case *ssa.Extract:
				// handled from the call below
			case *ssa.Return:
				g := x.Parent()
				if g == root || !inl[g] {
					continue
				}
				for k, r := range x.Results {
					if r != it.v {
						continue
					}
					for _, site := range c.P.CallersOf(g) {
						call, ok := site.(*ssa.Call)
						if !ok || !inl[site.Parent()] {
							continue
						}
						if len(x.Results) == 1 {
							push(call, it.field)
							continue
						}
						for _, r2 := range *call.Referrers() {
							if e, ok := r2.(*ssa.Extract); ok && e.Index == k {
								push(e, it.field)
							}
						}
					}
				}
			case *ssa.Call:
				g := x.Call.StaticCallee()
				if g == nil || !inl[g] || g == root || x.Call.IsInvoke() {
					continue
				}
				for i, a := range x.Call.Args {
					if a == it.v && i < len(g.Params) {
						push(g.Params[i], it.field)
					}
				}
			}
		}
	}
	return false, ""
}
