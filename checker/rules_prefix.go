package main

import (
	"fmt"
	"go/token"
	"go/types"
	"os"
	"regexp"
	"sort"
	"strconv"
	"strings"

	"golang.org/x/tools/go/ssa"
)

// rulePrefix: C08 / C09 obligations on prefix.(*Handler).Handle.
func rulePrefix(c *Ctx, prefix string, want map[string]bool) {
	fn := c.P.Func("plugins/prefix", "*Handler", "Handle")
	addP := c.P.Anchor("addPrefix")
	if fn == nil || addP == nil {
		c.R.Fatalf("ANCHOR-UNRESOLVED: prefix.(*Handler).Handle / addPrefix")
		return
	}
	c.R.Functions[shortFn(fn)] = true
	c.R.Functions[shortFn(addP)] = true
	leaseConst = 0
	info := InfoOf(fn)
	ex := NewExplorer(c.P, c.Pure, fn)
	inner := `invoke:` + reQ(pkgDHCP6) + `\.DHCPv6\.GetInnerMessage\(\$1\)#0`
	keyC := reQ(modPath) + `/plugins/prefix\.` + an("recordKey") + `\(\(` + reQ(pkgDHCP6) + `\.MessageOptions\)\.ClientID\(` + inner + `\.Options\)\)`
	knownRe := `\$0\.Records\[` + keyC + `\]`
	allocRe := `invoke:` + reQ(modPath) + `/plugins/allocators\.Allocator\.Allocate@(?:[\w$]+·)?t\d+\(\$0\.allocator,.*\)`
	bad := map[string][]string{}
	addb := func(rule, s string) {
		for _, x := range bad[rule] {
			if x == s {
				return
			}
		}
		if len(bad[rule]) < 5 {
			bad[rule] = append(bad[rule], s)
		}
	}
	counts := map[string]int{}
	// outer loop = range over IAPD()
	outer := -1
	var addOpt *ssa.Call
	for _, b := range fn.Blocks {
		for _, in := range b.Instrs {
			if call, ok := in.(*ssa.Call); ok && call.Call.IsInvoke() && call.Call.Method.Name() == "AddOption" {
				if mi, ok := call.Call.Args[0].(*ssa.MakeInterface); ok && namedOf(mi.X.Type()) == pkgDHCP6+".OptIAPD" {
					addOpt = call
				}
			}
		}
	}
	if addOpt == nil {
		c.R.bad(prefix+"PD.ONE-PER-IAPD", "Handle AddOption(IA_PD)", c.P.Pos(fn.Pos()), shortFn(fn), "no resp.AddOption(<OptIAPD>) found")
		return
	}
	for h, body := range info.LoopOf {
		if body[addOpt.Block().Index] {
			if outer < 0 || len(info.LoopOf[h]) > len(info.LoopOf[outer]) {
				outer = h
			}
		}
	}
	isAddPrefix := func(in ssa.Instruction) *ssa.Call {
		if call, ok := in.(*ssa.Call); ok && call.Call.StaticCallee() == addP {
			return call
		}
		return nil
	}
	bitsetOf := func(st *State, v ssa.Value) string {
		s := ex.Canon(st, v).S
		if strings.Contains(s, "Records[") {
			if !strings.HasPrefix(s, pkgBitset+".New@") {
				// sized by the known leases but not created empty here: bits may already be set
				addb("KEEP.MARK", "the per-IA_PD bitmap of leases already given out does not start empty (it is "+shortName(stripAt(s))+", not a fresh bitset): a lease marked elsewhere is hidden from the hint-less hand-back and a new block is allocated instead")
			}
			return "givenOut"
		}
		if strings.HasPrefix(s, pkgBitset+".New@") {
			return "satisfied"
		}
		return "?"
	}
	ex.Hooks.Label = func(st *State, in ssa.Instruction) string {
		if call := isAddPrefix(in); call != nil {
			return ""
		}
		if in == ssa.Instruction(addOpt) {
			if st.seen["addopt"] {
				return "addopt+"
			}
			return "addopt"
		}
		if call, ok := in.(*ssa.Call); ok {
			if f := call.Call.StaticCallee(); f != nil && f.String() == "(*"+pkgBitset+".BitSet).Set" {
				return "set:" + bitsetOf(st, call.Call.Args[0]) + ":" + ex.Canon(st, call.Call.Args[1]).S
			}
		}
		if s, ok := in.(*ssa.Store); ok {
			if fa, ok := s.Addr.(*ssa.FieldAddr); ok && fieldName(fa) == "IaId" && namedOf(fa.X.Type()) == pkgDHCP6+".OptIAPD" {
				v := ex.Canon(st, s.Val).S
				if regexp.MustCompile(`IAPD\(` + inner + `\.Options\)\[` + idxRe + `\]\.IaId$`).MatchString(v) {
					return "iaid-ok"
				}
				return "iaid-other:" + v
			}
			if fa, ok := s.Addr.(*ssa.FieldAddr); ok && fieldName(fa) == "Expire" && rootAlloc(fa.X) == nil {
				return "extend:" + strings.TrimSuffix(ex.CanonAddr(st, s.Addr).S, ".Expire")
			}
		}
		return ""
	}
	noPfx := c.P.mustConst(c.R, "github.com/insomniacslk/dhcp/iana", "StatusNoPrefixAvail")
	ex.Hooks.Instr = func(st *State, in ssa.Instruction) {
		if call, ok := in.(*ssa.Call); ok {
			if f := call.Call.StaticCallee(); f != nil && f.Name() == "Add" && len(call.Call.Args) == 2 {
				// iapdResp.Options.Add(&OptStatusCode{...}) (read before the call's effects)
				if al, ok := unbox(call.Call.Args[1]).(*ssa.Alloc); ok && namedOf(al.Type()) == pkgDHCP6+".OptStatusCode" {
					sc, _ := st.ReadLocal("new@" + anm(al) + ".StatusCode")
					st.seen["status:"+sc] = true
				}
			}
		}
		if call, ok := in.(*ssa.Call); ok {
			// NO-HINT: the list the hint loops walk is the request's IAPrefix list when that is
			// non-empty, and the one-element placeholder exactly when it is empty
			if f := call.Call.StaticCallee(); f != nil && f.String() == pkgBitset+".New" && len(call.Call.Args) == 1 {
				a := ex.Canon(st, call.Call.Args[0]).S
				if m := regexp.MustCompile(`^conv<uint>\(len\((.*)\)\)$`).FindStringSubmatch(a); m != nil && !strings.Contains(m[1], "Records[") {
					counts["hintlist"]++
					pfx := regexp.MustCompile(`^len\(\(` + reQ(pkgDHCP6) + `\.PDOptions\)\.Prefixes\(.*\)\)$`)
					empty, _ := histEq(st, pfx, "0")
					switch {
					case strings.HasPrefix(m[1], "("+pkgDHCP6+".PDOptions).Prefixes("):
						if empty != 0 {
							addb("KEEP.NO-HINT", fmt.Sprintf("at %s the hint loops walk the request's IAPrefix list without it having been found non-empty (empty=%s): an IA_PD without IAPrefix options (with or without other sub-options) is not treated as one unspecified hint, so a known client gets NoPrefixAvail instead of its prefix", c.P.InstrPos(in), tri(empty)))
						}
					case strings.HasPrefix(m[1], "new@"):
						// the placeholder is the *unspecified* hint: one element whose prefix is an empty
						// network literal - a computed prefix would be matched like a hint the client sent
						e0, _ := st.ReadLocal(strings.TrimSuffix(m[1], "[:]") + "[0]")
						pf, _ := st.ReadLocal(strings.TrimPrefix(e0, "&") + ".Prefix")
						if !strings.HasPrefix(pf, "&new@") {
							addb("KEEP.NO-HINT", fmt.Sprintf("at %s the placeholder for a hint-less IA_PD does not carry an empty prefix literal but %s: the loops treat it as a hint the client sent, and the client's known leases are no longer handed back", c.P.InstrPos(in), shortName(stripAt(pf))))
						} else if ip, _ := st.ReadLocal(pf[1:] + ".IP"); !strings.HasPrefix(ip, "zero:") {
							addb("KEEP.NO-HINT", fmt.Sprintf("at %s the placeholder's prefix has its address set (%s): it is no longer the unspecified hint", c.P.InstrPos(in), shortName(stripAt(ip))))
						}
						if empty != 1 {
							addb("KEEP.NO-HINT", fmt.Sprintf("at %s the placeholder hint replaces the request's hints although the IAPrefix list was not found empty (empty=%s)", c.P.InstrPos(in), tri(empty)))
						}
					default:
						addb("KEEP.NO-HINT", "the list of hints is neither the request's IAPrefix list nor the placeholder: "+shortName(stripAt(m[1])))
					}
				}
			}
			// EMPTY-HINT: (net.IP).IsUnspecified is false for a nil address (it compares with the two
			// all-zero constants): asked of the placeholder's never-assigned address it classifies the
			// hint-less IA_PD as naming an address
			if f := call.Call.StaticCallee(); f != nil && f.String() == "(net.IP).IsUnspecified" && len(call.Call.Args) == 1 {
				counts["equal"]++
				xs := ex.CanonSingleton(st, call.Call.Args[0]).S
				if strings.HasPrefix(xs, "new@") {
					if v, ok := st.ReadLocal(xs); ok && strings.HasPrefix(v, "zero:") {
						addb("KEEP.EMPTY-HINT", fmt.Sprintf("at %s IsUnspecified is asked of the address of the placeholder hint built for a hint-less IA_PD (never assigned: a nil address, for which it answers false): the hint-less request is classified as naming an address and the client's recorded leases are never handed back", c.P.InstrPos(in)))
					}
				}
			}
			// EMPTY-HINT: comparing an address that is still the zero value of a placeholder
			// literal with a non-empty constant is constantly false
			if f := call.Call.StaticCallee(); f != nil && f.String() == "(net.IP).Equal" && len(call.Call.Args) == 2 {
				counts["equal"]++
				y := ex.Canon(st, call.Call.Args[1]).S
				x := ex.Canon(st, call.Call.Args[0]).S
				xs := ex.CanonSingleton(st, call.Call.Args[0]).S
				guarded := false
				for _, k := range sortedKeys(st.hist) {
					f := st.hist[k]
					if f.Kind == "eq" && f.X == "len("+x+")" && f.Eq == "" {
						for _, ne := range f.Ne {
							if ne == "0" {
								guarded = true // the path tested len(x) != 0 first
							}
						}
					}
					if f.Kind == "nil" && f.X == x && !f.Val {
						guarded = true
					}
				}
				if g := globalByName(c.P, y); g != nil && staticLenOfGlobal(c.P, g) > 0 && strings.HasPrefix(xs, "new@") && !guarded {
					if v, ok := st.ReadLocal(xs); ok && strings.HasPrefix(v, "zero:") {
						addb("KEEP.EMPTY-HINT", fmt.Sprintf("at %s the address of the placeholder hint built for a hint-less IA_PD (never assigned: a nil address) is compared with %s (%d bytes): the comparison is constantly false, so a hint-less request is classified as naming an address and the client's recorded leases are never handed back (each repeat allocates a new block)", c.P.InstrPos(in), shortName(y), staticLenOfGlobal(c.P, g)))
					}
				}
			}
		}
		if call := isAddPrefix(in); call != nil {
			counts["addPrefix"]++
			// target is this iteration's response IA_PD
			tgt := ex.Resolve(st, call.Call.Args[0])
			if al, ok := tgt.(*ssa.Alloc); !ok || namedOf(al.Type()) != pkgDHCP6+".OptIAPD" {
				addb("PD.PROVENANCE", "addPrefix does not add to the response IA_PD built for this request IA_PD")
			}
			a := ex.Canon(st, call.Call.Args[1]).S
			known := regexp.MustCompile(`^` + knownRe + `\[(.*)\]$`).FindStringSubmatch(a)
			isNew := false
			if al, ok := ex.Resolve(st, call.Call.Args[1]).(*ssa.UnOp); ok {
				_ = al
			}
			if m := regexp.MustCompile(`^new@((?:[\w$]+·)?t\d+)$`).FindStringSubmatch(a); m != nil {
				p, _ := st.ReadLocal("new@" + m[1] + ".Prefix")
				if regexp.MustCompile(`^` + allocRe + `#0$`).MatchString(p) {
					isNew = true
					if v, _ := histFact(st, "nil", regexp.MustCompile(`^`+allocRe+`#1$`)); v != 1 {
						addb("PD.PROVENANCE", "a prefix is delegated although the allocation's error was not found nil")
					}
					e, _ := st.ReadLocal("new@" + m[1] + ".Expire")
					checkExpire(c, addb, e)
					st.seen["newlease"] = true
				}
			}
			switch {
			case known != nil:
				counts["reuse"]++
				j := known[1]
				// MARK: the hint and the lease are marked as used
				okS, okG := false, false
				for l := range st.seen {
					if strings.HasPrefix(l, "set:satisfied:") {
						okS = true
					}
					if l == "set:givenOut:conv<uint>("+j+")" {
						okG = true
					}
				}
				st.seen["handed:conv<uint>("+j+")"] = true
				if !okS || !okG {
					addb("KEEP.MARK", fmt.Sprintf("a known lease is handed back at %s without marking the hint satisfied and the lease given out (satisfied=%v givenOut[%s]=%v): the same lease can answer two hints or a new block is allocated as well", c.P.InstrPos(in), okS, shortName(j), okG))
				}
				// FRESH: the element was (conditionally) extended before being copied into the reply
				elem := known[0][:len(known[0])]
				if v, _ := histFact(st, "bool", regexp.MustCompile(`^\(time\.Time\)\.Before\(`+reQ(elem)+`\.Expire,`)); v == -1 {
					addb("PD.FRESH", fmt.Sprintf("a known lease is handed back at %s without its expiry having been compared with now + lease time (decided: %s)", c.P.InstrPos(in), strings.Join(shortAll(st.HistStrings()), " ∧ ")))
				} else if v == 1 && !st.seen["extend:"+elem] {
					addb("PD.FRESH", fmt.Sprintf("a known lease that expires too early is handed back at %s without being extended", c.P.InstrPos(in)))
				}
				// EXACT / EMPTY: why is this lease reused?
				same, _ := histFact(st, "bool", regexp.MustCompile(`^`+reQ(modPath)+`/plugins/prefix\.`+an("samePrefix")+`\(.*\.Prefix,&`+reQ(elem)+`\.Prefix\)$`))
				taken, _ := histFact(st, "bool", regexp.MustCompile(`^\(\*`+reQ(pkgBitset)+`\.BitSet\)\.Test\(.*,conv<uint>\(`+reQ(j)+`\)\)$`))
				if same != 1 && taken != 0 {
					addb("KEEP.EXACT", fmt.Sprintf("a known lease is reused at %s neither because it equals the hinted prefix nor as a not-yet-given lease for an empty hint", c.P.InstrPos(in)))
				}
			case isNew:
				counts["new"]++
			case strings.HasPrefix(a, "stale("):
				addb("PD.FRESH", fmt.Sprintf("the lease handed back at %s is a copy taken before its expiry was extended: the reply can carry a lifetime that is already over", c.P.InstrPos(in)))
			default:
				addb("PD.PROVENANCE", fmt.Sprintf("a prefix is delegated at %s that is neither one of this client's recorded leases nor a fresh allocation: %s", c.P.InstrPos(in), shortName(stripAt(a))))
			}
			return
		}
		switch x := in.(type) {
		case *ssa.Call:
			if x.Call.IsInvoke() && x.Call.Method.Name() == "Allocate" {
				counts["allocate"]++
				// REUSE-FIRST: only for hints no known lease satisfied: Test(satisfied, <index of the hint being allocated>) == false
				arg := ex.Canon(st, x.Call.Args[0]).S
				im := regexp.MustCompile(`\[(\(φ(?:[\w$]+·)?t\d+ \+ 1\)|φ(?:[\w$]+·)?t\d+)\]\.Prefix$`).FindStringSubmatch(arg)
				okT := false
				if im != nil {
					for _, k := range sortedKeys(st.hist) {
						f := st.hist[k]
						if f.Kind == "bool" && !f.Val && strings.HasPrefix(f.X, "(*"+pkgBitset+".BitSet).Test("+pkgBitset+".New@") &&
							!strings.Contains(f.X, "Records[") && strings.HasSuffix(f.X, ",conv<uint>("+im[1]+"))") {
							okT = true
						}
					}
				}
				if !okT {
					addb("KEEP.REUSE-FIRST", fmt.Sprintf("a new block is allocated at %s without the hint being allocated for having been found unsatisfied (satisfied.Test(index of this hint) == false on the per-hint bitmap)", c.P.InstrPos(in)))
				}
				if !st.Holds("$0.Mutex", 'W') {
					addb("PD.LOCK", "the allocator is called outside the plugin's critical section")
				}
			}
		case *ssa.Lookup:
			if ex.Canon(st, x.X).S == "$0.Records" {
				counts["lookup"]++
				if !regexp.MustCompile(`^` + keyC + `$`).MatchString(ex.Canon(st, x.Index).S) {
					addb("PD.OWN-KEY", "the client's record is looked up under a key other than recordKey(client id of the inner message): "+shortName(ex.Canon(st, x.Index).S))
				}
			}
		case *ssa.MapUpdate:
			if ex.Canon(st, x.Map).S == "$0.Records" {
				counts["store"]++
				if !regexp.MustCompile(`^` + keyC + `$`).MatchString(ex.Canon(st, x.Key).S) {
					addb("PD.OWN-KEY", "leases are recorded under a key other than recordKey(client id of the inner message): "+shortName(ex.Canon(st, x.Key).S))
				}
				checkAccumulator(c, addb, x.Value, x)
			}
		}
		if in == ssa.Instruction(addOpt) {
			counts["addopt"]++
			al, _ := unbox(addOpt.Call.Args[0]).(*ssa.Alloc)
			if al == nil {
				al, _ = unbox(ex.ResolveDeep(st, unbox(addOpt.Call.Args[0]))).(*ssa.Alloc)
			}
			if al == nil {
				addb("PD.ONE-PER-IAPD", "the option added is not the IA_PD literal built in this iteration")
				return
			}
			if !st.seen["iaid-ok"] {
				addb("PD.ONE-PER-IAPD", "the response IA_PD does not carry the IAID of the request IA_PD of this iteration")
			}
			if ex.Canon(st, addOpt.Call.Value).S != "$2" {
				addb("PD.ONE-PER-IAPD", "the IA_PD is not added to the response")
			}
			empty, _ := histEq(st, regexp.MustCompile(`^len\(new@`+reQ(anm(al))+`\.Options\.Options\)$`), "0")
			switch empty {
			case 1:
				if !st.seen["status:"+noPfx] {
					var ls []string
					for l := range st.seen {
						ls = append(ls, l)
					}
					addb("PD.NOPREFIX", fmt.Sprintf("an IA_PD without any prefix is returned without a NoPrefixAvail status (want status %s; path labels %v)", noPfx, ls))
				}
			case 0:
			default:
				addb("PD.NOPREFIX", "the IA_PD is added without testing whether it contains a prefix")
			}
			if st.Holds("$0.Mutex", 0) {
				// fine either way; the lock must simply not leak (LOCKPAIR)
			}
		}
	}
	// converse of MARK: a lease is marked as given out only where it is handed back - a bit set
	// elsewhere (copied from another IA_PD, from an earlier reply) hides the lease from the
	// hint-less hand-back, and a repeat of the message allocates a new block instead
	markedNotHanded := func(st *State) string {
		for _, l := range sortedKeys(st.seen) {
			if strings.HasPrefix(l, "set:givenOut:") && !st.seen["handed:"+strings.TrimPrefix(l, "set:givenOut:")] {
				return strings.TrimPrefix(l, "set:givenOut:")
			}
		}
		return ""
	}
	ex.Hooks.BackEdge = func(st *State, from, header *ssa.BasicBlock) {
		// (checked at every back edge: labels naming a loop variable do not outlive its loop)
		if x := markedNotHanded(st); x != "" {
			addb("KEEP.MARK", fmt.Sprintf("lease %s is marked as given out in an iteration that does not hand it back: a hint-less IA_PD no longer gets it, and a new block is allocated instead", shortName(x)))
		}
		if header.Index == outer {
			counts["iter"]++
			if !st.seen["addopt"] || st.seen["addopt+"] {
				addb("PD.ONE-PER-IAPD", "an iteration over the request's IA_PD options does not add exactly one response IA_PD")
			}
			if os.Getenv("CDLINT_DEBUG_KEEP") != "" {
				var ls []string
				for l := range st.seen {
					ls = append(ls, l)
				}
				sort.Strings(ls)
				fmt.Fprintf(os.Stderr, "KEEPDBG outer back edge seen=%v\n", ls)
			}
			if st.seen["newlease"] && !st.seen["recorded"] {
				addb("KEEP.RECORD-ALL", "a newly allocated lease is sent to the client in an iteration that does not record it")
			}
			for l := range st.seen {
				delete(st.seen, l)
			}
			return
		}
		// inner loops: marks belong to one (hint, lease) pair
		// EMPTY-REUSE: a lease found not yet given out in this exchange is passed over only
		// because the hint asks for a different length
		for _, k := range sortedKeys(st.hist) {
			f := st.hist[k]
			if f.Kind != "bool" || f.Val || !strings.HasPrefix(f.X, "(*"+pkgBitset+".BitSet).Test(") || !strings.Contains(f.X, "Records[") {
				continue
			}
			m := regexp.MustCompile(`,(conv<uint>\(.*\))\)$`).FindStringSubmatch(f.X)
			if m == nil || st.seen["set:givenOut:"+m[1]] {
				continue
			}
			counts["passed-over"]++
			mismatch := false
			for _, k2 := range sortedKeys(st.hist) {
				g := st.hist[k2]
				if os.Getenv("CDLINT_DEBUG_KEEP") != "" {
					fmt.Fprintf(os.Stderr, "KEEPDBG %s | %s\n", f.X, g.String())
				}
				if g.Kind == "eqv" && !g.Val && strings.Contains(g.X+g.Y, "(net.IPMask).Size(") && strings.Contains(g.X+g.Y, "Records[") {
					mismatch = true
				}
			}
			if !mismatch {
				addb("KEEP.EMPTY-REUSE", fmt.Sprintf("in the loop at %s a recorded lease that has not been given out in this exchange is passed over for a reason other than a requested length that differs from the lease's (decided on the path: %s): a hint-less repeat does not get the client's prefix back", loopPos(c, header.Parent(), header.Index), strings.Join(shortAll(st.HistStrings()), " ∧ ")))
			}
		}
		for l := range st.seen {
			if strings.HasPrefix(l, "set:") || strings.HasPrefix(l, "extend:") {
				delete(st.seen, l)
			}
		}
	}
	origLabel := ex.Hooks.Label
	ex.Hooks.Label = func(st *State, in ssa.Instruction) string {
		if mu, ok := in.(*ssa.MapUpdate); ok && ex.Canon(st, mu.Map).S == "$0.Records" {
			return "recorded"
		}
		return origLabel(st, in)
	}
	ex.Hooks.Exit = func(st *State, in ssa.Instruction) {
		ret, ok := in.(*ssa.Return)
		if !ok || len(ret.Results) != 2 {
			return
		}
		counts["exit"]++
		if st.Holds("$0.Mutex", 0) {
			addb("PD.LOCK", fmt.Sprintf("return at %s with the plugin mutex held", c.P.InstrPos(in)))
		}
		// leaving from inside an IA_PD iteration must stop the chain
		if info.LoopOf[outer][in.Block().Index] {
			if k, ok := ex.ResolveDeep(st, ret.Results[1]).(*ssa.Const); !ok || constStr(k) != "true" {
				addb("PD.ONE-PER-IAPD", fmt.Sprintf("return at %s from inside the IA_PD loop without stopping the chain: later IA_PDs stay unanswered", c.P.InstrPos(in)))
			}
		}
	}
	ex.Run()
	if ex.Exceeded {
		addb("PD.PROVENANCE", "state budget exceeded")
	}
	if counts["addPrefix"] == 0 || counts["reuse"] == 0 || counts["new"] == 0 || counts["allocate"] == 0 || counts["lookup"] == 0 || counts["store"] == 0 || counts["iter"] == 0 {
		addb("PD.PROVENANCE", fmt.Sprintf("handler shape not recognised: %v", counts))
	}
	// addPrefix body: lifetimes and deep copy
	{
		var pl, vl, pv string
		ex2 := NewExplorer(c.P, c.Pure, addP)
		ex2.Hooks.Instr = func(st *State, in ssa.Instruction) {
			if s, ok := in.(*ssa.Store); ok {
				if fa, ok := s.Addr.(*ssa.FieldAddr); ok && namedOf(fa.X.Type()) == pkgDHCP6+".OptIAPrefix" {
					switch fieldName(fa) {
					case "PreferredLifetime":
						pl = ex2.Canon(st, s.Val).S
					case "ValidLifetime":
						vl = ex2.Canon(st, s.Val).S
					case "Prefix":
						pv = ex2.Canon(st, s.Val).S
					}
				}
			}
		}
		ex2.Run()
		if pl == "" || pl != vl {
			addb("PD.LIFETIME", fmt.Sprintf("preferred and valid lifetime of a delegated prefix are not the same value (preferred=%s valid=%s): preferred ≤ valid is not guaranteed", shortName(stripAt(pl)), shortName(stripAt(vl))))
		}
		if !regexp.MustCompile(`^time\.Until(@(?:[\w$]+·)?t\d+)?\(.*\.Expire\)$`).MatchString(vl) {
			addb("PD.LIFETIME", "the lifetime is not the time remaining until the lease's expiry: "+shortName(stripAt(vl)))
		}
		if !strings.Contains(pv, "plugins/prefix."+anRaw("dup")) || !strings.Contains(pv, ".Prefix") {
			addb("PD.PROVENANCE", "the delegated prefix is not (a copy of) the lease's prefix: "+shortName(stripAt(pv)))
		}
	}
	// every store to a lease's Expire anywhere in the package is now + K, K ≤ 1h
	for _, f := range c.P.SrcFuncs() {
		if fnPkgPath(f) != modPath+"/plugins/prefix" {
			continue
		}
		exf := NewExplorer(c.P, c.Pure, f)
		for _, b := range f.Blocks {
			for _, in := range b.Instrs {
				if s, ok := in.(*ssa.Store); ok {
					if fa, ok := s.Addr.(*ssa.FieldAddr); ok && fieldName(fa) == "Expire" && namedOf(fa.X.Type()) == modPath+"/plugins/prefix.lease" {
						counts["expire-store"]++
						checkExpire(c, addb, exf.Canon(nil, s.Val).S)
					}
				}
			}
		}
	}
	emit := func(rule, okMsg string) {
		key := shortFn(fn) + " " + rule
		if len(bad[rule]) > 0 {
			c.R.bad(prefix+rule, key, c.P.Pos(fn.Pos()), shortFn(fn), strings.Join(bad[rule], "; "))
		} else {
			c.R.ok(prefix+rule, key, c.P.Pos(fn.Pos()), shortFn(fn), okMsg)
		}
	}
	if want["C08"] {
		emit("PD.PROVENANCE", fmt.Sprintf("every prefix added to a reply is one of this client's recorded leases or the success result of the allocator (%d abstract addPrefix states)", counts["addPrefix"]))
		emit("PD.OWN-KEY", "the record map is read and written only under recordKey(client id of the inner message)")
		emit("PD.ONE-PER-IAPD", fmt.Sprintf("every iteration over the request's IA_PDs adds exactly one response IA_PD with the request's IAID; early exits stop the chain (%d iteration states)", counts["iter"]))
		emit("PD.NOPREFIX", "an empty response IA_PD always carries NoPrefixAvail")
		emit("PD.LIFETIME", "preferred = valid = time until expiry; every expiry is now + a constant ≤ 1h")
		emit("PD.FRESH", "a known lease is handed back only after its expiry was compared with now + lease time and extended when too early, and the value sent is read after the extension")
		emit("PD.LOCK", "allocation and record access happen inside the plugin's critical section; no exit holds the mutex")
	}
	if want["C09"] {
		// the only code that changes a client's record is the accumulate-and-store of the request
		// handler examined above: nothing else writes the record map, and nothing deletes from it
		recT := recordsMapType(c)
		view := map[*ssa.Function]bool{}
		for _, f := range inlineFuncs(fn) {
			view[f] = true
		}
		nw := 0
		for _, g := range c.P.SrcFuncs() {
			if isFixture(g) || recT == nil {
				continue
			}
			eachOwnInstr(g, func(in ssa.Instruction) {
				switch x := in.(type) {
				case *ssa.MapUpdate:
					if types.Identical(x.Map.Type(), recT) {
						nw++
						if !view[g] && !view[closureRoot(g)] {
							addb("KEEP.WRITERS", fmt.Sprintf("%s writes a client's record at %s outside the request handler's accumulate-and-store", shortFn(g), c.P.InstrPos(in)))
						}
					}
				case *ssa.Call:
					if b, ok := x.Call.Value.(*ssa.Builtin); ok && (b.Name() == "delete" || b.Name() == "clear") && len(x.Call.Args) > 0 && types.Identical(x.Call.Args[0].Type(), recT) {
						nw++
						addb("KEEP.WRITERS", fmt.Sprintf("%s removes client records at %s: a client whose record is dropped is given a different prefix next time", shortFn(g), c.P.InstrPos(in)))
					}
				}
			})
		}
		emit("KEEP.WRITERS", fmt.Sprintf("%d write site(s) of the record map, all in the request handler's accumulate-and-store; no delete / clear", nw))
		emit("PD.OWN-KEY", "the record map is read and written only under recordKey(client id of the inner message): a client is found again whatever path its message took")
		emit("KEEP.RECORD-ALL", "the value recorded for the client accumulates every new lease of the exchange on top of the known ones")
		emit("KEEP.REUSE-FIRST", "new blocks are allocated only for hints that no known lease satisfied")
		emit("KEEP.MARK", "handing back a known lease marks both the hint and the lease")
		emit("KEEP.EXACT", "a known lease is reused only for an equal hinted prefix or as a not-yet-given lease for an empty hint")
		if counts["hintlist"] == 0 {
			addb("KEEP.NO-HINT", "no per-hint bitmap sized by the hint list found: shape not recognised")
		}
		emit("KEEP.NO-HINT", fmt.Sprintf("the hint list is the request's IAPrefix list when non-empty and the one-element placeholder exactly when it is empty (%d abstract states)", counts["hintlist"]))
		emit("KEEP.EMPTY-HINT", fmt.Sprintf("no comparison of a never-assigned placeholder address with a non-empty constant (%d abstract (net.IP).Equal states examined)", counts["equal"]))
		if counts["passed-over"] == 0 {
			addb("KEEP.EMPTY-REUSE", "no loop over the recorded leases tests the given-out bitmap: shape not recognised")
		}
		emit("KEEP.EMPTY-REUSE", fmt.Sprintf("a recorded lease not yet given out is passed over only when the hint's requested length differs from the lease's (%d abstract iteration states)", counts["passed-over"]))
	}
}

var leaseConst int64

func checkExpire(c *Ctx, addb func(rule, s string), e string) {
	m := regexp.MustCompile(`^\(time\.Time\)\.Add(@(?:[\w$]+·)?t\d+)?\(time\.Now(@(?:[\w$]+·)?t\d+)?\(\),(-?\d+)\)$`).FindStringSubmatch(e)
	if m == nil {
		addb("PD.LIFETIME", "a lease expiry is not now + a constant duration: "+shortName(stripAt(e)))
		return
	}
	k, _ := strconv.ParseInt(m[3], 10, 64)
	// one lease duration: two different constants mean one of them is in the wrong unit
	if leaseConst == 0 {
		leaseConst = k
	} else if leaseConst != k {
		addb("PD.LIFETIME", fmt.Sprintf("lease expiries are computed with different constants (%d ns and %d ns): one of them is not the lease duration", leaseConst, k))
	}
	if k <= 0 || k > 3600*1000000000 {
		addb("PD.LIFETIME", fmt.Sprintf("lease duration constant %d ns is not in (0, 1h]", k))
	}
}

// checkAccumulator: the value stored for the client is built by appends whose
// base is the running accumulator (a loop phi fed by the append itself) seeded
// with the known leases, so no lease of an earlier iteration is dropped.
func checkAccumulator(c *Ctx, addb func(rule, s string), v ssa.Value, at ssa.Instruction) {
	appends := 0
	for _, o := range valueOrigins(v) {
		call, ok := o.(*ssa.Call)
		if !ok {
			continue
		}
		b, ok := call.Call.Value.(*ssa.Builtin)
		if !ok || b.Name() != "append" {
			continue
		}
		appends++
		base := call.Call.Args[0]
		ph, ok := base.(*ssa.Phi)
		if !ok {
			addb("KEEP.RECORD-ALL", fmt.Sprintf("new leases are appended at %s to a value that is not the running accumulator (%s): leases allocated earlier in the same exchange are dropped from the record", c.P.InstrPos(call), shortName(base.String())))
			continue
		}
		// phi-closure of the accumulator: the values that can flow into it through merges
		var flows []ssa.Value
		seenPhi := map[*ssa.Phi]bool{}
		var walk func(p *ssa.Phi)
		var leaf func(e ssa.Value, depth int)
		leaf = func(e ssa.Value, depth int) {
			switch q := e.(type) {
			case *ssa.Phi:
				walk(q)
			case *ssa.Parameter:
				// the accumulator handed to a helper: what the call sites pass
				g := q.Parent()
				n := 0
				if depth < 3 && inlinedEverywhere(c, g) {
					for i, pp := range g.Params {
						if pp != q {
							continue
						}
						for _, site := range c.P.CallersOf(g) {
							if i < len(site.Common().Args) {
								n++
								leaf(site.Common().Args[i], depth+1)
							}
						}
					}
				}
				if n == 0 {
					flows = append(flows, e)
				}
			default:
				flows = append(flows, e)
			}
		}
		walk = func(p *ssa.Phi) {
			if seenPhi[p] {
				return
			}
			seenPhi[p] = true
			for _, e := range p.Edges {
				leaf(e, 0)
			}
		}
		walk(ph)
		self := false
		for _, e := range flows {
			if e == ssa.Value(call) {
				self = true
			}
		}
		if !self {
			addb("KEEP.RECORD-ALL", fmt.Sprintf("the append at %s does not feed the accumulator it extends", c.P.InstrPos(call)))
		}
		// the accumulator is seeded with the known leases
		seeded := false
		for _, e := range flows {
			if lk, ok := e.(*ssa.Lookup); ok {
				seeded = true
				// read-modify-write per iteration: the record must be re-read in every loop
				// iteration that writes it back, or the write of iteration k+1 is built from
				// the record as it was before the loop and overwrites what iteration k recorded
				if at != nil {
					info := InfoOf(at.Parent())
					for h, body := range info.LoopOf {
						if body[at.Block().Index] && !body[lk.Block().Index] {
							addb("KEEP.RECORD-ALL", fmt.Sprintf("the record written back at %s inside the loop at %s is built from a lookup made before that loop (%s): a later iteration overwrites the leases an earlier iteration recorded", c.P.InstrPos(at), loopPos(c, at.Parent(), h), c.P.InstrPos(lk)))
						}
					}
				}
			}
		}
		if !seeded {
			addb("KEEP.RECORD-ALL", fmt.Sprintf("the accumulator extended at %s is not seeded with the client's known leases: recording it forgets them", c.P.InstrPos(call)))
		}
	}
	if appends == 0 {
		addb("KEEP.RECORD-ALL", "the value recorded for the client is not built by appending the new leases")
	}
}

// ruleSamePrefix: samePrefix compares both the address and the mask.
func ruleSamePrefix(c *Ctx, rule string, fn *ssa.Function) {
	if fn == nil {
		c.R.Fatalf("ANCHOR-UNRESOLVED: prefix.samePrefix")
		return
	}
	exits, _ := ExitsOf(c, fn)
	bad := ""
	nT := 0
	for _, e := range exits {
		r := e.Canon[0]
		if r == "false" {
			continue
		}
		nT++
		ipEq, _ := histFact(e.St, "bool", regexp.MustCompile(`^\(net\.IP\)\.Equal\(\$0\.IP,\$1\.IP\)$|^\(net\.IP\)\.Equal\(\$1\.IP,\$0\.IP\)$`))
		maskEq := regexp.MustCompile(`^bytes\.Equal\(\$[01]\.Mask,\$[01]\.Mask\)$`).MatchString(r)
		mk, _ := histFact(e.St, "bool", regexp.MustCompile(`^bytes\.Equal\(\$[01]\.Mask,\$[01]\.Mask\)$`))
		if ipEq != 1 || !(maskEq || mk == 1) {
			bad = fmt.Sprintf("samePrefix can answer true at %s without both the address and the mask being equal (result %s)", c.P.InstrPos(e.Ret), shortName(r))
		}
		for i := 0; i < 2; i++ {
			if v, _ := histFact(e.St, "nil", regexp.MustCompile(`^\$`+strconv.Itoa(i)+`$`)); v != 0 {
				bad = "samePrefix compares without checking both prefixes for nil"
			}
		}
	}
	if bad != "" || nT == 0 {
		if bad == "" {
			bad = "no path of samePrefix can answer true"
		}
		c.R.bad(rule, "samePrefix", c.P.Pos(fn.Pos()), shortFn(fn), bad)
	} else {
		c.R.ok(rule, "samePrefix", c.P.Pos(fn.Pos()), shortFn(fn), "true only under IP.Equal ∧ bytes.Equal(Mask) with both arguments non-nil")
	}
}

// loopPos: a printable position for the loop with header block h (the first
// instruction of the loop that has one; rotated range loops have NoPos headers).
func loopPos(c *Ctx, fn *ssa.Function, h int) string {
	info := InfoOf(fn)
	best := ""
	for _, b := range fn.Blocks {
		if !info.LoopOf[h][b.Index] {
			continue
		}
		for _, in := range b.Instrs {
			if in.Pos().IsValid() {
				p := c.P.Pos(in.Pos())
				if best == "" || posLess(p, best) {
					best = p
				}
			}
		}
	}
	if best == "" {
		return "-"
	}
	return best
}

func posLess(a, b string) bool {
	pa, pb := strings.Split(a, ":"), strings.Split(b, ":")
	if len(pa) < 2 || len(pb) < 2 || pa[0] != pb[0] {
		return a < b
	}
	x, _ := strconv.Atoi(pa[1])
	y, _ := strconv.Atoi(pb[1])
	return x < y
}

// globalByName resolves a canonical global name ("net.IPv6zero") to the SSA global.
func globalByName(p *Program, name string) *ssa.Global {
	i := strings.LastIndex(name, ".")
	if i < 0 {
		return nil
	}
	return p.Global(name[:i], name[i+1:])
}

// staticLenOfGlobal: the length of a slice-typed package variable all of whose
// stores (its initialiser included) assign a slice of an array literal of one
// fixed length; 0 when unknown.
func staticLenOfGlobal(p *Program, g *ssa.Global) int64 {
	stores := findStores(p, nil, g)
	if len(stores) == 0 {
		return 0
	}
	var n int64 = -1
	for _, s := range stores {
		v := s.Val
		if ct, ok := v.(*ssa.ChangeType); ok {
			v = ct.X
		}
		sl, ok := v.(*ssa.Slice)
		if !ok || sl.Low != nil || sl.High != nil {
			return 0
		}
		pt, ok := sl.X.Type().Underlying().(*types.Pointer)
		if !ok {
			return 0
		}
		at, ok := pt.Elem().Underlying().(*types.Array)
		if !ok {
			return 0
		}
		if n >= 0 && n != at.Len() {
			return 0
		}
		n = at.Len()
	}
	if n < 0 {
		return 0
	}
	return n
}

// recordsMapType: the type of prefix.Handler.Records.
func recordsMapType(c *Ctx) types.Type {
	n := c.P.NamedType("plugins/prefix", "Handler")
	if n == nil {
		return nil
	}
	st, ok := n.Underlying().(*types.Struct)
	if !ok {
		return nil
	}
	for i := 0; i < st.NumFields(); i++ {
		if st.Field(i).Name() == "Records" {
			return st.Field(i).Type()
		}
	}
	return nil
}

// eachOwnInstr visits fn's own instructions (not its callees').
func eachOwnInstr(fn *ssa.Function, f func(ssa.Instruction)) {
	for _, b := range fn.Blocks {
		for _, in := range b.Instrs {
			f(in)
		}
	}
}

// closureRoot: the outermost named function a closure was written in.
func closureRoot(fn *ssa.Function) *ssa.Function {
	for fn.Parent() != nil {
		fn = fn.Parent()
	}
	return fn
}

// rulePoolIsParsedNetwork: every call of a bitmap allocator constructor in a
// plugin's setup passes the network net.ParseCIDR returned (its second
// result), unmodified: the allocator sizes its table from the mask alone and
// takes pool.IP for the first block, so a base that is not the network address
// makes the top indices map past the end of the pool.
func rulePoolIsParsedNetwork(c *Ctx, rule string) {
	ctor := c.P.Func("plugins/allocators/bitmap", "", "NewBitmapAllocator")
	if ctor == nil {
		c.R.Fatalf("ANCHOR-UNRESOLVED: bitmap.NewBitmapAllocator")
		return
	}
	n := 0
	for _, site := range c.P.CallersOf(ctor) {
		fn := site.Parent()
		if isFixture(fn) || site.Common().StaticCallee() != ctor {
			continue
		}
		n++
		key := fmt.Sprintf("%s pool argument#%d", shortFn(fn), n)
		arg := site.Common().Args[0]
		// net.IPNet passed by value: a load of the *net.IPNet ParseCIDR returned, or of a local copy of it
		var src ssa.Value
		if ld, ok := arg.(*ssa.UnOp); ok && ld.Op == token.MUL {
			src = ld.X
		}
		isParsed := func(v ssa.Value) bool {
			e, ok := v.(*ssa.Extract)
			if !ok || e.Index != 1 {
				return false
			}
			call, ok := e.Tuple.(*ssa.Call)
			return ok && call.Call.StaticCallee() != nil && call.Call.StaticCallee().String() == "net.ParseCIDR"
		}
		ok := false
		if src != nil {
			ok, _ = staticOrigins(c, fn, src, isParsed)
		}
		if !ok {
			c.R.bad(rule, key, c.P.InstrPos(site), shortFn(fn), "the pool handed to the allocator is not the network net.ParseCIDR returned: "+shortName(arg.String()))
			continue
		}
		// nothing in the function writes into that network's fields (IP, Mask) or their bytes
		bad := ""
		eachInstr(fn, func(in ssa.Instruction) {
			sto, isSto := in.(*ssa.Store)
			if !isSto || bad != "" {
				return
			}
			var base ssa.Value
			switch a := sto.Addr.(type) {
			case *ssa.FieldAddr:
				base = a.X
			case *ssa.IndexAddr:
				if ld, ok := a.X.(*ssa.UnOp); ok {
					if fa, ok := ld.X.(*ssa.FieldAddr); ok {
						base = fa.X
					}
				}
			}
			if base == nil || namedOf(base.Type()) != "net.IPNet" {
				return
			}
			if o, _ := staticOrigins(c, fn, base, isParsed); o {
				bad = fmt.Sprintf("the parsed network is modified at %s before it is handed to the allocator: its base is no longer the network address the table is sized for", c.P.InstrPos(in))
			}
		})
		if bad != "" {
			c.R.bad(rule, key, c.P.InstrPos(site), shortFn(fn), bad)
		} else {
			c.R.ok(rule, key, c.P.InstrPos(site), shortFn(fn), "the pool is net.ParseCIDR's network, unmodified")
		}
		// the allocation size is a prefix length: 0 <= size <= 128 is established before the call
		// (the constructor only relates it to the pool's length; a size above 128 yields empty masks)
		ss := statesAt(c, fn, func(in ssa.Instruction) bool { return in == ssa.Instruction(site) }, nil)
		sizeBad := ""
		nst := 0
		for _, st := range ss.Sites[site.(ssa.Instruction)] {
			nst++
			sz := ss.Ex.Canon(st, site.Common().Args[1]).S
			upper, lower := false, false
			if k, err := strconv.ParseInt(sz, 10, 64); err == nil {
				upper, lower = k <= 128, k >= 0
			}
			for _, f := range st.live {
				if f.Kind != "lt" || f.X != sz {
					continue
				}
				if k, err := strconv.ParseInt(f.Y, 10, 64); err == nil {
					if f.Val && k <= 129 {
						upper = true
					}
					if !f.Val && k >= 0 {
						lower = true
					}
				}
			}
			if t, ok := site.Common().Args[1].Type().Underlying().(*types.Basic); ok && t.Info()&types.IsUnsigned != 0 {
				lower = true
			}
			if !upper || !lower {
				sizeBad = fmt.Sprintf("the allocation size %s reaches the allocator without 0 <= size <= 128 having been established (upper=%v lower=%v): sizes above 128 are delegated with an empty mask", shortName(sz), upper, lower)
			}
		}
		skey := fmt.Sprintf("%s allocation size#%d", shortFn(fn), n)
		if sizeBad != "" {
			c.R.bad(rule, skey, c.P.InstrPos(site), shortFn(fn), sizeBad)
		} else if nst > 0 {
			c.R.ok(rule, skey, c.P.InstrPos(site), shortFn(fn), "0 <= size <= 128 on every abstract path to the constructor")
		}
	}
	if n == 0 {
		c.R.bad(rule, "NewBitmapAllocator callers", "-", "-", "no caller of the prefix allocator's constructor found")
	}
}

// rulePrefixHelpers: the two helpers the handler's bookkeeping rests on.
// recordKey is the client identifier's wire bytes as a string (injective: a
// textual rendering can give two identifiers one key); addPrefix appends the
// prefix to the IA_PD (Options.Add) - replacing (Update) leaves one prefix per
// IA_PD whatever the client holds.
func rulePrefixHelpers(c *Ctx, prefix string) {
	if rk := c.P.Anchor("recordKey"); rk != nil {
		c.R.Functions[shortFn(rk)] = true
		exits, _ := ExitsOf(c, rk)
		bad := ""
		for _, e := range exits {
			if len(e.Canon) != 1 {
				continue
			}
			s := stripAt(e.Canon[0])
			if !regexp.MustCompile(`^conv<string>\(invoke:` + reQ(pkgDHCP6) + `\.DUID\.ToBytes\(\$0\)\)$`).MatchString(s) {
				bad = "the record key is " + shortName(s) + ", not the client identifier's wire bytes: two identifiers can share a key (and one client's leases answer the other)"
			}
		}
		key := shortFn(rk) + " is the identifier's wire form"
		if bad != "" {
			c.R.bad(prefix+"PD.OWN-KEY", key, c.P.Pos(rk.Pos()), shortFn(rk), bad)
		} else {
			c.R.ok(prefix+"PD.OWN-KEY", key, c.P.Pos(rk.Pos()), shortFn(rk), "string(duid.ToBytes()): injective")
		}
	}
	if ap := c.P.Anchor("addPrefix"); ap != nil {
		bad := ""
		n := 0
		eachInstr(ap, func(in ssa.Instruction) {
			call, ok := in.(*ssa.Call)
			if !ok {
				return
			}
			f := call.Call.StaticCallee()
			if f == nil || fnPkgPath(f) != pkgDHCP6 || f.Signature.Recv() == nil {
				return
			}
			switch f.Name() {
			case "Add":
				n++
			case "Update", "Del":
				bad = fmt.Sprintf("addPrefix calls %s at %s: the prefix replaces (or removes) what the IA_PD already carries instead of being added to it", shortFn(f), c.P.InstrPos(in))
			}
		})
		key := shortFn(ap) + " appends"
		if bad == "" && n == 0 {
			bad = "addPrefix does not add an option to the IA_PD"
		}
		if bad != "" {
			c.R.bad(prefix+"PD.PROVENANCE", key, c.P.Pos(ap.Pos()), shortFn(ap), bad)
		} else {
			c.R.ok(prefix+"PD.PROVENANCE", key, c.P.Pos(ap.Pos()), shortFn(ap), "the prefix is appended to the IA_PD's options")
		}
	}
}
