package main

import (
	"flag"
	"fmt"
	"os"
	"path/filepath"
	"runtime/debug"
	"sort"
	"strconv"
	"strings"
	"time"

	"golang.org/x/tools/go/ssa"
)

// Ctx is what a property checker receives.
type Ctx struct {
	P    *Program
	Pure *Purity
	R    *Report
	Tier string
	// Alt is the GOARCH=386 program in thorough tier (nil otherwise)
	Alt *Program
}

type propDef struct {
	ID      string
	Run     func(c *Ctx)
	Explain string
	Trusted []string
	Assume  []string
}

var props = map[string]*propDef{}

func register(p *propDef) { props[p.ID] = p }

func main() {
	prop := flag.String("prop", "", "property id (C01..C20)")
	tier := flag.String("tier", os.Getenv("VERIF_TIER"), "quick|thorough")
	repo := flag.String("repo", "/repo", "repository root")
	evidence := flag.String("evidence", "", "evidence file to write")
	only := flag.String("only", "", "only report obligations whose 'rule key' contains this")
	dump := flag.String("dump", "", "debug: dump exploration of function (substring of full name)")
	knownPath := flag.String("known", "", "known findings file (default: <verif>/known_findings.json)")
	whyImpure := flag.String("whyimpure", "", "debug: explain why a function (substring) is impure")
	overlayDir := flag.String("overlay", "", "debug/selftest: directory whose files replace same-relative-path files of the repo")
	flag.Parse()
	if *tier == "" {
		*tier = "quick"
	}
	seed := 0
	if s := os.Getenv("VERIF_SEED"); s != "" {
		seed, _ = strconv.Atoi(s)
	}
	start := time.Now()
	exe, _ := os.Executable()
	verifDir := filepath.Dir(filepath.Dir(exe))
	if *knownPath == "" {
		*knownPath = filepath.Join(verifDir, "known_findings.json")
	}

	overlay := map[string][]byte{}
	if *overlayDir != "" {
		filepath.Walk(*overlayDir, func(path string, info os.FileInfo, err error) error {
			if err != nil || info.IsDir() {
				return nil
			}
			rel, _ := filepath.Rel(*overlayDir, path)
			b, _ := os.ReadFile(path)
			overlay[filepath.Join(*repo, rel)] = b
			return nil
		})
	}
	addFixtures(*repo, overlay)

	if *whyImpure != "" {
		p, err := LoadProgram(*repo, nil, overlay)
		if err != nil {
			fmt.Println("load error:", err)
			os.Exit(2)
		}
		pu := ComputePurity(p)
		for fn := range p.AllFunctions() {
			if strings.Contains(fn.String(), *whyImpure) {
				fmt.Println(fn.String(), "=>", pu.WhyImpure(fn))
			}
		}
		return
	}
	if *dump != "" {
		p, err := LoadProgram(*repo, nil, overlay)
		if err != nil {
			fmt.Println("load error:", err)
			os.Exit(2)
		}
		debugDump(p, *dump)
		return
	}

	pd, ok := props[*prop]
	if !ok {
		ids := []string{}
		for id := range props {
			ids = append(ids, id)
		}
		sort.Strings(ids)
		fmt.Fprintf(os.Stderr, "unknown property %q; have %v\n", *prop, ids)
		os.Exit(2)
	}
	rep := NewReport(pd.ID)
	ri := runInfo{Tier: *tier, Seed: seed, Evidence: *evidence, ReplayDir: filepath.Join(verifDir, "evidence", "replay"),
		Explain: pd.Explain, Trusted: pd.Trusted, Assume: pd.Assume, Only: *only,
		CheckerCmd: "bin/cdlint " + strings.Join(os.Args[1:], " "), Extra: map[string]interface{}{}}
	known, err := loadKnown(*knownPath)
	if err != nil {
		rep.Fatalf("cannot read known findings %s: %v", *knownPath, err)
	}

	func() {
		defer func() {
			if r := recover(); r != nil {
				if os.Getenv("CDLINT_DEBUG_PANIC") != "" {
					fmt.Fprintf(os.Stderr, "%s\n", debug.Stack())
				}
				rep.Fatalf("checker panic: %v", r)
				if os.Getenv("CDLINT_DEBUG") != "" {
					panic(r)
				}
			}
		}()
		p, err := LoadProgram(*repo, nil, overlay)
		if err != nil {
			rep.Fatalf("load failed: %v", err)
			return
		}
		curProg = p
		ri.Configs = append(ri.Configs, "linux/amd64 cgo")
		ri.Packages = len(p.AllPkgs)
		fmt.Printf("LOADED    repo=%s packages=%d first-party=%d functions=%d (%.1fs)\n", *repo, len(p.AllPkgs), len(p.Pkgs), len(p.AllFunctions()), time.Since(start).Seconds())
		c := &Ctx{P: p, Pure: ComputePurity(p), R: rep, Tier: *tier}
		pd.Run(c)
		runFixtureControls(c)
		if *tier == "thorough" {
			runThoroughExtras(c, pd, &ri, *repo, overlay)
		}
	}()
	ri.WallS = time.Since(start).Seconds()
	os.Exit(rep.Finish(known, ri))
}

// debugDump prints, for every exit of the function, the decisions on the path.
func debugDump(p *Program, sub string) {
	pu := ComputePurity(p)
	for _, fn := range p.SrcFuncs() {
		if !strings.Contains(fn.String(), sub) {
			continue
		}
		fmt.Println("==", fn.String())
		ex := NewExplorer(p, pu, fn)
		n := 0
		ex.Hooks.Exit = func(st *State, in ssa.Instruction) {
			n++
			fmt.Printf("exit#%d at %s block %d trail=%v\n", n, p.InstrPos(in), in.Block().Index, st.Trail())
			for _, h := range st.HistStrings() {
				fmt.Println("    ", h)
			}
		}
		ex.Run()
		fmt.Printf("nodes=%d exceeded=%v lockproblems=%d\n", ex.Nodes, ex.Exceeded, len(ex.LockProblems))
		for _, lp := range ex.LockProblems {
			fmt.Printf("  lock: %s %s at %s\n", lp.Kind, lp.Lock, p.InstrPos(lp.At))
		}
	}
}
