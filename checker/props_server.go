package main

import "golang.org/x/tools/go/ssa"

func init() {
	register(&propDef{
		ID:      "C11",
		Explain: "Decision-table comparison on HandleMsg4: every abstract state reaching a send site has parse ok ∧ opcode = BOOTREQUEST ∧ reply built ∧ type ∈ {DISCOVER, REQUEST} ∧ resp ≠ nil, and every abstract exit that sends nothing has one of these false (V4.FILTER); the extracted request-type→reply-type map equals {DISCOVER→OFFER, REQUEST→ACK} and nobody else retypes replies (V4.TYPEMAP); the stub is NewReplyFromRequest(parsed datagram) and the codec fact that it echoes xid/htype/chaddr/flags/giaddr/options 82,61 is re-derived (V4.STUB); no first-party code stores identity fields of a DHCPv4 packet (V4.IDENTITY-RO); the packet serialised is the dispatch loop's exit value (V4.SENT-IS-CHAIN-RESULT). Constants are taken from the codec by value.",
		Trusted: trustedBase,
		Assume:  []string{"the codec's encoding of the reply is not verified", "third-party plugins are outside the analysed program"},
		Run: func(c *Ctx) {
			ruleV4Filter(c, "C11.V4.FILTER")
			ruleRecvWhole(c, "C11.V4.RECV-WHOLE", "*listener4")
			ruleChainShared(c, "C11.CHAIN.SHARED") // the reply is what the configured plugins made of the stub: nothing else sits in the listener's chain
			ruleV4TypeMap(c, "C11.V4.TYPEMAP")
			ruleV4Stub(c, "C11.V4.STUB")
			ruleV4IdentityRO(c, "C11.V4.IDENTITY-RO")
			if h := analyseHandle4(c); h != nil {
				reportDispatch(c, "C11.V4.DISPATCH", h.di)
				ruleSentIsChainResult(c, "C11.V4.SENT-IS-CHAIN-RESULT", h.fn, h.di)
				rulePostChainRO(c, "C11.V4.POST-CHAIN-RO", h.fn, h.di)
			}
			c.R.Floor("C11.V4.POST-CHAIN-RO", 1)
			c.R.Floor("C11.V4.RECV-WHOLE", 1)
			c.R.Floor("C11.CHAIN.SHARED", 2)
			c.R.Floor("C11.V4.FILTER", 3)
			c.R.Floor("C11.V4.TYPEMAP", 5)
			c.R.Floor("C11.V4.STUB", 1)
			c.R.Floor("C11.V4.IDENTITY-RO", 3)
			c.R.Floor("C11.V4.SENT-IS-CHAIN-RESULT", 2)
		},
	})
	register(&propDef{
		ID:      "C12",
		Explain: "Decision-table comparison on HandleMsg6: the (inner message type, rapid commit) → reply constructor map extracted from all abstract states equals the frozen RFC table (SOLICIT→ADVERTISE, SOLICIT+RapidCommit→REPLY, REQUEST/CONFIRM/RENEW/REBIND/RELEASE/INFORMATION-REQUEST→REPLY, everything else no constructor), constructors are applied to the decapsulated message (V6.TYPEMAP); a send is reached only with parse ok ∧ inner ok ∧ supported type ∧ reply built ∧ resp ≠ nil and every silent exit has one of them false (V6.FILTER); relayed ⇒ NewRelayReplFromRelayForw(received relay, chain result), direct ⇒ chain result unchanged (V6.RELAY); destination is the peer parameter (V6.DEST); the control message pins the bound, else the receiving interface exactly for link-local peers (V6.PIN).",
		Trusted: trustedBase,
		Assume:  []string{"per-layer mirroring of link/peer address and Interface-ID is NewRelayReplFromRelayForw's job (codec, trusted)", "transaction id / client id echo is NewReplyFromMessage's / NewAdvertiseFromSolicit's job (codec, trusted)"},
		Run: func(c *Ctx) {
			ruleV6(c, "C12.")
			ruleRecvWhole(c, "C12.V6.RECV-WHOLE", "*listener6")
			ruleAddrListener(c, "C12.V6.LISTENER") // the pinning decision reads l.Interface: it is the zone's interface, or per-packet information is enabled
			ruleChainShared(c, "C12.CHAIN.SHARED") // the reply is what the configured plugins made of the stub: nothing else sits in the listener's chain
			if h := analyseHandle6(c); h != nil {
				reportDispatch(c, "C12.V6.DISPATCH", h.di)
				ruleSentIsChainResult(c, "C12.V6.SENT-IS-CHAIN-RESULT", h.fn, h.di)
				rulePostChainRO(c, "C12.V6.POST-CHAIN-RO", h.fn, h.di)
			}
			c.R.Floor("C12.V6.POST-CHAIN-RO", 1)
			c.R.Floor("C12.V6.LISTENER", 2)
			c.R.Floor("C12.V6.RECV-WHOLE", 1)
			c.R.Floor("C12.CHAIN.SHARED", 2)
			c.R.Floor("C12.V6.TYPEMAP", 11)
			c.R.Floor("C12.V6.FILTER", 2)
			c.R.Floor("C12.V6.RELAY", 1)
			c.R.Floor("C12.V6.DEST", 1)
			c.R.Floor("C12.V6.PIN", 1)
		},
	})
	register(&propDef{
		ID:      "C13",
		Explain: "Structural rules for the plugin chain: LoadPlugins' two loops range over conf.ServerK.Plugins under ServerK != nil, abort on registry miss / setup error / nil handler, skip nil SetupK, and append exactly one setup result per item in order (CHAIN.LOAD, checked per loop iteration on all abstract paths); config.parsePlugins appends one PluginConfig per list item (CHAIN.PARSE-ORDER); HandleMsg4/6 have one range loop over l.handlers calling h(request, running response) once, leaving on stop or exhaustion only, and what is sent is the loop's exit value guarded by resp != nil (CHAIN.DISPATCH / SENT); Start gives every listener the LoadPlugins result of its protocol (CHAIN.SHARED); every built-in handler returns nil only together with stop (CHAIN.RETNIL on every abstract return path).",
		Trusted: trustedBase,
		Assume:  []string{"the registry maps each name to the intended plugin (RegisterPlugin's map contents are run-time data)"},
		Run: func(c *Ctx) {
			ro := FindRoots(c.P, c.R)
			ruleChainLoad(c, "C13.CHAIN.LOAD")
			ruleParseOrder(c, "C13.CHAIN.PARSE-ORDER")
			for _, f := range []*ssa.Function{ro.Handle4, ro.Handle6} {
				if f == nil {
					continue
				}
				di := findDispatch(c, f, "handlers")
				reportDispatch(c, "C13.CHAIN.DISPATCH", di)
				ruleSentIsChainResult(c, "C13.CHAIN.SENT", f, di)
				ruleSendNonNil(c, "C13.CHAIN.SENT", f)
			}
			ruleChainShared(c, "C13.CHAIN.SHARED")
			ruleRetNil(c, "C13.CHAIN.RETNIL", ro)
			// "a nil response means nothing is sent": no handler may return a nil pointer boxed in the
			// DHCPv6 interface (the dispatcher's resp == nil test does not see it)
			runSafety(c, "C13.RET.", ro.AllHandlers(), nil, "NILSRC")
			// "a plugin without a setup for the protocol is skipped": the loader and whatever wraps the
			// registered setups never call an absent (nil) setup function
			if lp := c.P.Func("plugins", "", "LoadPlugins"); lp != nil {
				pred, reach := ReachFirstParty(c.P, []*ssa.Function{lp})
				var fns []*ssa.Function
				for _, f := range reach {
					if closureRoot(f).Pkg == lp.Pkg {
						fns = append(fns, f)
					}
				}
				runSafety(c, "C13.LOAD.", fns, pred, "NILPATH", "NILSRC", "FUNCNIL")
			}
			c.R.Floor("C13.LOAD.NILSRC", 2)
			c.R.Floor("C13.CHAIN.LOAD", 2)
			c.R.Floor("C13.CHAIN.PARSE-ORDER", 1)
			c.R.Floor("C13.CHAIN.DISPATCH", 2)
			c.R.Floor("C13.CHAIN.SENT", 6)
			c.R.Floor("C13.CHAIN.SHARED", 2)
			c.R.Floor("C13.CHAIN.RETNIL", 30)
			c.R.Note("handlers analysed: %d v4 + %d v6", len(ro.Handlers4), len(ro.Handlers6))
		},
	})
	register(&propDef{
		ID:      "C14",
		Explain: "Decision-table comparison on the serverid handlers: every abstract exit of Handler6 is classified drop/accept and compared (three-valued) with the RFC 8415 §16 matrix over {inner error, Server-ID present, message type family, DUID equality}; accepts must apply WithServerID(v6ServerID) — re-derived to be an Update — to resp (SID.V6-MATRIX). Handler4's accept exits must establish siaddr ∈ {unset, 0, own} AND option 54 ∈ {absent, own}; drops must name another server (SID.V4-DROP); accepts set siaddr to a copy of v4ServerID and UpdateOption(54) (SID.V4-STAMP); identifiers are initialised on every successful setup path and v4ServerID is stored as To4() (SID.INIT).",
		Trusted: trustedBase,
		Assume:  []string{"DUID.Equal semantics (codec)"},
		Run: func(c *Ctx) {
			ro := FindRoots(c.P, c.R)
			ruleServerID(c, "C14.")
			ruleSIDInit(c, "C14.SID.INIT", ro)
			ruleSIDOwner(c, "C14.SID.OWNER")
			ruleSIDDuidAddr(c, "C14.SID.INIT")
			c.R.Floor("C14.SID.INIT", 5)
			c.R.Floor("C14.SID.OWNER", 2)
			c.R.Floor("C14.SID.V6-MATRIX", 2)
			c.R.Floor("C14.SID.V4-DROP", 1)
			c.R.Floor("C14.SID.V4-STAMP", 1)
			c.R.Floor("C14.SID.INIT", 3)
		},
	})
	register(&propDef{
		ID:      "C17",
		Explain: "Per option plugin, every emission site (Options.Update / UpdateOption / AddOption on resp) is an obligation: the option code is derived from the codec constructor / literal / plugin global and must be the code of the plugin's row in the frozen table (OPT.CODE-AGREE); the entitlement gate of the row must be true (three-valued, over the branch facts decided on the path) in every abstract state reaching the emission (OPT.GATE), and at every abstract exit an entitled client has received the option, with the specified stop flag and returned response (OPT.RETURNS); emissions are idempotent Updates or execute at most once per invocation (OPT.ONCE); the emitted value's canonical rendering mentions the plugin's configuration global (OPT.VALUE). The codec fact 'IsOptionRequested is true for an absent list' is re-derived; the ipv6only row therefore demands evidence that the list is present.",
		Trusted: trustedBase,
		Assume:  []string{"wire encoding of options (codec)", "value equality with the arguments beyond provenance is not decided"},
		Run: func(c *Ctx) {
			rulePoolRetain(c, "C17.POOL.NO-RETAIN") // an emitted option must not share storage that is recycled
			runSetupFamily(c, "C17.SETUP.FAMILY")   // "in correct wire encoding": an accepted address is of the family its encoder slices
			ruleArgsImmutable(c, "C17.CFG.ARGS-RO")
			ruleParseOrder(c, "C17.CHAIN.PARSE-ORDER") // ... split into arguments exactly as written (strings.Fields of the item's value)
			ruleChainLoad(c, "C17.CHAIN.LOAD")         // the configured values reach the plugin: every setup is called with its own item's arguments
			ruleOptions(c, "C17.")
			c.R.Floor("C17.SETUP.FAMILY", 8)
			c.R.Floor("C17.CFG.ARGS-RO", 1)
			c.R.Floor("C17.CHAIN.PARSE-ORDER", 1)
			c.R.Floor("C17.OPT.EMPTY-LIST", 4)
			c.R.Floor("C17.POOL.NO-RETAIN", 2)
			c.R.Floor("C17.CHAIN.LOAD", 2)
			c.R.Floor("C17.OPT.GATE", 15)
			c.R.Floor("C17.OPT.CODE-AGREE", 15)
			c.R.Floor("C17.OPT.ONCE", 15)
			c.R.Floor("C17.OPT.VALUE", 15)
			c.R.Floor("C17.OPT.RETURNS", 13)
		},
	})
	register(&propDef{
		ID:      "C15",
		Explain: "Decision-table comparison on the tail of HandleMsg4: in every abstract state reaching a send site the destination (address expression, port constant, link-level flag) equals the RFC 2131 §4.1 row selected by giaddr / NAK / ciaddr / broadcast flag, every row is realised (ADDR.CASCADE); the control message is the bound interface, else the receiving one, exactly for broadcast / link-local / L2 destinations and nil otherwise (ADDR.PIN); sendEthernet builds dst MAC = chaddr, dst IP = yiaddr, src IP = siaddr, UDP 67→68 on the looked-up interface (ADDR.L2); listenN either remembers its interface or enables per-packet interface information on every success path (ADDR.LISTENER); the control message is never dereferenced while nil (NILPATH on HandleMsg4).",
		Trusted: trustedBase,
		Assume:  []string{"kernel routing and gopacket serialisation are not verified"},
		Run: func(c *Ctx) {
			ruleAddrCascade(c, "C15.")
			ruleAddrL2(c, "C15.ADDR.L2")
			ruleAddrListener(c, "C15.ADDR.LISTENER")
			ruleV4IdentityRO(c, "C15.ADDR.INPUTS-RO") // giaddr, ciaddr and the flags the cascade reads are the request's own: nothing rewrites them before the cascade
			if h := analyseHandle4(c); h != nil {
				runSafety(c, "C15.", []*ssa.Function{h.fn}, nil, "NILPATH", "NILSRC")
			}
			c.R.Floor("C15.ADDR.INPUTS-RO", 3)
			c.R.Floor("C15.ADDR.CASCADE", 7)
			c.R.Floor("C15.ADDR.PIN", 2)
			c.R.Floor("C15.ADDR.L2", 7)
			c.R.Floor("C15.ADDR.LISTENER", 2)
		},
	})
}

// ruleSendNonNil: every send is reached only with a non-nil response.
func ruleSendNonNil(c *Ctx, rule string, fn *ssa.Function) {
	ss := statesAt(c, fn, func(in ssa.Instruction) bool { return isSendSite(in) != "" }, nil)
	n := 0
	for _, in := range sortedInstrs(ss.Sites) {
		n++
		key := shortFn(fn) + " send requires resp != nil #" + string(rune('0'+n))
		bad := false
		for _, st := range ss.Sites[in] {
			if sv := sentValue(in); sv == nil {
				bad = true
			} else if ns, _ := ss.Ex.NilState(st, sv); ns != 0 {
				bad = true
			}
		}
		if bad {
			c.R.bad(rule, key, c.P.InstrPos(in), shortFn(fn), "a send site is reachable with a response not shown non-nil")
		} else {
			c.R.ok(rule, key, c.P.InstrPos(in), shortFn(fn), "response is non-nil in every abstract state reaching the send")
		}
	}
}
