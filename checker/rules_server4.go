package main

import (
	"fmt"
	"go/token"
	"go/types"
	"regexp"
	"sort"
	"strings"

	"golang.org/x/tools/go/ssa"
)

const (
	pkgDHCP4 = "github.com/insomniacslk/dhcp/dhcpv4"
	pkgDHCP6 = "github.com/insomniacslk/dhcp/dhcpv6"
)

// dispatchInfo describes the handler dispatch loop of HandleMsg4/6.
type dispatchInfo struct {
	Fn       *ssa.Function
	Call     *ssa.Call // the dynamic handler call
	HdrPhi   *ssa.Phi  // running response at the loop header
	ExitPhi  *ssa.Phi  // response after the loop
	Stub     ssa.Value // initial response (edge from outside the loop)
	Req      ssa.Value // first argument of the handler call
	Problems []string
	Loops    int
}

// findDispatch locates `for _, h := range l.handlers { resp, stop = h(req, resp); if stop {break} }`
// in fn or in a helper explored inline from it. The structural checks are made
// in the function that holds the loop; Stub and Req may therefore be
// parameters of that helper (consumers relate them to fn with staticOrigins).
func findDispatch(c *Ctx, fn *ssa.Function, handlersField string) *dispatchInfo {
	di := &dispatchInfo{Fn: fn}
	var dyn []*ssa.Call
	eachInstr(fn, func(in ssa.Instruction) {
		if call, ok := in.(*ssa.Call); ok && !call.Call.IsInvoke() && call.Call.StaticCallee() == nil {
			if _, isB := call.Call.Value.(*ssa.Builtin); !isB {
				dyn = append(dyn, call)
			}
		}
	})
	if len(dyn) != 1 {
		di.Loops = len(InfoOf(fn).LoopOf)
		di.Problems = append(di.Problems, fmt.Sprintf("expected exactly one dynamic handler call, found %d", len(dyn)))
		return di
	}
	call := dyn[0]
	di.Call = call
	g := call.Parent() // the function holding the loop
	info := InfoOf(g)
	di.Loops = len(info.LoopOf)
	// callee value: element of l.handlers indexed by the loop index
	calleeOK := false
	if ld, ok := call.Call.Value.(*ssa.UnOp); ok {
		if ia, ok := ld.X.(*ssa.IndexAddr); ok && (isRangeIndex(ia.Index) || countedIndexPhi(ia.Index) != nil) {
			// the slice indexed is l.handlers (read once, possibly handed to the helper as an argument)
			okSlice, _ := staticOrigins(c, fn, ia.X, func(v ssa.Value) bool {
				sl, ok := v.(*ssa.UnOp)
				if !ok {
					return false
				}
				fa, ok := sl.X.(*ssa.FieldAddr)
				if !ok {
					return false
				}
				f := fieldOf(fa.X.Type(), fa.Field)
				p, isParam := fa.X.(*ssa.Parameter)
				return f != nil && f.Name() == handlersField && isParam && len(p.Parent().Params) > 0 && p == p.Parent().Params[0] &&
					p.Parent().Signature.Recv() != nil && fn.Signature.Recv() != nil && types.Identical(p.Type(), fn.Params[0].Type())
			})
			calleeOK = okSlice
		}
	}
	if !calleeOK {
		di.Problems = append(di.Problems, "handler call is not the element of l."+handlersField+" selected by the loop index")
	}
	// loop membership
	var hdr int = -1
	for h, body := range info.LoopOf {
		if body[call.Block().Index] {
			if hdr >= 0 {
				di.Problems = append(di.Problems, "handler call is inside nested loops")
			}
			hdr = h
		}
	}
	if hdr < 0 {
		di.Problems = append(di.Problems, "handler call is not inside a loop")
		return di
	}
	hb := g.Blocks[hdr]
	if !strings.HasPrefix(hb.Comment, "rangeindex.") && CountedLoopAt(g, hdr) == nil {
		di.Problems = append(di.Problems, "dispatch loop is neither a range loop nor a counted loop ("+hb.Comment+")")
	}
	if len(call.Call.Args) != 2 {
		di.Problems = append(di.Problems, "handler call does not have two arguments")
		return di
	}
	di.Req = call.Call.Args[0]
	// running response: header phi with edges {stub from outside, result #0 of this call}
	ph, ok := call.Call.Args[1].(*ssa.Phi)
	if !ok || ph.Block() != hb {
		di.Problems = append(di.Problems, "second handler argument is not the running response (a loop-header phi)")
		return di
	}
	di.HdrPhi = ph
	for i, e := range ph.Edges {
		pred := hb.Preds[i]
		if info.LoopOf[hdr][pred.Index] {
			for _, leaf := range phiLeaves(e, ph) {
				ex, ok := leaf.(*ssa.Extract)
				if !ok || ex.Tuple != call || ex.Index != 0 {
					di.Problems = append(di.Problems, "loop-carried response is not result #0 of the handler call")
				}
			}
		} else {
			di.Stub = e
		}
	}
	// the request argument must be loop-invariant
	if dv, ok := di.Req.(ssa.Instruction); ok && dv.Parent() == g && info.LoopOf[hdr][dv.Block().Index] {
		di.Problems = append(di.Problems, "request argument is recomputed inside the loop")
	}
	// the If after the call: stop => leave the loop; !stop => next iteration
	cb := call.Block()
	iff, ok := cb.Instrs[len(cb.Instrs)-1].(*ssa.If)
	if !ok {
		di.Problems = append(di.Problems, "no stop test after the handler call")
		return di
	}
	stop, ok := iff.Cond.(*ssa.Extract)
	if !ok || stop.Tuple != call || stop.Index != 1 {
		di.Problems = append(di.Problems, "loop exit test is not result #1 (stop) of the handler call")
	} else {
		if info.LoopOf[hdr][cb.Succs[0].Index] {
			di.Problems = append(di.Problems, "stop == true does not leave the dispatch loop")
		}
		// stop == false continues with the next handler: straight to the header, or through the
		// loop's increment block (counted loops) - a block inside the loop without calls
		nxt := cb.Succs[1]
		if nxt != hb {
			okNext := info.LoopOf[hdr][nxt.Index] && len(nxt.Succs) == 1 && nxt.Succs[0] == hb
			for _, in := range nxt.Instrs {
				if _, isCall := in.(ssa.CallInstruction); isCall {
					okNext = false
				}
			}
			if !okNext {
				di.Problems = append(di.Problems, "stop == false does not continue with the next handler")
			}
		}
	}
	// exits of the loop: only header (exhaustion) and the stop edge
	var exitBlk *ssa.BasicBlock
	for bi := range info.LoopOf[hdr] {
		for _, s := range g.Blocks[bi].Succs {
			if !info.LoopOf[hdr][s.Index] {
				if bi != hdr && bi != cb.Index {
					di.Problems = append(di.Problems, fmt.Sprintf("dispatch loop has an extra exit from block %d", bi))
				}
				if exitBlk != nil && exitBlk != s {
					di.Problems = append(di.Problems, "dispatch loop exits to two different blocks")
				}
				exitBlk = s
			}
		}
	}
	// any other instruction with effects in the loop body? calls other than the handler call
	for bi := range info.LoopOf[hdr] {
		for _, in := range g.Blocks[bi].Instrs {
			if cc, ok := in.(ssa.CallInstruction); ok && in != ssa.Instruction(call) {
				if _, isB := cc.Common().Value.(*ssa.Builtin); !isB {
					di.Problems = append(di.Problems, "dispatch loop body contains another call: "+in.String())
				}
			}
		}
	}
	if exitBlk != nil {
		for _, in := range exitBlk.Instrs {
			p, ok := in.(*ssa.Phi)
			if !ok {
				break
			}
			match := 0
			for _, e := range p.Edges {
				if e == ssa.Value(di.HdrPhi) {
					match++
				} else if ex, ok := e.(*ssa.Extract); ok && ex.Tuple == call && ex.Index == 0 {
					match++
				}
			}
			if match == len(p.Edges) && len(p.Edges) == 2 {
				di.ExitPhi = p
			}
		}
		if di.ExitPhi == nil {
			di.Problems = append(di.Problems, "no loop-exit value merging (running response, last handler result)")
		}
	}
	return di
}

func reportDispatch(c *Ctx, rule string, di *dispatchInfo) {
	key := shortFn(di.Fn) + " dispatch loop"
	pos := c.P.Pos(di.Fn.Pos())
	if di.Call != nil {
		pos = c.P.InstrPos(di.Call)
	}
	if len(di.Problems) > 0 {
		c.R.bad(rule, key, pos, shortFn(di.Fn), strings.Join(di.Problems, "; "))
		return
	}
	c.R.ok(rule, key, pos, shortFn(di.Fn), "one range loop over l.handlers; one call h(req, running response); leaves on stop or exhaustion only; exit value merges the running response and the last result")
}

// sentValue returns the response value serialised at a send site.
func sentValue(in ssa.Instruction) ssa.Value {
	call, ok := in.(*ssa.Call)
	if !ok {
		return nil
	}
	switch isSendSite(in) {
	case "sendEthernet":
		return call.Call.Args[1]
	case "WriteTo":
		// payload argument = X.ToBytes()
		for _, a := range call.Call.Args {
			if tb, ok := a.(*ssa.Call); ok {
				if tb.Call.IsInvoke() && tb.Call.Method.Name() == "ToBytes" {
					return tb.Call.Value
				}
				if f := tb.Call.StaticCallee(); f != nil && f.Name() == "ToBytes" && len(tb.Call.Args) > 0 {
					return tb.Call.Args[0]
				}
			}
		}
	}
	return nil
}

type h4 struct {
	fn       *ssa.Function
	ss       *siteStates
	di       *dispatchInfo
	reReq    string
	fromB    *ssa.Call
	newReply *ssa.Call
}

var h4cache *h4

func analyseHandle4(c *Ctx) *h4 {
	if h4cache != nil {
		return h4cache
	}
	fn := c.P.Func("server", "*listener4", "HandleMsg4")
	if fn == nil {
		c.R.Fatalf("ANCHOR-UNRESOLVED: HandleMsg4")
		return nil
	}
	h := &h4{fn: fn}
	eachInstr(fn, func(in ssa.Instruction) {
		if call, ok := in.(*ssa.Call); ok {
			if f := call.Call.StaticCallee(); f != nil {
				switch f.String() {
				case pkgDHCP4 + ".FromBytes":
					h.fromB = call
				case pkgDHCP4 + ".NewReplyFromRequest":
					h.newReply = call
				}
			}
		}
	})
	if h.fromB == nil || h.newReply == nil {
		c.R.Fatalf("ANCHOR-UNRESOLVED: HandleMsg4 does not call dhcpv4.FromBytes / NewReplyFromRequest")
		return nil
	}
	h.reReq = reQ(pkgDHCP4) + `\.FromBytes@(?:[\w$]+·)?t\d+\([^)]*\)#0`
	h.di = findDispatch(c, fn, "handlers")
	h.ss = statesAt(c, fn, func(in ssa.Instruction) bool {
		if isSendSite(in) != "" {
			return true
		}
		if call, ok := in.(*ssa.Call); ok {
			if f := call.Call.StaticCallee(); f != nil && f.String() == pkgDHCP4+".OptMessageType" {
				return true
			}
		}
		return false
	}, func(st *State, in ssa.Instruction) string {
		if isSendSite(in) != "" {
			return "send"
		}
		return ""
	})
	h4cache = h
	return h
}

// filter atoms of HandleMsg4 evaluated in a state
func (h *h4) filterAtoms(c *Ctx, st *State) (parseOK, op, replyOK, mt int) {
	boot := c.P.mustConst(c.R, pkgDHCP4, "OpcodeBootRequest")
	disc := c.P.mustConst(c.R, pkgDHCP4, "MessageTypeDiscover")
	reqm := c.P.mustConst(c.R, pkgDHCP4, "MessageTypeRequest")
	parseOK, _ = histFact(st, "nil", regexp.MustCompile(`^`+reQ(pkgDHCP4)+`\.FromBytes@(?:[\w$]+·)?t\d+\([^)]*\)#1$`))
	op, _ = histEq(st, regexp.MustCompile(`^`+h.reReq+`\.OpCode$`), boot)
	replyOK, _ = histFact(st, "nil", regexp.MustCompile(`^`+reQ(pkgDHCP4)+`\.NewReplyFromRequest@(?:[\w$]+·)?t\d+\(.*\)#1$`))
	mt = histEqIn(st, regexp.MustCompile(`^\(\*`+reQ(pkgDHCP4)+`\.DHCPv4\)\.MessageType(@(?:[\w$]+·)?t\d+)?\(`+h.reReq+`\)$`), []string{disc, reqm})
	return
}

func ruleV4Filter(c *Ctx, rule string) {
	h := analyseHandle4(c)
	if h == nil {
		return
	}
	c.R.Functions[shortFn(h.fn)] = true
	n := 0
	for _, in := range sortedInstrs(h.ss.Sites) {
		kind := isSendSite(in)
		if kind == "" {
			continue
		}
		n++
		key := fmt.Sprintf("%s send %s#%d ⇒ filter", shortFn(h.fn), kind, n)
		bad := ""
		var badSt *State
		for _, st := range h.ss.Sites[in] {
			p, o, r, m := h.filterAtoms(c, st)
			nn := -1
			if sv := sentValue(in); sv != nil {
				if ns, _ := h.ss.Ex.NilState(st, sv); ns == 0 {
					nn = 1
				} else if ns == 1 {
					nn = 0
				}
			}
			if and3(p, o, r, m, nn) != 1 {
				bad = fmt.Sprintf("send reachable with parse-ok=%d opcode=BootRequest:%d reply-built=%d type∈{Discover,Request}:%d resp≠nil:%d (1 true, 0 false, -1 not decided on the path)", p, o, r, m, nn)
				badSt = st
				break
			}
		}
		o := &Obl{Rule: rule, Key: key, Pos: c.P.InstrPos(in), Fn: shortFn(h.fn)}
		if bad != "" {
			o.Verdict, o.Detail = Violated, bad
			o.Facts = append(o.Facts, fmt.Sprintf("abstract path: %v", badSt.Trail()))
			for _, s := range badSt.HistStrings() {
				o.Facts = append(o.Facts, "decided: "+shortName(s))
			}
		} else {
			o.Verdict = Discharged
			o.Detail = fmt.Sprintf("all %d abstract states reaching the send have parse ok ∧ opcode = BootRequest ∧ reply built ∧ type ∈ {Discover, Request} ∧ resp ≠ nil", len(h.ss.Sites[in]))
		}
		c.R.Add(o)
	}
	// converse: an exit that did not send must be justified by a false filter atom
	badExit := ""
	var bst *State
	nex := 0
	for _, e := range h.ss.Exits {
		if e.St.seen["send"] {
			continue
		}
		nex++
		p, o, r, m := h.filterAtoms(c, e.St)
		nn := -1
		if h.di != nil && h.di.ExitPhi != nil {
			if ns, _ := h.ss.Ex.NilState(e.St, h.di.ExitPhi); ns == 0 {
				nn = 1
			} else if ns == 1 {
				nn = 0
			}
			if nn == -1 {
				nn = chainResultNonNil(c, h.fn, h.di, e.St)
			}
			if nn == -1 {
				nn = chainResultNilState(c, h.ss.Ex, h.fn, h.di, e.St)
			}
		}
		v := and3(p, o, r, m, nn)
		if v == 0 {
			continue
		}
		// permitted drop: the interface for the L2 reply cannot be resolved
		if pe, _ := histFact(e.St, "nil", regexp.MustCompile(`^net\.InterfaceByIndex@(?:[\w$]+·)?t\d+\(.*\)#1$`)); pe == 0 {
			continue
		}
		// permitted drop: neither a bound interface nor a receiving interface is known
		{
			L, _ := histEq(e.St, regexp.MustCompile(`^\$0\.Interface\.Index$`), "0")
			Onn, _ := histFact(e.St, "nil", regexp.MustCompile(`^\$2$`))
			Oidx, _ := histEq(e.St, regexp.MustCompile(`^\$2\.IfIndex$`), "0")
			if L == 1 && or3(Onn, Oidx) == 1 {
				continue
			}
		}
		badExit = fmt.Sprintf("return at %s without sending although the filter atoms do not justify a drop (parse-ok=%d opcode=%d reply-built=%d type=%d resp≠nil=%d)", c.P.InstrPos(e.In), p, o, r, m, nn)
		bst = e.St
		break
	}
	o := &Obl{Rule: rule, Key: shortFn(h.fn) + " no-send exits ⇒ ¬filter", Pos: c.P.Pos(h.fn.Pos()), Fn: shortFn(h.fn)}
	if badExit != "" {
		o.Verdict, o.Detail = Violated, badExit
		o.Facts = append(o.Facts, fmt.Sprintf("abstract path: %v", bst.Trail()))
		for _, s := range bst.HistStrings() {
			o.Facts = append(o.Facts, "decided: "+shortName(s))
		}
	} else {
		o.Verdict, o.Detail = Discharged, fmt.Sprintf("all %d abstract no-send exits have a false filter atom (or the L2 interface lookup failed)", nex)
	}
	c.R.Add(o)
}

func ruleV4TypeMap(c *Ctx, rule string) {
	h := analyseHandle4(c)
	if h == nil {
		return
	}
	disc := c.P.mustConst(c.R, pkgDHCP4, "MessageTypeDiscover")
	reqm := c.P.mustConst(c.R, pkgDHCP4, "MessageTypeRequest")
	offer := c.P.mustConst(c.R, pkgDHCP4, "MessageTypeOffer")
	ack := c.P.mustConst(c.R, pkgDHCP4, "MessageTypeAck")
	want := map[string]string{disc: offer, reqm: ack}
	got := map[string]map[string]bool{}
	mtRe := regexp.MustCompile(`^\(\*` + reQ(pkgDHCP4) + `\.DHCPv4\)\.MessageType(@(?:[\w$]+·)?t\d+)?\(` + h.reReq + `\)$`)
	for _, in := range sortedInstrs(h.ss.Sites) {
		call, ok := in.(*ssa.Call)
		if !ok || isSendSite(in) != "" {
			continue
		}
		arg, isC := call.Call.Args[0].(*ssa.Const)
		key := fmt.Sprintf("%s OptMessageType(%s)", shortFn(h.fn), call.Call.Args[0].String())
		if !isC {
			c.R.bad(rule, key, c.P.InstrPos(in), shortFn(h.fn), "reply type is not a constant")
			continue
		}
		// the option must be applied to the stub
		applied := false
		for _, r := range *call.Referrers() {
			if uc, ok := r.(*ssa.Call); ok {
				if f := uc.Call.StaticCallee(); f != nil && f.Name() == "UpdateOption" && len(uc.Call.Args) == 2 {
					if ex, ok := uc.Call.Args[0].(*ssa.Extract); ok && ex.Tuple == ssa.Value(h.newReply) && ex.Index == 0 {
						applied = true
					}
				}
			}
		}
		bad := ""
		for _, st := range h.ss.Sites[in] {
			eq, _, ok := histEqValue(st, mtRe)
			if !ok || eq == "" {
				bad = "reply type chosen on a path where the request's message type is not decided"
				break
			}
			if got[eq] == nil {
				got[eq] = map[string]bool{}
			}
			got[eq][constStr(arg)] = true
			if want[eq] != constStr(arg) {
				bad = fmt.Sprintf("request type %s is answered with reply type %s (want %s)", eq, constStr(arg), want[eq])
			}
		}
		if !applied {
			bad = "OptMessageType result is not applied to the reply stub with UpdateOption"
		}
		if bad != "" {
			c.R.bad(rule, key, c.P.InstrPos(in), shortFn(h.fn), bad)
		} else {
			c.R.ok(rule, key, c.P.InstrPos(in), shortFn(h.fn), "row of the frozen table {Discover→Offer, Request→Ack}")
		}
	}
	for k, v := range want {
		if !got[k][v] {
			c.R.bad(rule, fmt.Sprintf("%s row %s→%s realised", shortFn(h.fn), k, v), c.P.Pos(h.fn.Pos()), shortFn(h.fn), "table row not realised by any OptMessageType site")
		} else {
			c.R.ok(rule, fmt.Sprintf("%s row %s→%s realised", shortFn(h.fn), k, v), c.P.Pos(h.fn.Pos()), shortFn(h.fn), "realised")
		}
	}
	// no other first-party code retypes a reply
	others := 0
	partOf := map[*ssa.Function]bool{}
	for _, f := range inlineFuncs(h.fn) {
		partOf[f] = true // helpers extracted from HandleMsg4 are HandleMsg4
	}
	for _, fn := range c.P.SrcFuncs() {
		if partOf[fn] || isFixture(fn) {
			continue
		}
		for _, b := range fn.Blocks {
			for _, in := range b.Instrs {
				if call, ok := in.(*ssa.Call); ok {
					if f := call.Call.StaticCallee(); f != nil && (f.String() == pkgDHCP4+".OptMessageType" || f.String() == pkgDHCP4+".WithMessageType") {
						others++
						c.R.bad(rule, shortFn(fn)+" retypes reply", c.P.InstrPos(in), shortFn(fn), "first-party code outside HandleMsg4 sets the DHCPv4 message type of a reply")
					}
				}
			}
		}
	}
	if others == 0 {
		c.R.ok(rule, "no other OptMessageType call", "-", "-", "HandleMsg4 is the only first-party caller of dhcpv4.OptMessageType/WithMessageType")
	}
}

func ruleV4Stub(c *Ctx, rule string) {
	h := analyseHandle4(c)
	if h == nil {
		return
	}
	key := shortFn(h.fn) + " stub"
	pos := c.P.InstrPos(h.newReply)
	var probs []string
	// NewReplyFromRequest(req) with req = FromBytes #0
	// (a nil constant among the origins is a helper's failure return: whether nil can reach the chain
	// is decided path-sensitively by C01.STUBNONNIL)
	isResult := func(call *ssa.Call) func(v ssa.Value) bool {
		return func(v ssa.Value) bool {
			if isNilConst(v) {
				return true
			}
			ex, ok := v.(*ssa.Extract)
			return ok && ex.Tuple == ssa.Value(call) && ex.Index == 0
		}
	}
	if ok, _ := staticOrigins(c, h.fn, h.newReply.Call.Args[0], isResult(h.fromB)); !ok {
		probs = append(probs, "NewReplyFromRequest is not applied to the parsed datagram")
	}
	// FromBytes(buf) with buf = parameter
	if h.di == nil || len(h.di.Problems) > 0 || h.di.Stub == nil {
		probs = append(probs, "dispatch loop not recognised")
	} else {
		if ok, why := staticOrigins(c, h.fn, h.di.Stub, isResult(h.newReply)); !ok {
			probs = append(probs, "the response handed to the first handler is not result #0 of NewReplyFromRequest: "+why)
		}
		if ok, why := staticOrigins(c, h.fn, h.di.Req, isResult(h.fromB)); !ok {
			probs = append(probs, "the request handed to handlers is not the parsed datagram: "+why)
		}
	}
	// library fact: NewReplyFromRequest echoes xid, htype, chaddr, flags, giaddr, option 82/61 and sets BOOTREPLY
	fact, ok := factNewReplyEchoes(c)
	if !ok {
		probs = append(probs, "library fact not re-derived: "+fact)
	}
	if len(probs) > 0 {
		c.R.bad(rule, key, pos, shortFn(h.fn), strings.Join(probs, "; "))
	} else {
		c.R.ok(rule, key, pos, shortFn(h.fn), "stub = NewReplyFromRequest(FromBytes(buf)); "+fact)
	}
}

// factNewReplyEchoes re-derives from the codec's SSA that NewReplyFromRequest
// applies WithReply(request) and copies giaddr and the relay-agent /
// client-identifier options.
func factNewReplyEchoes(c *Ctx) (string, bool) {
	fn := c.P.Func(pkgDHCP4, "", "NewReplyFromRequest")
	if fn == nil {
		return "dhcpv4.NewReplyFromRequest not found", false
	}
	need := map[string]bool{"WithReply": false, "WithGatewayIP": false, "WithOptionCopied": false}
	for _, b := range fn.Blocks {
		for _, in := range b.Instrs {
			if call, ok := in.(*ssa.Call); ok {
				if f := call.Call.StaticCallee(); f != nil {
					if _, ok := need[f.Name()]; ok {
						need[f.Name()] = true
					}
				}
			}
		}
	}
	for k, v := range need {
		if !v {
			return "NewReplyFromRequest no longer calls " + k, false
		}
	}
	// WithReply copies TransactionID, HWType, ClientHWAddr, Flags and sets OpcodeBootReply
	wr := c.P.Func(pkgDHCP4, "", "WithReply")
	if wr == nil || len(wr.AnonFuncs) == 0 {
		return "dhcpv4.WithReply closure not found", false
	}
	fields := map[string]bool{}
	for _, b := range wr.AnonFuncs[0].Blocks {
		for _, in := range b.Instrs {
			if s, ok := in.(*ssa.Store); ok {
				if fa, ok := s.Addr.(*ssa.FieldAddr); ok {
					fields[fieldName(fa)] = true
				}
			}
		}
	}
	for _, f := range []string{"TransactionID", "ClientHWAddr", "HWType", "Flags"} {
		if !fields[f] {
			// OpCode may be set through a helper; the identity fields must be stored directly
			return "WithReply no longer stores " + f, false
		}
	}
	return "codec fact re-derived: NewReplyFromRequest applies WithReply (xid, htype, chaddr, flags), WithGatewayIP and WithOptionCopied", true
}

// ruleV4IdentityRO: first-party code never stores the identity fields of a DHCPv4 packet.
func ruleV4IdentityRO(c *Ctx, rule string) {
	// yiaddr, siaddr, sname and file are the server's to fill (RFC 2131 table 3); the rest echoes the request
	allowed := map[string]bool{"YourIPAddr": true, "ServerIPAddr": true, "ServerHostName": true, "BootFileName": true}
	identity := map[string]bool{"OpCode": true, "HWType": true, "TransactionID": true, "ClientHWAddr": true, "Flags": true, "GatewayIPAddr": true, "HopCount": true, "NumSeconds": true, "ClientIPAddr": true, "Options": true}
	n := 0
	for _, fn := range c.P.SrcFuncs() {
		if isFixture(fn) {
			continue
		}
		for _, b := range fn.Blocks {
			for _, in := range b.Instrs {
				switch x := in.(type) {
				case *ssa.Store:
					fa, ok := x.Addr.(*ssa.FieldAddr)
					if !ok || namedOf(fa.X.Type()) != pkgDHCP4+".DHCPv4" {
						continue
					}
					// composite literals of fresh packets are not replies in flight
					if _, fresh := fa.X.(*ssa.Alloc); fresh {
						continue
					}
					n++
					name := fieldName(fa)
					key := fmt.Sprintf("%s store DHCPv4.%s", shortFn(fn), name)
					if allowed[name] {
						c.R.ok(rule, key, c.P.InstrPos(in), shortFn(fn), "address field a plugin is meant to fill")
					} else if identity[name] {
						c.R.bad(rule, key, c.P.InstrPos(in), shortFn(fn), "first-party code overwrites an identity/echo field of a DHCPv4 packet; the reply would no longer match its request")
					} else {
						c.R.unk(rule, key, c.P.InstrPos(in), shortFn(fn), "store to an unclassified DHCPv4 field")
					}
				case *ssa.Call:
					if f := x.Call.StaticCallee(); f != nil && f.Signature.Recv() != nil && namedOf(f.Signature.Recv().Type()) == pkgDHCP4+".DHCPv4" {
						if f.Name() == "SetBroadcast" || f.Name() == "SetUnicast" {
							n++
							c.R.bad(rule, fmt.Sprintf("%s call %s", shortFn(fn), f.Name()), c.P.InstrPos(in), shortFn(fn), "first-party code rewrites the flags field")
						}
					}
				}
			}
		}
	}
	c.R.Note("%s: %d stores to dhcpv4.DHCPv4 header fields in first-party code", rule, n)
}

func ruleSentIsChainResult(c *Ctx, rule string, fn *ssa.Function, di *dispatchInfo) {
	n := 0
	for _, in := range viewInstrs(fn) {
		{
			if isSendSite(in) == "" {
				continue
			}
			n++
			key := fmt.Sprintf("%s sent value %s#%d", shortFn(fn), isSendSite(in), n)
			sv := sentValue(in)
			if sv == nil || di == nil || di.ExitPhi == nil {
				c.R.unk(rule, key, c.P.InstrPos(in), shortFn(fn), "cannot identify the serialised value / dispatch loop")
				continue
			}
			ok, why := staticOrigins(c, fn, sv, func(v ssa.Value) bool {
				if v == ssa.Value(di.ExitPhi) {
					return true
				}
				if isNilConst(v) {
					return true // a helper's failure return; a nil response is never sent (FILTER: resp ≠ nil)
				}
				// v6: re-encapsulated relay reply built from the chain result
				if ex, ok := v.(*ssa.Extract); ok && ex.Index == 0 {
					if call, ok := ex.Tuple.(*ssa.Call); ok {
						if f := call.Call.StaticCallee(); f != nil && f.String() == pkgDHCP6+".NewRelayReplFromRelayForw" {
							return true
						}
					}
				}
				return false
			})
			if ok {
				c.R.ok(rule, key, c.P.InstrPos(in), shortFn(fn), "the serialised packet is the dispatch loop's exit value (or its relay re-encapsulation)")
			} else {
				c.R.bad(rule, key, c.P.InstrPos(in), shortFn(fn), "the serialised packet has an origin other than the chain result: "+why)
			}
		}
	}
}

// ---- C15: addressing ---------------------------------------------------------

func ruleAddrCascade(c *Ctx, prefix string) {
	h := analyseHandle4(c)
	if h == nil {
		return
	}
	ex := h.ss.Ex
	nak := c.P.mustConst(c.R, pkgDHCP4, "MessageTypeNak")
	sport := c.P.mustConst(c.R, pkgDHCP4, "ServerPort")
	cport := c.P.mustConst(c.R, pkgDHCP4, "ClientPort")
	reG := regexp.MustCompile(`^\(net\.IP\)\.IsUnspecified\(` + h.reReq + `\.GatewayIPAddr\)$`)
	reC := regexp.MustCompile(`^\(net\.IP\)\.IsUnspecified\(` + h.reReq + `\.ClientIPAddr\)$`)
	reB := regexp.MustCompile(`^\(\*` + reQ(pkgDHCP4) + `\.DHCPv4\)\.IsBroadcast(@(?:[\w$]+·)?t\d+)?\(` + h.reReq + `\)$`)
	rowsSeen := map[string]int{}
	type res struct {
		bad string
		st  *State
	}
	siteRes := map[ssa.Instruction]*res{}
	pinRes := map[ssa.Instruction]*res{}
	nstates := 0
	for _, in := range sortedInstrs(h.ss.Sites) {
		kind := isSendSite(in)
		if kind == "" {
			continue
		}
		call := in.(*ssa.Call)
		siteRes[in] = &res{}
		pinRes[in] = &res{}
		for _, st := range h.ss.Sites[in] {
			nstates++
			G, _ := histFact(st, "bool", reG)
			C, _ := histFact(st, "bool", reC)
			B, _ := histFact(st, "bool", reB)
			// N: resp.MessageType() == Nak on the sent value
			sv := sentValue(in)
			svc := ex.Canon(st, sv).S
			reN := regexp.MustCompile(`^\(\*` + reQ(pkgDHCP4) + `\.DHCPv4\)\.MessageType(@(?:[\w$]+·)?t\d+)?\(` + reQ(svc) + `\)$`)
			N, _ := histEq(st, reN, nak)
			// expected row
			row, wantIP, wantPort, wantL2 := "", "", "", false
			// the request is the packet FromBytes decoded (one call site, resolved above); its
			// canonical form is matched by shape so that the cascade may live in a helper
			reqC := "‹req›"
			matchIP := func(got, want string) bool {
				if strings.HasPrefix(want, reqC) {
					return regexp.MustCompile(`^` + h.reReq + reQ(strings.TrimPrefix(want, reqC)) + `$`).MatchString(got)
				}
				return got == want
			}
			switch {
			case G == 0:
				row, wantIP, wantPort = "relay", reqC+".GatewayIPAddr", sport
			case G == 1 && N == 1:
				row, wantIP, wantPort = "nak-broadcast", "net.IPv4bcast", cport
			case G == 1 && N == 0 && C == 0:
				row, wantIP, wantPort = "ciaddr-unicast", reqC+".ClientIPAddr", cport
			case G == 1 && N == 0 && C == 1 && B == 1:
				row, wantIP, wantPort = "flag-broadcast", "net.IPv4bcast", cport
			case G == 1 && N == 0 && C == 1 && B == 0:
				row, wantIP, wantPort, wantL2 = "l2-unicast", svc+".YourIPAddr", cport, true
			default:
				siteRes[in].bad = fmt.Sprintf("destination chosen without deciding the RFC 2131 §4.1 cascade (giaddr-unspecified=%d nak=%d ciaddr-unspecified=%d broadcast-flag=%d; -1 = not tested on the path)", G, N, C, B)
				siteRes[in].st = st
				continue
			}
			rowsSeen[row]++
			isL2 := kind == "sendEthernet"
			if isL2 != wantL2 {
				siteRes[in].bad = fmt.Sprintf("row %s: link-level unicast=%v, want %v", row, isL2, wantL2)
				siteRes[in].st = st
				continue
			}
			var peerIP string
			if !isL2 {
				// peer = 3rd argument of WriteTo
				pa := call.Call.Args[len(call.Call.Args)-1]
				pv := ex.ResolveDeep(st, pa)
				al, ok := pv.(*ssa.Alloc)
				if !ok {
					siteRes[in].bad = "peer is not a net.UDPAddr literal built in this function: " + ex.Canon(st, pa).S
					siteRes[in].st = st
					continue
				}
				ipE, ok1 := st.lookupStore("new@" + ex.vname(al) + ".IP")
				ptE, ok2 := st.lookupStore("new@" + ex.vname(al) + ".Port")
				if !ok1 || !ok2 {
					siteRes[in].bad = "peer literal does not set both IP and Port"
					siteRes[in].st = st
					continue
				}
				peerIP = ipE.ce.S + ipE.suffix
				if !matchIP(peerIP, wantIP) || ptE.ce.S != wantPort {
					siteRes[in].bad = fmt.Sprintf("row %s: reply addressed to (%s, port %s), want (%s, port %s)", row, shortName(stripAt(peerIP)), ptE.ce.S, strings.Replace(shortName(stripAt(wantIP)), reqC, "request", 1), wantPort)
					siteRes[in].st = st
					continue
				}
			}
			// ---- PIN
			var woobV ssa.Value
			if isL2 {
				// sendEthernet(*InterfaceByIndex(woob.IfIndex)#0, resp)
				woobV = findWoobOfL2(call)
			} else {
				woobV = call.Call.Args[len(call.Call.Args)-2]
			}
			if woobV == nil {
				pinRes[in].bad = "cannot identify the control message of the send"
				pinRes[in].st = st
				continue
			}
			L, _ := histEq(st, regexp.MustCompile(`^\$0\.Interface\.Index$`), "0")
			L = not3(L)
			Onn, _ := histFact(st, "nil", regexp.MustCompile(`^\$2$`))
			Oidx, _ := histEq(st, regexp.MustCompile(`^\$2\.IfIndex$`), "0")
			O := and3(not3(Onn), not3(Oidx))
			pinned := 0
			if isL2 || peerIP == "net.IPv4bcast" {
				pinned = 1
			} else {
				eqB, _ := histFact(st, "bool", regexp.MustCompile(`^\(net\.IP\)\.Equal\(`+reQ(peerIP)+`,net\.IPv4bcast\)$`))
				ll, _ := histFact(st, "bool", regexp.MustCompile(`^\(net\.IP\)\.IsLinkLocalUnicast\(`+reQ(peerIP)+`\)$`))
				pinned = or3(eqB, ll)
			}
			wv := ex.ResolveDeep(st, woobV)
			got := "unknown"
			if isNilConst(wv) {
				got = "nil"
			} else if al, ok := wv.(*ssa.Alloc); ok {
				if e, ok := st.lookupStore("new@" + ex.vname(al) + ".IfIndex"); ok {
					got = e.ce.S + e.suffix
				}
			}
			want := ""
			switch {
			case pinned == 0:
				want = "nil"
			case pinned == 1 && L == 1:
				want = "$0.Interface.Index"
			case pinned == 1 && L == 0 && O == 1:
				want = "$2.IfIndex"
			case pinned == 1 && L == 0 && O == 0:
				want = "nil"
			default:
				pinRes[in].bad = fmt.Sprintf("interface pinning decided without testing its inputs (pinned-class=%d bound-interface=%d received-interface=%d)", pinned, L, O)
				pinRes[in].st = st
				continue
			}
			if got != want {
				pinRes[in].bad = fmt.Sprintf("row %s: control message IfIndex is %s, want %s (pinned-class=%d bound=%d received=%d)", row, got, want, pinned, L, O)
				pinRes[in].st = st
			}
		}
	}
	n := 0
	for _, in := range sortedInstrs(h.ss.Sites) {
		kind := isSendSite(in)
		if kind == "" {
			continue
		}
		n++
		for _, rr := range []struct {
			rule string
			r    *res
			ok   string
		}{{prefix + "ADDR.CASCADE", siteRes[in], "destination (address, port, L2) equals the RFC 2131 §4.1 row selected by giaddr / NAK / ciaddr / broadcast flag in every abstract state"},
			{prefix + "ADDR.PIN", pinRes[in], "control message is the bound interface, else the receiving interface, exactly for broadcast / link-local / L2 destinations; nil otherwise"}} {
			o := &Obl{Rule: rr.rule, Key: fmt.Sprintf("%s %s#%d", shortFn(h.fn), kind, n), Pos: c.P.InstrPos(in), Fn: shortFn(h.fn)}
			if rr.r.bad != "" {
				o.Verdict, o.Detail = Violated, rr.r.bad
				o.Facts = append(o.Facts, fmt.Sprintf("abstract path: %v", rr.r.st.Trail()))
				for _, s := range rr.r.st.HistStrings() {
					o.Facts = append(o.Facts, "decided: "+shortName(s))
				}
			} else {
				o.Verdict, o.Detail = Discharged, rr.ok
			}
			c.R.Add(o)
		}
	}
	for _, row := range []string{"relay", "nak-broadcast", "ciaddr-unicast", "flag-broadcast", "l2-unicast"} {
		key := shortFn(h.fn) + " row " + row + " realised"
		if rowsSeen[row] == 0 {
			c.R.bad(prefix+"ADDR.CASCADE", key, c.P.Pos(h.fn.Pos()), shortFn(h.fn), "no abstract state realises this row of the RFC 2131 §4.1 table")
		} else {
			c.R.ok(prefix+"ADDR.CASCADE", key, c.P.Pos(h.fn.Pos()), shortFn(h.fn), fmt.Sprintf("realised by %d abstract states", rowsSeen[row]))
		}
	}
	c.R.Note("ADDR: %d abstract states at send sites compared with the decision table", nstates)
}

// findWoobOfL2: sendEthernet(*intf, resp) with intf = net.InterfaceByIndex(woob.IfIndex)#0
func findWoobOfL2(call *ssa.Call) ssa.Value {
	ld, ok := call.Call.Args[0].(*ssa.UnOp)
	if !ok {
		return nil
	}
	ex, ok := ld.X.(*ssa.Extract)
	if !ok {
		return nil
	}
	ic, ok := ex.Tuple.(*ssa.Call)
	if !ok || ic.Call.StaticCallee() == nil || ic.Call.StaticCallee().String() != "net.InterfaceByIndex" {
		return nil
	}
	fl, ok := ic.Call.Args[0].(*ssa.UnOp)
	if !ok {
		return nil
	}
	fa, ok := fl.X.(*ssa.FieldAddr)
	if !ok || fieldName(fa) != "IfIndex" {
		return nil
	}
	return fa.X
}

// ruleAddrL2 checks the frame built by sendEthernet.
func ruleAddrL2(c *Ctx, rule string) {
	fn := c.P.Anchor("sendEthernet")
	if fn == nil {
		c.R.Fatalf("ANCHOR-UNRESOLVED: server.sendEthernet")
		return
	}
	c.R.Functions[shortFn(fn)] = true
	sport := c.P.mustConst(c.R, pkgDHCP4, "ServerPort")
	cport := c.P.mustConst(c.R, pkgDHCP4, "ClientPort")
	want := map[string]string{
		"github.com/google/gopacket/layers.Ethernet.DstMAC": "$1.ClientHWAddr",
		"github.com/google/gopacket/layers.IPv4.DstIP":      "$1.YourIPAddr",
		"github.com/google/gopacket/layers.IPv4.SrcIP":      "$1.ServerIPAddr",
		"github.com/google/gopacket/layers.UDP.SrcPort":     sport,
		"github.com/google/gopacket/layers.UDP.DstPort":     cport,
		"syscall.SockaddrLinklayer.Ifindex":                 "$0.Index",
	}
	got := map[string]string{}
	pos := map[string]string{}
	ex := NewExplorer(c.P, c.Pure, fn)
	ex.Hooks.Instr = func(st *State, in ssa.Instruction) {
		s, ok := in.(*ssa.Store)
		if !ok {
			return
		}
		fa, ok := s.Addr.(*ssa.FieldAddr)
		if !ok {
			return
		}
		if _, isAlloc := fa.X.(*ssa.Alloc); !isAlloc {
			return
		}
		k := namedOf(fa.X.Type()) + "." + fieldName(fa)
		if _, ok := want[k]; ok {
			v := ex.Canon(st, s.Val).S
			if strings.HasPrefix(v, "conv<") {
				v = v[strings.Index(v, "(")+1 : len(v)-1]
			}
			if old, dup := got[k]; dup && old != v {
				v = old + " / " + v
			}
			got[k] = v
			pos[k] = c.P.InstrPos(in)
		}
	}
	ex.Run()
	keys := []string{}
	for k := range want {
		keys = append(keys, k)
	}
	sort.Strings(keys)
	for _, k := range keys {
		key := "sendEthernet " + k[strings.LastIndex(k[:strings.LastIndex(k, ".")], ".")+1:]
		if got[k] == want[k] {
			c.R.ok(rule, key, pos[k], shortFn(fn), "frame field ← "+want[k])
		} else if got[k] == "" {
			c.R.bad(rule, key, c.P.Pos(fn.Pos()), shortFn(fn), "frame field is not set from "+want[k])
		} else {
			c.R.bad(rule, key, pos[k], shortFn(fn), fmt.Sprintf("frame field is set from %s, want %s", got[k], want[k]))
		}
	}
	// the L2 call site passes the interface looked up from the control message and the chain result
	h := analyseHandle4(c)
	if h != nil {
		for _, in := range sortedInstrs(h.ss.Sites) {
			if isSendSite(in) != "sendEthernet" {
				continue
			}
			call := in.(*ssa.Call)
			if findWoobOfL2(call) == nil {
				c.R.bad(rule, "HandleMsg4 sendEthernet interface", c.P.InstrPos(in), shortFn(h.fn), "the interface passed to sendEthernet is not net.InterfaceByIndex(woob.IfIndex)")
			} else {
				c.R.ok(rule, "HandleMsg4 sendEthernet interface", c.P.InstrPos(in), shortFn(h.fn), "interface = net.InterfaceByIndex(woob.IfIndex) on its success edge")
			}
		}
	}
}

// ruleAddrListener: listenN remembers its interface or enables per-packet
// interface information.
func ruleAddrListener(c *Ctx, rule string) {
	for _, name := range []string{"listen4", "listen6"} {
		fn := c.P.Anchor(name)
		if fn == nil {
			c.R.Fatalf("ANCHOR-UNRESOLVED: server.%s", name)
			continue
		}
		c.R.Functions[shortFn(fn)] = true
		ex := NewExplorer(c.P, c.Pure, fn)
		bad := ""
		nOK := 0
		ex.Hooks.Label = func(st *State, in ssa.Instruction) string {
			switch x := in.(type) {
			case *ssa.Call:
				if f := x.Call.StaticCallee(); f != nil && f.Name() == "SetControlMessage" && len(x.Call.Args) == 3 {
					flag, ok1 := x.Call.Args[1].(*ssa.Const)
					on, ok2 := x.Call.Args[2].(*ssa.Const)
					// FlagInterface = 1 << 2 in both x/net/ipv4 and ipv6
					if ok1 && ok2 && constStr(on) == "true" && isFlagInterface(c, flag) {
						return "ctl:" + ex.Canon(st, x).S
					}
				}
			case *ssa.Store:
				if fa, ok := x.Addr.(*ssa.FieldAddr); ok && fieldName(fa) == "Interface" {
					v := ex.Canon(st, x.Val).S
					if regexp.MustCompile(`^net\.InterfaceByName@(?:[\w$]+·)?t\d+\(\$0\.Zone\)#0$`).MatchString(v) {
						return "iface"
					}
				}
			}
			return ""
		}
		ex.Hooks.Exit = func(st *State, in ssa.Instruction) {
			ret, ok := in.(*ssa.Return)
			if !ok || len(ret.Results) != 2 || !isNilConst(ex.ResolveDeep(st, ret.Results[1])) {
				return
			}
			zoneEmpty, _ := histEq(st, regexp.MustCompile(`^len\(\$0\.Zone\)$`), "0")
			switch zoneEmpty {
			case 0:
				if !st.seen["iface"] {
					bad = fmt.Sprintf("success return at %s with a zone but the listener's Interface is not stored from net.InterfaceByName(zone)", c.P.InstrPos(in))
				} else {
					nOK++
				}
			case 1:
				okc := false
				for l := range st.seen {
					if strings.HasPrefix(l, "ctl:") {
						// the call's error must have been checked nil
						if v, _ := histFact(st, "nil", regexp.MustCompile(`^`+reQ(strings.TrimPrefix(l, "ctl:"))+`$`)); v == 1 {
							okc = true
						}
					}
				}
				if !okc {
					bad = fmt.Sprintf("success return at %s for an unbound listener without a successful SetControlMessage(FlagInterface, true): replies cannot be pinned to the receiving interface", c.P.InstrPos(in))
				} else {
					nOK++
				}
			default:
				bad = fmt.Sprintf("success return at %s without deciding whether the listener is bound to an interface", c.P.InstrPos(in))
			}
		}
		ex.Run()
		if bad != "" {
			c.R.bad(rule, name+" interface knowledge", c.P.Pos(fn.Pos()), shortFn(fn), bad)
		} else if nOK == 0 {
			c.R.bad(rule, name+" interface knowledge", c.P.Pos(fn.Pos()), shortFn(fn), "no successful return found")
		} else {
			c.R.ok(rule, name+" interface knowledge", c.P.Pos(fn.Pos()), shortFn(fn), fmt.Sprintf("all %d abstract success returns either store Interface from InterfaceByName(zone) or enabled FlagInterface control messages", nOK))
		}
	}
}

func isFlagInterface(c *Ctx, k *ssa.Const) bool {
	t, ok := k.Type().(*types.Named)
	if !ok || t.Obj().Pkg() == nil {
		return false
	}
	v, ok := c.P.constOf(t.Obj().Pkg().Path(), "FlagInterface")
	return ok && v == constStr(k)
}

// chainResultNonNil: what the path decided about "the dispatch loop's exit
// value != nil" (1 non-nil, 0 nil, -1 not decided), found as a decided nil
// test whose operand is, statically, the loop's exit value (possibly handed
// back through the helper that holds the loop).
// chainResultNilState: what the path knows about the chain's result, asked of
// every value the function compares with nil whose origin is the dispatch
// loop's exit value (the result may have travelled through a helper's result
// tuple and been tested anywhere - in a branch, or as a boolean argument).
func chainResultNilState(c *Ctx, ex *Explorer, fn *ssa.Function, di *dispatchInfo, st *State) int {
	res := -1
	eachInstr(fn, func(in ssa.Instruction) {
		cmp, ok := in.(*ssa.BinOp)
		if !ok || res != -1 || (cmp.Op != token.EQL && cmp.Op != token.NEQ) {
			return
		}
		v := cmp.X
		if isNilConst(cmp.X) {
			v = cmp.Y
		} else if !isNilConst(cmp.Y) {
			return
		}
		if in.Parent() != fn {
			return // values of helper frames are not resolvable once the frame is gone
		}
		if ok, _ := staticOrigins(c, fn, v, func(x ssa.Value) bool { return x == ssa.Value(di.ExitPhi) }); !ok {
			return
		}
		if ns, _ := ex.NilState(st, v); ns == 0 {
			res = 1
		} else if ns == 1 {
			res = 0
		}
	})
	return res
}

func chainResultNonNil(c *Ctx, fn *ssa.Function, di *dispatchInfo, st *State) int {
	for _, k := range sortedKeys(st.hist) {
		f := st.hist[k]
		if f.Kind != "nil" || f.At == nil {
			continue
		}
		iff, ok := f.At.(*ssa.If)
		if !ok {
			continue
		}
		cmp, ok := iff.Cond.(*ssa.BinOp)
		if !ok || (cmp.Op != token.EQL && cmp.Op != token.NEQ) {
			continue
		}
		v := cmp.X
		if isNilConst(cmp.X) {
			v = cmp.Y
		} else if !isNilConst(cmp.Y) {
			continue
		}
		if ok, _ := staticOrigins(c, fn, v, func(x ssa.Value) bool { return x == ssa.Value(di.ExitPhi) }); ok {
			return b2i(!f.Val)
		}
	}
	return -1
}

// rulePostChainRO: what the plugin chain returned is what is sent: between the
// dispatch loop and the send, the server itself does not modify the reply (nor,
// for DHCPv6, the relay reply built around it) - no impure method of the packet
// or of its option containers is called on it, and none of its fields is
// stored to. Only the value's provenance decides (the dispatch loop's exit
// value, or the relay re-encapsulation of it), so the stub built before the
// chain is not concerned.
func rulePostChainRO(c *Ctx, rule string, fn *ssa.Function, di *dispatchInfo) {
	key := shortFn(fn) + " reply unmodified after the chain"
	if di == nil || di.ExitPhi == nil {
		c.R.unk(rule, key, c.P.Pos(fn.Pos()), shortFn(fn), "dispatch loop not recognised")
		return
	}
	post := func(v ssa.Value) bool {
		if v == ssa.Value(di.ExitPhi) {
			return true
		}
		if ex, ok := v.(*ssa.Extract); ok && ex.Index == 0 {
			if call, ok := ex.Tuple.(*ssa.Call); ok {
				if f := call.Call.StaticCallee(); f != nil && f.String() == pkgDHCP6+".NewRelayReplFromRelayForw" {
					return true
				}
			}
		}
		return false
	}
	// the packet an address expression is rooted at: peel field addresses, loads and interface unboxing
	root := func(v ssa.Value) ssa.Value {
		for i := 0; i < 8; i++ {
			switch x := v.(type) {
			case *ssa.FieldAddr:
				v = x.X
			case *ssa.UnOp:
				if fa, ok := x.X.(*ssa.FieldAddr); ok && x.Op == token.MUL {
					v = fa.X
				} else {
					return v
				}
			case *ssa.TypeAssert:
				v = x.X
			case *ssa.ChangeInterface:
				v = x.X
			case *ssa.MakeInterface:
				v = x.X
			default:
				return v
			}
		}
		return v
	}
	isPost := func(v ssa.Value) bool {
		r := root(v)
		if r == nil {
			return false
		}
		if _, isConst := r.(*ssa.Const); isConst {
			return false
		}
		if ok, _ := staticOrigins(c, fn, r, post); ok {
			return true
		}
		// a value that *may* be the reply (a loop variable walking the relay layers of it)
		for _, l := range mayLeaves(c.P, r) {
			if post(l) {
				return true
			}
		}
		return false
	}
	var bad []string
	n := 0
	for _, in := range viewInstrs(fn) {
		switch x := in.(type) {
		case *ssa.Store:
			if fa, ok := x.Addr.(*ssa.FieldAddr); ok && isPost(fa) {
				n++
				bad = append(bad, fmt.Sprintf("a field of the chain's reply is overwritten at %s", c.P.InstrPos(in)))
			}
		case *ssa.Call:
			cc := &x.Call
			if _, isB := cc.Value.(*ssa.Builtin); isB {
				continue
			}
			callee := cc.StaticCallee()
			if callee != nil && FirstParty(callee) {
				continue // its body is part of the view (or it is judged on its own)
			}
			if c.Pure.IsPureCall(cc) || harmlessCallee(cc) {
				continue
			}
			args := cc.Args
			if cc.IsInvoke() {
				args = append([]ssa.Value{cc.Value}, cc.Args...)
			}
			if len(args) == 0 || !pointerLike(args[0].Type()) {
				continue
			}
			// only receivers that are the packet or one of its option containers
			rn := namedOf(args[0].Type())
			if cc.IsInvoke() {
				rn = invokeName(cc)
			}
			if !strings.Contains(rn, "/dhcpv4.") && !strings.Contains(rn, "/dhcpv6.") {
				continue
			}
			name := calleeName(cc)
			if strings.HasSuffix(name, ".ToBytes") || strings.HasSuffix(name, ".Summary") || strings.HasSuffix(name, ".String") {
				continue
			}
			if isPost(args[0]) {
				n++
				bad = append(bad, fmt.Sprintf("%s is called on the chain's reply at %s: the server changes what the plugins decided", name, c.P.InstrPos(in)))
			}
		}
	}
	if len(bad) > 0 {
		c.R.bad(rule, key, c.P.Pos(fn.Pos()), shortFn(fn), strings.Join(dedup(bad), "; "))
	} else {
		c.R.ok(rule, key, c.P.Pos(fn.Pos()), shortFn(fn), "no store into, and no impure codec method on, the dispatch loop's result or its relay re-encapsulation")
	}
}
