package main

import (
	"crypto/sha256"
	"encoding/json"
	"fmt"
	"os"
	"os/exec"
	"path/filepath"
	"strings"
	"time"

	"golang.org/x/tools/go/ssa"
)

type witness struct {
	Prop string `json:"prop"`
	Rule string `json:"rule"`
	File string `json:"file"`
	Old  string `json:"old"`
	New  string `json:"new"`
}

func loadWitnesses(verifDir string) []witness {
	b, err := os.ReadFile(filepath.Join(verifDir, "witnesses.json"))
	if err != nil {
		return nil
	}
	var w struct {
		Witnesses []witness `json:"witnesses"`
	}
	json.Unmarshal(b, &w)
	return w.Witnesses
}

// runWitness applies one edit through an overlay directory in a fresh process
// and reports whether the named rule fired.
func runWitness(exe, repo string, w witness) (status, detail string) {
	src := filepath.Join(repo, w.File)
	b, err := os.ReadFile(src)
	if err != nil || !strings.Contains(string(b), w.Old) {
		return "skipped", "pattern no longer present in " + w.File
	}
	dir, err := os.MkdirTemp("", "cdwit")
	if err != nil {
		return "skipped", err.Error()
	}
	defer os.RemoveAll(dir)
	dst := filepath.Join(dir, w.File)
	os.MkdirAll(filepath.Dir(dst), 0o755)
	os.WriteFile(dst, []byte(strings.Replace(string(b), w.Old, w.New, 1)), 0o644)
	cmd := exec.Command(exe, "-prop", w.Prop, "-repo", repo, "-overlay", dir, "-evidence", "", "-tier", "quick")
	out, _ := cmd.CombinedOutput()
	s := string(out)
	if strings.Contains(s, "load failed") {
		return "skipped", "mutant does not type-check"
	}
	for _, l := range strings.Split(s, "\n") {
		if strings.HasPrefix(l, "  "+w.Prop+".") && strings.Contains(l, w.Rule) {
			return "fired", strings.TrimSpace(oneLine(l))
		}
	}
	if strings.Contains(s, "VIOLATION") {
		return "fired-other-rule", "a different rule of the property fired"
	}
	return "silent", "no violation reported for the mutant"
}

func digest(s string) string {
	h := sha256.Sum256([]byte(s))
	return fmt.Sprintf("%x", h[:6])
}

// crossReference runs the generic tools on the module; their findings are
// recorded, never gating.
func crossReference(repo string) map[string]interface{} {
	out := map[string]interface{}{}
	env := append(os.Environ(), "GOFLAGS=-mod=mod", "GOPROXY=off", "GOSUMDB=off", "GOTOOLCHAIN=local", "GOWORK=off")
	run := func(name string, args ...string) {
		cmd := exec.Command(args[0], args[1:]...)
		cmd.Dir = repo
		cmd.Env = env
		start := time.Now()
		b, err := cmd.CombinedOutput()
		lines := 0
		for _, l := range strings.Split(string(b), "\n") {
			if strings.TrimSpace(l) != "" && !strings.HasPrefix(l, "#") {
				lines++
			}
		}
		ent := map[string]interface{}{"cmd": strings.Join(args, " "), "report_lines": lines, "digest": digest(string(b)), "wall_s": time.Since(start).Seconds()}
		if err != nil {
			ent["exit"] = err.Error()
		}
		first := []string{}
		for _, l := range strings.Split(string(b), "\n") {
			if strings.TrimSpace(l) != "" && len(first) < 5 {
				first = append(first, oneLine(l))
			}
		}
		ent["first_lines"] = first
		out[name] = ent
	}
	run("go vet", "go", "vet", "./...")
	run("staticcheck", "staticcheck", "./...")
	run("errcheck", "errcheck", "./...")
	return out
}

func runThoroughExtras(c *Ctx, pd *propDef, ri *runInfo, repo string, overlay map[string][]byte) {
	exe, _ := os.Executable()
	verifDir := filepath.Dir(filepath.Dir(exe))
	// (a) second build configuration: 32-bit, no cgo
	func() {
		alt, err := LoadProgram(repo, []string{"GOARCH=386", "CGO_ENABLED=0"}, overlay)
		if err != nil {
			c.R.Note("GOARCH=386 configuration could not be loaded (non-gating): %v", oneLine(err.Error()))
			return
		}
		ri.Configs = append(ri.Configs, "linux/386 nocgo")
		// fresh caches: summaries are per program
		resetCaches()
		rep2 := NewReport(pd.ID)
		c2 := &Ctx{P: alt, Pure: ComputePurity(alt), R: rep2, Tier: "thorough"}
		prev := curProg
		curProg = alt
		pd.Run(c2)
		curProg = prev
		n, bad := 0, 0
		for _, o := range rep2.Obls {
			if o.Fixture {
				continue
			}
			n++
			o2 := *o
			o2.Key = "[386] " + o.Key
			if o.Verdict != Discharged {
				bad++
				// the same construct already reported by the default configuration is one finding, not two
				dup := false
				for _, p := range c.R.Obls {
					if p.Rule == o.Rule && p.Key == o.Key && p.Verdict != Discharged {
						dup = true
					}
				}
				if !dup {
					c.R.Add(&o2)
				}
			}
		}
		for _, f := range rep2.Fatal {
			c.R.Fatalf("[386] %s", f)
		}
		ri.Extra["config_386"] = map[string]int{"obligations": n, "not_discharged": bad}
		c.R.Note("GOARCH=386 CGO_ENABLED=0: %d obligations re-decided, %d not discharged", n, bad)
		resetCaches()
	}()
	// (b) cross-reference tools
	ri.Extra["cross_reference"] = crossReference(repo)
	// (c) sensitivity witnesses for this property
	var ws []map[string]string
	fired, applied := 0, 0
	for _, w := range loadWitnesses(verifDir) {
		if w.Prop != pd.ID {
			continue
		}
		st, detail := runWitness(exe, repo, w)
		if st != "skipped" {
			applied++
		}
		if st == "fired" {
			fired++
		}
		ws = append(ws, map[string]string{"rule": w.Rule, "file": w.File, "status": st, "detail": detail})
	}
	ri.Extra["witnesses"] = map[string]interface{}{"applied": applied, "fired": fired, "list": ws}
	c.R.Note("sensitivity witnesses: %d applied, %d fired the named rule", applied, fired)
}

// resetCaches clears per-program memo tables (they hold SSA objects of one program).
func resetCaches() {
	funcInfoCache = map[*ssa.Function]*FuncInfo{}
	exitCache = map[*ssa.Function]*exitSummary{}
	mayNilMemo = map[string]int{}
	paramLenMemo = map[*ssa.Parameter]int64{}
	neverNilMemo = map[*ssa.Function]int{}
	globalNeverNilMemo = map[*ssa.Global]int{}
	wtpMemo = map[string]int{}
	ctorCodeMemo = map[*ssa.Function]string{}
	entryLockCache = map[*ssa.Function][]heldLock{}
	entryLockBusy = map[*ssa.Function]bool{}
	h4cache, h6cache = nil, nil
}
