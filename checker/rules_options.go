package main

import (
	"fmt"
	"go/constant"
	"go/token"
	"go/types"
	"regexp"
	"sort"
	"strings"

	"golang.org/x/tools/go/ssa"
)

// optionCodeOf derives the DHCP option code carried by an option value from
// the program: constructor bodies, Code() methods, literals, and the stores
// to plugin globals.
func optionCodeOf(c *Ctx, v ssa.Value, depth int) (string, bool) {
	if depth > 8 || v == nil {
		return "", false
	}
	switch x := v.(type) {
	case *ssa.MakeInterface:
		return optionCodeOf(c, x.X, depth+1)
	case *ssa.ChangeInterface:
		return optionCodeOf(c, x.X, depth+1)
	case *ssa.ChangeType:
		return optionCodeOf(c, x.X, depth+1)
	case *ssa.Phi:
		code := ""
		for _, e := range x.Edges {
			if k, ok := e.(*ssa.Const); ok && k.Value == nil {
				continue
			}
			cd, ok := optionCodeOf(c, e, depth+1)
			if !ok || (code != "" && cd != code) {
				return "", false
			}
			code = cd
		}
		return code, code != ""
	case *ssa.Call:
		fn := x.Call.StaticCallee()
		if fn == nil {
			return "", false
		}
		return ctorCode(c, fn, depth+1)
	case *ssa.Alloc:
		// literal: a store of a constant to its Code / OptionCode field, or a whole-value store
		for _, r := range *x.Referrers() {
			switch y := r.(type) {
			case *ssa.FieldAddr:
				n := fieldName(y)
				if n != "Code" && n != "OptionCode" {
					continue
				}
				for _, r2 := range *y.Referrers() {
					if s, ok := r2.(*ssa.Store); ok {
						if k, ok := constCode(s.Val); ok {
							return k, true
						}
					}
				}
			case *ssa.Store:
				if y.Addr == ssa.Value(x) {
					if cd, ok := optionCodeOf(c, y.Val, depth+1); ok {
						return cd, true
					}
				}
			}
		}
		return "", false
	case *ssa.UnOp:
		if x.Op != token.MUL {
			return "", false
		}
		switch a := x.X.(type) {
		case *ssa.Global:
			code := ""
			for _, s := range findStores(c.P, nil, a) {
				cd, ok := optionCodeOf(c, s.Val, depth+1)
				if !ok || (code != "" && cd != code) {
					return "", false
				}
				code = cd
			}
			return code, code != ""
		case *ssa.Alloc:
			return optionCodeOf(c, a, depth+1)
		default:
			return optionCodeOf(c, x.X, depth+1) // *p where p is itself derived
		}
	}
	return "", false
}

func constCode(v ssa.Value) (string, bool) {
	switch x := v.(type) {
	case *ssa.Const:
		if x.Value != nil && x.Value.Kind() == constant.Int {
			return x.Value.ExactString(), true
		}
	case *ssa.MakeInterface:
		return constCode(x.X)
	case *ssa.ChangeType:
		return constCode(x.X)
	case *ssa.Convert:
		return constCode(x.X)
	case *ssa.ChangeInterface:
		return constCode(x.X)
	}
	return "", false
}

var ctorCodeMemo = map[*ssa.Function]string{}

func ctorCode(c *Ctx, fn *ssa.Function, depth int) (string, bool) {
	if v, ok := ctorCodeMemo[fn]; ok {
		return v, v != ""
	}
	ctorCodeMemo[fn] = ""
	// (1) stores a constant to a Code field of the value it returns
	for _, b := range fn.Blocks {
		for _, in := range b.Instrs {
			if s, ok := in.(*ssa.Store); ok {
				if fa, ok := s.Addr.(*ssa.FieldAddr); ok && (fieldName(fa) == "Code" || fieldName(fa) == "OptionCode") {
					if k, ok := constCode(s.Val); ok {
						ctorCodeMemo[fn] = k
						return k, true
					}
				}
			}
		}
	}
	// (2) returns a concrete type whose Code() method returns a constant
	for _, b := range fn.Blocks {
		ret, ok := b.Instrs[len(b.Instrs)-1].(*ssa.Return)
		if !ok || len(ret.Results) != 1 {
			continue
		}
		var t types.Type
		switch r := ret.Results[0].(type) {
		case *ssa.MakeInterface:
			t = r.X.Type()
		default:
			t = r.Type()
		}
		if sel := c.P.Prog.MethodSets.MethodSet(t).Lookup(nil, "Code"); sel != nil {
			if m := c.P.Prog.MethodValue(sel); m != nil {
				if k, ok := constReturnOf(m, 0); ok {
					ctorCodeMemo[fn] = k
					return k, true
				}
			}
		}
	}
	return "", false
}

// emission: a call that puts an option into the response.
type emission struct {
	In         ssa.Instruction
	Opt        ssa.Value
	Idempotent bool
	Recv       ssa.Value
	How        string
}

func emissionOf(in ssa.Instruction) *emission {
	call, ok := in.(*ssa.Call)
	if !ok {
		return nil
	}
	cc := &call.Call
	if cc.IsInvoke() {
		switch cc.Method.Name() {
		case "AddOption":
			return &emission{In: in, Opt: cc.Args[0], Idempotent: false, Recv: cc.Value, How: "AddOption"}
		case "UpdateOption":
			return &emission{In: in, Opt: cc.Args[0], Idempotent: true, Recv: cc.Value, How: "UpdateOption"}
		}
		return nil
	}
	fn := cc.StaticCallee()
	if fn == nil {
		return nil
	}
	switch fn.String() {
	case "(" + pkgDHCP4 + ".Options).Update":
		return &emission{In: in, Opt: cc.Args[1], Idempotent: true, Recv: cc.Args[0], How: "Options.Update"}
	case "(*" + pkgDHCP4 + ".DHCPv4).UpdateOption":
		return &emission{In: in, Opt: cc.Args[1], Idempotent: true, Recv: cc.Args[0], How: "UpdateOption"}
	}
	return nil
}

type optRow struct {
	Name   string
	Code   string              // option code (by value)
	Gate   func(st *State) int // three-valued gate over the decided atoms
	Global []string            // each must occur in the canonical rendering of the emitted value
	Stop   *bool               // required stop result on the emitting path (nil = not constrained)
	// ListedOrAbsent: the specification of this DHCPv4 row is "the request list names the
	// option, or there is no list" (checked separately from Gate: EMPTY-LIST)
	ListedOrAbsent bool
}

type optSpec struct {
	Pkg, Fn string
	RespIdx int
	Rows    []optRow
	// NoEmitReturn: on paths with no emission the handler returns (resp, NoEmitStop)
	NoEmitStop bool
	// NilDrop: gate under which the handler returns (nil, true) instead of emitting
	NilDrop func(st *State) int
}

func reqFact(kind, pat string) func(st *State) int {
	re := regexp.MustCompile(pat)
	return func(st *State) int {
		v, _ := histFact(st, kind, re)
		return v
	}
}

func isReq4(code string) func(st *State) int {
	isReq := reqFact("bool", `^\(\*`+reQ(pkgDHCP4)+`\.DHCPv4\)\.IsOptionRequested(@(?:[\w$]+·)?t\d+)?\(\$0,`+reQ(code)+`\)$`)
	// the same entitlement spelled out: no list at all, or the option is a member of the decoded list
	has := reqFact("bool", `^\(`+reQ(pkgDHCP4)+`\.Options\)\.Has(@(?:[\w$]+·)?t\d+)?\(\$0\.Options,55\)$`)
	member := reqFact("bool", `^\(`+reQ(pkgDHCP4)+`\.OptionCodeList\)\.Has(@(?:[\w$]+·)?t\d+)?\(\(\*`+reQ(pkgDHCP4)+`\.DHCPv4\)\.ParameterRequestList(@(?:[\w$]+·)?t\d+)?\(\$0\),`+reQ(code)+`\)$`)
	return func(st *State) int {
		if v := isReq(st); v != -1 {
			return v
		}
		return or3(not3(has(st)), member(st))
	}
}

func always(st *State) int { return 1 }

// memberTestedOnly: the path found the option missing from the decoded request
// list without having asked whether there is a list at all (neither through
// IsOptionRequested, which answers true for an absent list, nor Options.Has).
func memberTestedOnly(st *State, code string) bool {
	isReq := reqFact("bool", `^\(\*`+reQ(pkgDHCP4)+`\.DHCPv4\)\.IsOptionRequested(@(?:[\w$]+·)?t\d+)?\(\$0,`+reQ(code)+`\)$`)
	has := reqFact("bool", `^\(`+reQ(pkgDHCP4)+`\.Options\)\.Has(@(?:[\w$]+·)?t\d+)?\(\$0\.Options,55\)$`)
	member := reqFact("bool", `^\(`+reQ(pkgDHCP4)+`\.OptionCodeList\)\.Has(@(?:[\w$]+·)?t\d+)?\(\(\*`+reQ(pkgDHCP4)+`\.DHCPv4\)\.ParameterRequestList(@(?:[\w$]+·)?t\d+)?\(\$0\),`+reQ(code)+`\)$`)
	lstNil, _ := histFact(st, "nil", regexp.MustCompile(`^\(\*`+reQ(pkgDHCP4)+`\.DHCPv4\)\.ParameterRequestList(@(?:[\w$]+·)?t\d+)?\(\$0\)$`))
	return member(st) == 0 && isReq(st) == -1 && has(st) == -1 && lstNil == -1
}

func ruleOptions(c *Ctx, prefix string) {
	k4 := func(n string) string { return c.P.mustConst(c.R, pkgDHCP4, n) }
	k6 := func(n string) string { return c.P.mustConst(c.R, pkgDHCP6, n) }
	pp := modPath + "/plugins/"
	tr, fa := true, false
	inner6 := `invoke:` + reQ(pkgDHCP6) + `\.DHCPv6\.GetInnerMessage\(\$0\)#0`
	boot := k4("OpcodeBootRequest")
	specs := []optSpec{
		{Pkg: "dns", Fn: "Handler4", RespIdx: 1, Rows: []optRow{{Name: "dns v4", Code: k4("OptionDomainNameServer"), Gate: isReq4(k4("OptionDomainNameServer")), Global: []string{pp + "dns.dnsServers4"}, Stop: &fa, ListedOrAbsent: true}}},
		{Pkg: "dns", Fn: "Handler6", RespIdx: 1, Rows: []optRow{{Name: "dns v6", Code: k6("OptionDNSRecursiveNameServer"),
			Gate:   reqFact("bool", `^\(\*`+reQ(pkgDHCP6)+`\.Message\)\.IsOptionRequested(@(?:[\w$]+·)?t\d+)?\(`+inner6+`,`+reQ(k6("OptionDNSRecursiveNameServer"))+`\)$`),
			Global: []string{pp + "dns.dnsServers6"}, Stop: &fa}}},
		{Pkg: "mtu", Fn: "Handler4", RespIdx: 1, Rows: []optRow{{Name: "mtu", Code: k4("OptionInterfaceMTU"), Gate: isReq4(k4("OptionInterfaceMTU")), Global: []string{pp + "mtu.mtu"}, Stop: &fa, ListedOrAbsent: true}}},
		{Pkg: "netmask", Fn: "Handler4", RespIdx: 1, Rows: []optRow{{Name: "netmask", Code: k4("OptionSubnetMask"), Gate: always, Global: []string{pp + "netmask.netmask"}, Stop: &fa}}},
		{Pkg: "router", Fn: "Handler4", RespIdx: 1, Rows: []optRow{{Name: "router", Code: k4("OptionRouter"), Gate: always, Global: []string{pp + "router.routers"}, Stop: &fa}}},
		{Pkg: "searchdomains", Fn: "domainSearchListHandler4", RespIdx: 1, Rows: []optRow{{Name: "searchdomains v4", Code: k4("OptionDNSDomainSearchList"), Gate: always, Global: []string{pp + "searchdomains.v4SearchList"}, Stop: &fa}}},
		{Pkg: "searchdomains", Fn: "domainSearchListHandler6", RespIdx: 1, Rows: []optRow{{Name: "searchdomains v6", Code: k6("OptionDomainSearchList"), Gate: always, Global: []string{pp + "searchdomains.v6SearchList"}, Stop: &fa}}},
		{Pkg: "staticroute", Fn: "Handler4", RespIdx: 1, Rows: []optRow{{Name: "staticroute", Code: k4("OptionClasslessStaticRoute"),
			Gate: func(st *State) int {
				return histLenPos(st, regexp.MustCompile(`^len\(`+reQ(pp)+`staticroute\.routes\)$`))
			},
			Global: []string{pp + "staticroute.routes"}, Stop: &fa}}},
		{Pkg: "leasetime", Fn: "Handler4", RespIdx: 1, Rows: []optRow{{Name: "lease_time", Code: k4("OptionIPAddressLeaseTime"),
			Gate: func(st *State) int {
				op, _ := histEq(st, regexp.MustCompile(`^\$0\.OpCode$`), boot)
				has, _ := histFact(st, "bool", regexp.MustCompile(`^\(`+reQ(pkgDHCP4)+`\.Options\)\.Has(@(?:[\w$]+·)?t\d+)?\(\$1\.Options,`+reQ(k4("OptionIPAddressLeaseTime"))+`\)$`))
				return and3(op, not3(has))
			},
			Global: []string{pp + "leasetime.v4LeaseTime"}, Stop: &fa}}},
		{Pkg: "ipv6only", Fn: "Handler4", RespIdx: 1, Rows: []optRow{{Name: "ipv6only", Code: k4("OptionIPv6OnlyPreferred"),
			Gate: func(st *State) int {
				code := k4("OptionIPv6OnlyPreferred")
				req := isReq4(code)(st)
				// "explicitly lists it": the request list must be known present, or membership is tested on the list itself
				prl := k4("OptionParameterRequestList")
				has, _ := histFact(st, "bool", regexp.MustCompile(`^\(`+reQ(pkgDHCP4)+`\.Options\)\.Has(@(?:[\w$]+·)?t\d+)?\(\$0\.Options,`+reQ(prl)+`\)$`))
				lstNil, _ := histFact(st, "nil", regexp.MustCompile(`^\(\*`+reQ(pkgDHCP4)+`\.DHCPv4\)\.ParameterRequestList(@(?:[\w$]+·)?t\d+)?\(\$0\)$`))
				lenPos := histLenPos(st, regexp.MustCompile(`^len\(.*ParameterRequestList`))
				member, _ := histFact(st, "bool", regexp.MustCompile(`^\(`+reQ(pkgDHCP4)+`\.OptionCodeList\)\.Has(@(?:[\w$]+·)?t\d+)?\(\(\*`+reQ(pkgDHCP4)+`\.DHCPv4\)\.ParameterRequestList(@(?:[\w$]+·)?t\d+)?\(\$0\),`+reQ(code)+`\)$`))
				// Options.Has(55) does not make the list present in the codec's sense: a zero-length
				// option 55 is stored as a nil value, ParameterRequestList() then returns nil and
				// IsOptionRequested answers true - for a client that listed nothing
				_ = has
				rawPos := histLenPos(st, regexp.MustCompile(`^len\(\(`+reQ(pkgDHCP4)+`\.Options\)\.Get(@(?:[\w$]+·)?t\d+)?\(\$0\.Options,`+reQ(prl)+`\)\)$`))
				present := or3(not3(lstNil), lenPos, rawPos)
				return or3(member, and3(req, present))
			},
			Global: []string{pp + "ipv6only.v6only_wait"}, Stop: &tr}}, NoEmitStop: false},
		{Pkg: "autoconfigure", Fn: "Handler4", RespIdx: 1, Rows: []optRow{{Name: "autoconfigure", Code: k4("OptionAutoConfigure"),
			Gate: func(st *State) int {
				offer := k4("MessageTypeOffer")
				mt, _ := histEq(st, regexp.MustCompile(`^\(\*`+reQ(pkgDHCP4)+`\.DHCPv4\)\.MessageType(@(?:[\w$]+·)?t\d+)?\(\$1\)$`), offer)
				unspec, _ := histFact(st, "bool", regexp.MustCompile(`^\(net\.IP\)\.IsUnspecified\(\$1\.YourIPAddr\)$`))
				ac, _ := histFact(st, "bool", regexp.MustCompile(`^\(\*`+reQ(pkgDHCP4)+`\.DHCPv4\)\.AutoConfigure(@(?:[\w$]+·)?t\d+)?\(\$0\)#1$`))
				return and3(mt, unspec, ac)
			},
			Global: []string{pp + "autoconfigure.autoconfigure"}, Stop: &fa}},
			NilDrop: func(st *State) int {
				offer := k4("MessageTypeOffer")
				mt, _ := histEq(st, regexp.MustCompile(`^\(\*`+reQ(pkgDHCP4)+`\.DHCPv4\)\.MessageType(@(?:[\w$]+·)?t\d+)?\(\$1\)$`), offer)
				unspec, _ := histFact(st, "bool", regexp.MustCompile(`^\(net\.IP\)\.IsUnspecified\(\$1\.YourIPAddr\)$`))
				ac, _ := histFact(st, "bool", regexp.MustCompile(`^\(\*`+reQ(pkgDHCP4)+`\.DHCPv4\)\.AutoConfigure(@(?:[\w$]+·)?t\d+)?\(\$0\)#1$`))
				return and3(mt, unspec, not3(ac))
			}},
		{Pkg: "nbp", Fn: "nbpHandler4", RespIdx: 1, NoEmitStop: true, Rows: []optRow{
			{Name: "nbp tftp server (66)", Code: k4("OptionTFTPServerName"), Gate: func(st *State) int {
				o66, _ := histFact(st, "nil", regexp.MustCompile(`^`+reQ(pp+"nbp.opt66")+`$`))
				return and3(isReq4(k4("OptionTFTPServerName"))(st), not3(o66))
			}, Global: []string{pp + "nbp.opt66"}, Stop: &tr, ListedOrAbsent: true},
			{Name: "nbp bootfile (67)", Code: k4("OptionBootfileName"), Gate: isReq4(k4("OptionBootfileName")), Global: []string{pp + "nbp.opt67"}, Stop: &tr, ListedOrAbsent: true},
		}},
		{Pkg: "nbp", Fn: "nbpHandler6", RespIdx: 1, NoEmitStop: true, Rows: []optRow{
			{Name: "nbp bootfile url (59)", Code: k6("OptionBootfileURL"), Gate: func(st *State) int {
				v, _ := histEq(st, regexp.MustCompile(`RequestedOptions\(`+inner6+`\.Options\)\[`), k6("OptionBootfileURL"))
				m, _ := histFact(st, "bool", regexp.MustCompile(`^\(\*?`+reQ(pkgDHCP6)+`\.Message\)\.IsOptionRequested(@(?:[\w$]+·)?t\d+)?\(`+inner6+`,`+reQ(k6("OptionBootfileURL"))+`\)$`))
				return or3(v, m)
			}, Global: []string{pp + "nbp.opt59"}, Stop: &tr},
			{Name: "nbp bootfile param (60)", Code: k6("OptionBootfileParam"), Gate: func(st *State) int {
				v, _ := histEq(st, regexp.MustCompile(`RequestedOptions\(`+inner6+`\.Options\)\[`), k6("OptionBootfileParam"))
				m, _ := histFact(st, "bool", regexp.MustCompile(`^\(\*?`+reQ(pkgDHCP6)+`\.Message\)\.IsOptionRequested(@(?:[\w$]+·)?t\d+)?\(`+inner6+`,`+reQ(k6("OptionBootfileParam"))+`\)$`))
				o60, _ := histFact(st, "nil", regexp.MustCompile(`^`+reQ(pp+"nbp.opt60")+`$`))
				return and3(or3(v, m), not3(o60))
			}, Global: []string{pp + "nbp.opt60"}, Stop: &tr},
		}},
	}
	// fact: (*DHCPv4).IsOptionRequested answers true when the list is absent
	if f := c.P.Func(pkgDHCP4, "*DHCPv4", "IsOptionRequested"); f != nil {
		exits, _ := ExitsOf(c, f)
		found := false
		for _, e := range exits {
			if k, ok := e.Results[0].(*ssa.Const); ok && constStr(k) == "true" {
				if v, _ := histFact(e.St, "nil", regexp.MustCompile(`ParameterRequestList`)); v == 1 {
					found = true
				}
			}
		}
		if found {
			c.R.ok(prefix+"OPT.GATE", "codec fact IsOptionRequested(absent list)=true", "-", "-", "re-derived from the codec: (*DHCPv4).IsOptionRequested returns true when no parameter request list was sent")
		} else {
			c.R.bad(prefix+"OPT.GATE", "codec fact IsOptionRequested(absent list)=true", "-", "-", "the codec no longer answers true for an absent list; the 'requested or absent' rows of the table must be re-read")
		}
	} else {
		c.R.Fatalf("ANCHOR-UNRESOLVED: (*dhcpv4.DHCPv4).IsOptionRequested")
	}
	covered := map[*ssa.Function]bool{}
	for _, sp := range specs {
		fn := c.P.Func("plugins/"+sp.Pkg, "", sp.Fn)
		if fn == nil {
			// renamed: the only handler of that protocol in the plugin's package
			ro := FindRoots(c.P, c.R)
			cands := ro.Handlers4
			if strings.HasSuffix(sp.Fn, "6") {
				cands = ro.Handlers6
			}
			var found []*ssa.Function
			for _, h := range cands {
				if strings.HasSuffix(fnPkgPath(h), "/plugins/"+sp.Pkg) && h.Parent() == nil {
					found = append(found, h)
				}
			}
			if len(found) == 1 {
				fn = found[0]
			}
		}
		if fn == nil {
			c.R.Fatalf("ANCHOR-UNRESOLVED: plugins/%s.%s", sp.Pkg, sp.Fn)
			continue
		}
		covered[fn] = true
		checkOptionHandler(c, prefix, fn, sp)
		checkOptionGlobalsPerProtocol(c, prefix, fn, sp)
	}
	// any other built-in handler that emits options must be in the table
	ro := FindRoots(c.P, c.R)
	exempt := map[string]string{
		"plugins/serverid": "C14", "plugins/file": "C10", "plugins/range": "C02", "plugins/prefix": "C08",
	}
	for _, fn := range ro.AllHandlers() {
		if covered[fn] || isFixture(fn) {
			continue
		}
		if _, ok := exempt[shortName(fnPkgPath(fn))]; ok {
			continue
		}
		eachInstr(fn, func(in ssa.Instruction) {
			if e := emissionOf(in); e != nil {
				c.R.unk(prefix+"OPT.GATE", shortFn(fn)+" emission outside the frozen table", c.P.InstrPos(in), shortFn(fn), "a handler that is not in the option table adds an option to the reply; the table must be extended")
			}
		})
	}
}

func checkOptionHandler(c *Ctx, prefix string, fn *ssa.Function, sp optSpec) {
	c.R.Functions[shortFn(fn)] = true
	type siteRes struct {
		e         *emission
		states    int
		emptyList string
		listedRow bool
		bad       map[string]string
		row       *optRow
		code      string
	}
	sites := map[ssa.Instruction]*siteRes{}
	var order []ssa.Instruction
	eachInstr(fn, func(in ssa.Instruction) {
		if e := emissionOf(in); e != nil {
			sites[in] = &siteRes{e: e, bad: map[string]string{}}
			order = append(order, in)
		}
	})
	ex := NewExplorer(c.P, c.Pure, fn)
	respCanon := fmt.Sprintf("$%d", sp.RespIdx)
	ex.Hooks.Label = func(st *State, in ssa.Instruction) string {
		if sr, ok := sites[in]; ok && sr.row != nil {
			if st.seen["emit:"+sr.row.Name] {
				return "emit2:" + sr.row.Name
			}
			return "emit:" + sr.row.Name
		}
		return ""
	}
	setCode := func(sr *siteRes, code string) {
		sr.code = code
		for i := range sp.Rows {
			if sp.Rows[i].Code == code {
				sr.row = &sp.Rows[i]
			}
		}
		if sr.row == nil {
			sr.bad["OPT.CODE-AGREE"] = fmt.Sprintf("emits option code %s, which is not what this plugin is specified to emit (%s)", code, rowCodes(sp.Rows))
		}
	}
	// resolve code/row per site first (stateless)
	for _, in := range order {
		sr := sites[in]
		code, ok := optionCodeOf(c, sr.e.Opt, 0)
		if !ok {
			continue // a helper's parameter: resolved per path in the hook below
		}
		setCode(sr, code)
	}
	ex.Hooks.Instr = func(st *State, in ssa.Instruction) {
		sr, ok := sites[in]
		if !ok {
			return
		}
		sr.states++
		if sr.code == "" {
			if code, ok := optionCodeOf(c, ex.Resolve(st, sr.e.Opt), 0); ok {
				setCode(sr, code)
			} else {
				sr.bad["OPT.CODE-AGREE"] = "cannot derive the option code of the emitted value from the program"
			}
		}
		// receiver must be the response parameter
		rc := ex.Canon(st, sr.e.Recv).S
		if !strings.HasPrefix(rc, fmt.Sprintf("$%d", sp.RespIdx)) {
			sr.bad["OPT.GATE"] = "option is added to something other than the response: " + rc
		}
		if sr.row == nil {
			return
		}
		if g := sr.row.Gate(st); g != 1 {
			if sr.bad["OPT.GATE"] == "" {
				sr.bad["OPT.GATE"] = fmt.Sprintf("%s is emitted on a path where its entitlement condition is %s (decided: %s)", sr.row.Name, tri(g), strings.Join(shortAll(st.HistStrings()), " ∧ "))
			}
		}
		if sr.row.ListedOrAbsent {
			// (*DHCPv4).IsOptionRequested is true whenever ParameterRequestList() is nil, and the codec
			// decodes a zero-length option 55 to a nil value: a list that is present and names nothing
			// is answered like an absent one. The emission is within the specification only if the path
			// knows the list absent, or the option a member of the decoded list.
			prl := c.P.mustConst(c.R, pkgDHCP4, "OptionParameterRequestList")
			has, _ := histFact(st, "bool", regexp.MustCompile(`^\(`+reQ(pkgDHCP4)+`\.Options\)\.Has(@(?:[\w$]+·)?t\d+)?\(\$0\.Options,`+reQ(prl)+`\)$`))
			member, _ := histFact(st, "bool", regexp.MustCompile(`^\(`+reQ(pkgDHCP4)+`\.OptionCodeList\)\.Has(@(?:[\w$]+·)?t\d+)?\(\(\*`+reQ(pkgDHCP4)+`\.DHCPv4\)\.ParameterRequestList(@(?:[\w$]+·)?t\d+)?\(\$0\),`+reQ(sr.row.Code)+`\)$`))
			if or3(not3(has), member) != 1 {
				sr.emptyList = fmt.Sprintf("%s is emitted whenever IsOptionRequested is true, which includes a parameter request list that is present but empty (the codec decodes a zero-length option 55 to a nil list): such a client named no option and is answered as if it had sent no list", sr.row.Name)
			}
			sr.listedRow = true
		}
		vc := ex.Canon(st, sr.e.Opt).S
		for _, g := range sr.row.Global {
			if !strings.Contains(vc, g) {
				// the value may be built in a local literal: look through the store map
				if !valueMentions(ex, st, sr.e.Opt, g) {
					sr.bad["OPT.VALUE"] = fmt.Sprintf("emitted value does not come from the configured %s: %s", shortName(g), shortName(stripAt(vc)))
				}
			}
		}
		if !sr.e.Idempotent && inLoopCtx(st, in) {
			sr.bad["OPT.ONCE"] = fmt.Sprintf("%s via %s inside a loop: the option can be added more than once per reply", sr.row.Name, sr.e.How)
		}
		if st.seen["emit:"+sr.row.Name] && !sr.e.Idempotent {
			sr.bad["OPT.ONCE"] = fmt.Sprintf("%s can be added a second time on the same path via %s", sr.row.Name, sr.e.How)
		}
	}
	var exitBad []string
	nExit := 0
	ex.Hooks.Exit = func(st *State, in ssa.Instruction) {
		ret, ok := in.(*ssa.Return)
		if !ok || len(ret.Results) != 2 {
			return
		}
		nExit++
		// a loop that holds an emission (one iteration per requested code) must run to its end,
		// unless everything this plugin can emit has been emitted already
		for _, site := range order {
			for _, hdr := range loopsWith(site) {
				if !LeftLoopEarly(st, hdr) {
					continue
				}
				all := true
				for i := range sp.Rows {
					if !st.seen["emit:"+sp.Rows[i].Name] {
						all = false
					}
				}
				if !all && len(exitBad) < 4 {
					exitBad = append(exitBad, fmt.Sprintf("return at %s leaves the loop that examines the requested options before it ended: options requested later in the list are never considered", c.P.InstrPos(in)))
				}
			}
		}
		r0c, r1c := ex.Canon(st, ret.Results[0]).S, ex.Canon(st, ret.Results[1]).S
		r0nil := r0c == "nil"
		if n, _ := ex.NilState(st, ret.Results[0]); n == 1 {
			r0nil = true
		}
		r1known := r1c == "true" || r1c == "false"
		emitted := false
		for i := range sp.Rows {
			row := &sp.Rows[i]
			seen := st.seen["emit:"+row.Name]
			emitted = emitted || seen
			g := row.Gate(st)
			// converse: entitled clients get the option
			if g == 1 && !seen && !r0nil && len(exitBad) < 4 {
				exitBad = append(exitBad, fmt.Sprintf("return at %s without %s although the client is entitled to it", c.P.InstrPos(in), row.Name))
			}
			// "listed or absent" rows: a path may leave the option out only after it has shown the client
			// not entitled (a membership test that failed says nothing about a client that sent no list)
			if row.ListedOrAbsent && !seen && !r0nil && len(exitBad) < 4 && memberTestedOnly(st, row.Code) {
				exitBad = append(exitBad, fmt.Sprintf("return at %s without %s although the path has not shown that the client is not entitled to it (a client without a parameter request list is)", c.P.InstrPos(in), row.Name))
			}
			if seen && row.Stop != nil && (!r1known || (r1c == "true") != *row.Stop) && len(exitBad) < 4 {
				exitBad = append(exitBad, fmt.Sprintf("after emitting %s the handler returns stop=%v, want %v", row.Name, r1c, *row.Stop))
			}
		}
		if r0nil {
			// dropping is only allowed under the spec's drop condition or on decapsulation errors
			if sp.NilDrop != nil && sp.NilDrop(st) == 1 {
				return
			}
			if v, _ := histFact(st, "nil", regexp.MustCompile(`GetInnerMessage\(\$0\)#1$`)); v == 0 {
				return
			}
			if len(exitBad) < 4 {
				exitBad = append(exitBad, fmt.Sprintf("request dropped at %s outside the specified drop condition", c.P.InstrPos(in)))
			}
			return
		}
		if sp.NilDrop != nil && sp.NilDrop(st) == 1 && len(exitBad) < 4 {
			exitBad = append(exitBad, fmt.Sprintf("return at %s answers although the specified drop condition holds", c.P.InstrPos(in)))
		}
		if r0c != respCanon {
			if len(exitBad) < 4 {
				exitBad = append(exitBad, fmt.Sprintf("return at %s does not return the response it was given", c.P.InstrPos(in)))
			}
		}
		if !emitted && (!r1known || (r1c == "true") != sp.NoEmitStop) && len(exitBad) < 4 {
			if sp.Pkg != "nbp" { // nbp stops the chain whether or not it added something
				exitBad = append(exitBad, fmt.Sprintf("return at %s without emission has stop=%v, want %v", c.P.InstrPos(in), r1c, sp.NoEmitStop))
			}
		}
	}
	ex.Run()
	n := 0
	for _, in := range order {
		sr := sites[in]
		n++
		name := fmt.Sprintf("code %s", sr.code)
		if sr.row != nil {
			name = sr.row.Name
		}
		if sr.listedRow {
			key := fmt.Sprintf("%s listed or absent", name) // the row, not the function's current name
			if sr.emptyList != "" {
				c.R.bad(prefix+"OPT.EMPTY-LIST", key, c.P.InstrPos(in), shortFn(fn), sr.emptyList)
			} else {
				c.R.ok(prefix+"OPT.EMPTY-LIST", key, c.P.InstrPos(in), shortFn(fn), "emitted only when the list is known absent or the option is a member of the decoded list")
			}
		}
		for _, rule := range []string{"OPT.GATE", "OPT.CODE-AGREE", "OPT.ONCE", "OPT.VALUE"} {
			key := fmt.Sprintf("%s emit#%d %s", shortFn(fn), n, name)
			if msg := sr.bad[rule]; msg != "" {
				c.R.bad(prefix+rule, key, c.P.InstrPos(in), shortFn(fn), msg)
			} else if sr.states == 0 {
				c.R.ok(prefix+rule, key, c.P.InstrPos(in), shortFn(fn), "site not reachable on any abstract path")
			} else {
				c.R.ok(prefix+rule, key, c.P.InstrPos(in), shortFn(fn), fmt.Sprintf("holds in all %d abstract states reaching the emission (%s)", sr.states, sr.e.How))
			}
		}
	}
	// every row realised
	for i := range sp.Rows {
		found := false
		for _, in := range order {
			if sites[in].row == &sp.Rows[i] && sites[in].states > 0 {
				found = true
			}
		}
		key := fmt.Sprintf("%s row %s realised", shortFn(fn), sp.Rows[i].Name)
		if found {
			c.R.ok(prefix+"OPT.GATE", key, c.P.Pos(fn.Pos()), shortFn(fn), "an emission site with this option code is reachable")
		} else {
			c.R.bad(prefix+"OPT.GATE", key, c.P.Pos(fn.Pos()), shortFn(fn), "no reachable emission of this option: entitled clients never receive it")
		}
	}
	key := shortFn(fn) + " returns"
	if len(exitBad) > 0 {
		c.R.bad(prefix+"OPT.RETURNS", key, c.P.Pos(fn.Pos()), shortFn(fn), strings.Join(dedup(exitBad), "; "))
	} else {
		c.R.ok(prefix+"OPT.RETURNS", key, c.P.Pos(fn.Pos()), shortFn(fn), fmt.Sprintf("all %d abstract exits: entitled ⇒ emitted, stop flag and returned response as specified", nExit))
	}
	if ex.Exceeded {
		c.R.unk(prefix+"OPT.GATE", shortFn(fn)+" explore", c.P.Pos(fn.Pos()), shortFn(fn), "state budget exceeded")
	}
}

func valueMentions(ex *Explorer, st *State, v ssa.Value, g string) bool {
	// follow local literals: any tracked local whose path is rooted at an alloc reachable from v
	seen := map[ssa.Value]bool{}
	var walk func(v ssa.Value, d int) bool
	walk = func(v ssa.Value, d int) bool {
		if d > 10 || seen[v] {
			return false
		}
		seen[v] = true
		if strings.Contains(ex.Canon(st, v).S, g) {
			return true
		}
		switch x := v.(type) {
		case *ssa.MakeInterface:
			return walk(x.X, d+1)
		case *ssa.ChangeType:
			return walk(x.X, d+1)
		case *ssa.Convert:
			return walk(x.X, d+1)
		case *ssa.UnOp:
			return walk(x.X, d+1)
		case *ssa.Slice:
			return walk(x.X, d+1)
		case *ssa.Call:
			for _, a := range x.Call.Args {
				if walk(a, d+1) {
					return true
				}
			}
		case *ssa.Alloc:
			for k, ce := range st.store {
				if strings.HasPrefix(k, "new@"+x.Name()) && strings.Contains(ce.S, g) {
					return true
				}
				if strings.HasPrefix(k, "new@"+x.Name()) && ce.V != nil && walk(ce.V, d+1) {
					return true
				}
			}
		}
		return false
	}
	return walk(v, 0)
}

func rowCodes(rows []optRow) string {
	var s []string
	for _, r := range rows {
		s = append(s, r.Name+"="+r.Code)
	}
	sort.Strings(s)
	return strings.Join(s, ", ")
}

func tri(v int) string {
	switch v {
	case 1:
		return "true"
	case 0:
		return "false"
	}
	return "not decided"
}

func shortAll(xs []string) []string {
	out := make([]string, 0, len(xs))
	for _, x := range xs {
		out = append(out, shortName(stripAt(x)))
	}
	return out
}

// constReturnOf: the function (possibly a wrapper around another) returns one integer constant.
func constReturnOf(m *ssa.Function, depth int) (string, bool) {
	if depth > 3 {
		return "", false
	}
	val := ""
	for _, mb := range m.Blocks {
		mr, ok := mb.Instrs[len(mb.Instrs)-1].(*ssa.Return)
		if !ok || len(mr.Results) != 1 {
			continue
		}
		k, ok := constCode(mr.Results[0])
		if !ok {
			if call, isCall := mr.Results[0].(*ssa.Call); isCall {
				if g := call.Call.StaticCallee(); g != nil {
					k, ok = constReturnOf(g, depth+1)
				}
			}
		}
		if !ok || (val != "" && val != k) {
			return "", false
		}
		val = k
	}
	return val, val != ""
}

// checkOptionGlobalsPerProtocol: the value a DHCPv4 handler emits is configured
// by DHCPv4 setups only (and likewise for DHCPv6): a variable written from the
// other protocol's setup as well carries that section's arguments into this
// protocol's replies.
func checkOptionGlobalsPerProtocol(c *Ctx, prefix string, fn *ssa.Function, sp optSpec) {
	ro := FindRoots(c.P, c.R)
	v6 := false
	for _, h := range ro.Handlers6 {
		if h == fn {
			v6 = true
		}
	}
	_, other := ReachFirstParty(c.P, ro.Setups4)
	if !v6 {
		_, other = ReachFirstParty(c.P, ro.Setups6)
	}
	otherSet := map[*ssa.Function]bool{}
	for _, f := range other {
		otherSet[f] = true
	}
	for _, row := range sp.Rows {
		for _, gname := range row.Global {
			i := strings.LastIndex(gname, ".")
			if i < 0 {
				continue
			}
			g := c.P.Global(gname[:i], gname[i+1:])
			if g == nil {
				continue
			}
			key := fmt.Sprintf("%s configured per protocol", shortName(gname))
			bad := ""
			for _, sto := range findStores(c.P, nil, g) {
				w := closureRoot(sto.Parent())
				if w.Name() == "init" {
					continue
				}
				if otherSet[w] {
					bad = fmt.Sprintf("%s, which %s emits, is also written at %s from a setup of the other protocol (%s): that section's arguments end up in this protocol's replies", shortName(gname), shortFn(fn), c.P.InstrPos(sto), shortFn(w))
				}
			}
			if bad != "" {
				c.R.bad(prefix+"OPT.VALUE", key, c.P.Pos(g.Pos()), shortFn(fn), bad)
			} else {
				c.R.ok(prefix+"OPT.VALUE", key, c.P.Pos(g.Pos()), shortFn(fn), "written only from this protocol's setup")
			}
		}
	}
}
