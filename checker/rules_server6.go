package main

import (
	"fmt"
	"go/constant"
	"regexp"
	"sort"
	"strings"

	"golang.org/x/tools/go/ssa"
)

type h6 struct {
	fn    *ssa.Function
	ss    *siteStates
	di    *dispatchInfo
	fromB *ssa.Call
	inner *ssa.Call
}

var h6cache *h6

var v6Ctors = map[string]bool{
	pkgDHCP6 + ".NewReplyFromMessage":     true,
	pkgDHCP6 + ".NewAdvertiseFromSolicit": true,
}

func analyseHandle6(c *Ctx) *h6 {
	if h6cache != nil {
		return h6cache
	}
	fn := c.P.Func("server", "*listener6", "HandleMsg6")
	if fn == nil {
		c.R.Fatalf("ANCHOR-UNRESOLVED: HandleMsg6")
		return nil
	}
	h := &h6{fn: fn}
	eachInstr(fn, func(in ssa.Instruction) {
		if call, ok := in.(*ssa.Call); ok {
			if f := call.Call.StaticCallee(); f != nil && f.String() == pkgDHCP6+".FromBytes" {
				h.fromB = call
			}
			if call.Call.IsInvoke() && call.Call.Method.Name() == "GetInnerMessage" && h.inner == nil {
				h.inner = call
			}
		}
	})
	if h.fromB == nil || h.inner == nil {
		c.R.Fatalf("ANCHOR-UNRESOLVED: HandleMsg6 does not call dhcpv6.FromBytes / GetInnerMessage")
		return nil
	}
	h.di = findDispatch(c, fn, "handlers")
	h.ss = statesAt(c, fn, func(in ssa.Instruction) bool {
		if isSendSite(in) != "" {
			return true
		}
		if call, ok := in.(*ssa.Call); ok {
			if f := call.Call.StaticCallee(); f != nil && (v6Ctors[f.String()] || f.String() == pkgDHCP6+".NewRelayReplFromRelayForw") {
				return true
			}
		}
		return false
	}, func(st *State, in ssa.Instruction) string {
		if isSendSite(in) != "" {
			return "send"
		}
		return ""
	})
	h6cache = h
	return h
}

func v6Supported(c *Ctx) (map[string]string, []string) {
	names := []string{"MessageTypeSolicit", "MessageTypeRequest", "MessageTypeConfirm", "MessageTypeRenew", "MessageTypeRebind", "MessageTypeRelease", "MessageTypeInformationRequest"}
	m := map[string]string{}
	var vals []string
	for _, n := range names {
		v := c.P.mustConst(c.R, pkgDHCP6, n)
		m[v] = n
		vals = append(vals, v)
	}
	return m, vals
}

func ruleV6(c *Ctx, prefix string) {
	h := analyseHandle6(c)
	if h == nil {
		return
	}
	c.R.Functions[shortFn(h.fn)] = true
	ex := h.ss.Ex
	byVal, vals := v6Supported(c)
	solicit := c.P.mustConst(c.R, pkgDHCP6, "MessageTypeSolicit")
	rapid := c.P.mustConst(c.R, pkgDHCP6, "OptionRapidCommit")
	innerRe := `invoke:` + reQ(pkgDHCP6) + `\.DHCPv6\.GetInnerMessage\(` + reQ(pkgDHCP6) + `\.FromBytes@(?:[\w$]+·)?t\d+\([^)]*\)#0\)`
	typeRe := regexp.MustCompile(`^\(\*?` + reQ(pkgDHCP6) + `\.Message\)\.Type\(` + innerRe + `#0\)$`)
	rcRe := regexp.MustCompile(`^\(\*?` + reQ(pkgDHCP6) + `\.Message\)\.GetOneOption\(` + innerRe + `#0,` + reQ(rapid) + `\)$`)
	parseRe := regexp.MustCompile(`^` + reQ(pkgDHCP6) + `\.FromBytes@(?:[\w$]+·)?t\d+\([^)]*\)#1$`)
	innerErrRe := regexp.MustCompile(`^` + innerRe + `#1$`)

	// ---- TYPEMAP
	type row struct{ k, rc, ctor string }
	got := map[row]bool{}
	nctor := 0
	for _, in := range sortedInstrs(h.ss.Sites) {
		call, ok := in.(*ssa.Call)
		if !ok || isSendSite(in) != "" {
			continue
		}
		if f := call.Call.StaticCallee(); f == nil || !v6Ctors[f.String()] {
			continue
		}
		nctor++
		ctor := call.Call.StaticCallee().Name()
		key := fmt.Sprintf("%s %s#%d", shortFn(h.fn), ctor, nctor)
		bad := ""
		for _, st := range h.ss.Sites[in] {
			k, _, ok := histEqValue(st, typeRe)
			if !ok || k == "" {
				bad = "reply constructor chosen on a path where the inner message type is not decided"
				break
			}
			if !regexp.MustCompile(`^` + innerRe + `#0$`).MatchString(ex.Canon(st, call.Call.Args[0]).S) {
				bad = "reply constructor is not applied to the inner (decapsulated) message"
				break
			}
			rc := "-"
			if k == solicit {
				v, _ := histFact(st, "nil", rcRe)
				switch v {
				case 1:
					rc = "absent"
				case 0:
					rc = "present"
				default:
					bad = "SOLICIT answered without testing for Rapid Commit"
				}
			}
			got[row{k, rc, ctor}] = true
			want := "NewReplyFromMessage"
			if k == solicit && rc == "absent" {
				want = "NewAdvertiseFromSolicit"
			}
			if _, sup := byVal[k]; !sup {
				bad = fmt.Sprintf("message type %s is not in the supported set but gets a reply", k)
			} else if ctor != want {
				bad = fmt.Sprintf("%s (rapid commit %s) is answered with %s, want %s", byVal[k], rc, ctor, want)
			}
		}
		if bad != "" {
			c.R.bad(prefix+"V6.TYPEMAP", key, c.P.InstrPos(in), shortFn(h.fn), bad)
		} else {
			c.R.ok(prefix+"V6.TYPEMAP", key, c.P.InstrPos(in), shortFn(h.fn), "constructor agrees with the frozen table in every abstract state")
		}
	}
	for _, v := range vals {
		rows := []row{{v, "-", "NewReplyFromMessage"}}
		if v == solicit {
			rows = []row{{v, "present", "NewReplyFromMessage"}, {v, "absent", "NewAdvertiseFromSolicit"}}
		}
		for _, r := range rows {
			key := fmt.Sprintf("%s row %s/%s→%s realised", shortFn(h.fn), byVal[v], r.rc, r.ctor)
			if got[r] {
				c.R.ok(prefix+"V6.TYPEMAP", key, c.P.Pos(h.fn.Pos()), shortFn(h.fn), "realised")
			} else {
				c.R.bad(prefix+"V6.TYPEMAP", key, c.P.Pos(h.fn.Pos()), shortFn(h.fn), "supported message type has no reply constructor on any path")
			}
		}
	}

	// ---- RELAY: how the Relay-Reply is built (checked where it is built, in whichever function that is)
	var relayBuildBad string
	var relayBuildSt *State
	for _, in := range sortedInstrs(h.ss.Sites) {
		rc, ok := in.(*ssa.Call)
		if !ok {
			continue
		}
		if f := rc.Call.StaticCallee(); f == nil || f.String() != pkgDHCP6+".NewRelayReplFromRelayForw" {
			continue
		}
		for _, st := range h.ss.Sites[in] {
			a0 := ex.Canon(st, rc.Call.Args[0]).S
			if !regexp.MustCompile(`^`+reQ(pkgDHCP6)+`\.FromBytes@(?:[\w$]+·)?t\d+\([^)]*\)#0\.\(\*`+reQ(pkgDHCP6)+`\.RelayMessage\)$`).MatchString(a0) && relayBuildBad == "" {
				relayBuildBad, relayBuildSt = "relay reply is not built from the received Relay-Forward: "+shortName(a0), st
			}
			// second argument: the chain result asserted to *Message
			okA1 := false
			a1 := rc.Call.Args[1]
			if ph, ok := a1.(*ssa.Phi); ok {
				a1 = ex.Resolve(st, ph)
			}
			if e1, ok := a1.(*ssa.Extract); ok {
				if ta, ok := e1.Tuple.(*ssa.TypeAssert); ok && h.di != nil && h.di.ExitPhi != nil {
					okA1, _ = staticOrigins(c, h.fn, ta.X, func(v ssa.Value) bool { return v == ssa.Value(h.di.ExitPhi) })
				}
			}
			if !okA1 && relayBuildBad == "" {
				relayBuildBad, relayBuildSt = "relay reply does not enclose the chain's response", st
			}
		}
	}
	// ---- FILTER / RELAY / DEST / PIN at the send
	nsend := 0
	for _, in := range sortedInstrs(h.ss.Sites) {
		if isSendSite(in) == "" {
			continue
		}
		nsend++
		call := in.(*ssa.Call)
		res := map[string]string{}
		var bst = map[string]*State{}
		setBad := func(rule, msg string, st *State) {
			if res[rule] == "" {
				res[rule] = msg
				bst[rule] = st
			}
		}
		for _, st := range h.ss.Sites[in] {
			p, _ := histFact(st, "nil", parseRe)
			ie, _ := histFact(st, "nil", innerErrRe)
			ty := histEqIn(st, typeRe, vals)
			sv := sentValue(in)
			nn := -1
			if ns, _ := ex.NilState(st, sv); ns == 0 {
				nn = 1
			} else if ns == 1 {
				nn = 0
			}
			// constructor succeeded: some ctor call's error is nil on the path
			ck, _ := histFact(st, "nil", regexp.MustCompile(`^`+reQ(pkgDHCP6)+`\.New(ReplyFromMessage|AdvertiseFromSolicit)@(?:[\w$]+·)?t\d+\(.*\)#1$`))
			if and3(p, ie, ty, ck, nn) != 1 {
				setBad("V6.FILTER", fmt.Sprintf("send reachable with parse-ok=%d inner-ok=%d type-supported=%d reply-built=%d resp≠nil=%d", p, ie, ty, ck, nn), st)
			}
			// RELAY
			isRelay, _ := histFact(st, "bool", regexp.MustCompile(`^invoke:`+reQ(pkgDHCP6)+`\.DHCPv6\.IsRelay\(`+reQ(pkgDHCP6)+`\.FromBytes@(?:[\w$]+·)?t\d+\([^)]*\)#0\)$`))
			r := ex.ResolveDeep(st, sv)
			isReenc := false
			if e, ok := r.(*ssa.Extract); ok && e.Index == 0 {
				if rc, ok := e.Tuple.(*ssa.Call); ok {
					if f := rc.Call.StaticCallee(); f != nil && f.String() == pkgDHCP6+".NewRelayReplFromRelayForw" {
						isReenc = true
						if relayBuildBad != "" {
							setBad("V6.RELAY", relayBuildBad, relayBuildSt)
						}
					}
				}
			}
			switch isRelay {
			case 1:
				notMsg, _ := histFact(st, "bool", regexp.MustCompile(`^assert@(?:[\w$]+·)?t\d+:.*\.\(\*`+reQ(pkgDHCP6)+`\.Message\)#1$`))
				if !isReenc && notMsg != 0 {
					setBad("V6.RELAY", "a relayed request is answered without re-encapsulation in a Relay-Reply", st)
				}
			case 0:
				if isReenc {
					setBad("V6.RELAY", "a direct request is answered with a Relay-Reply", st)
				}
			default:
				setBad("V6.RELAY", "reply sent without deciding whether the request was relayed", st)
			}
			// DEST
			peer := ex.Canon(st, call.Call.Args[len(call.Call.Args)-1]).S
			if peer != "$3" {
				setBad("V6.DEST", "reply is not sent to the datagram's source address and port (peer parameter): "+shortName(peer), st)
			}
			// PIN
			LL, _ := histFact(st, "bool", regexp.MustCompile(`^\(net\.IP\)\.IsLinkLocalUnicast\(\$3\.IP\)$`))
			L, _ := histEq(st, regexp.MustCompile(`^\$0\.Interface\.Index$`), "0")
			L = not3(L)
			Onn, _ := histFact(st, "nil", regexp.MustCompile(`^\$2$`))
			Oidx, _ := histEq(st, regexp.MustCompile(`^\$2\.IfIndex$`), "0")
			O := and3(not3(Onn), not3(Oidx))
			wv := ex.ResolveDeep(st, call.Call.Args[len(call.Call.Args)-2])
			gotW := "unknown"
			if isNilConst(wv) {
				gotW = "nil"
			} else if al, ok := wv.(*ssa.Alloc); ok {
				if s, ok := st.ReadLocal("new@" + ex.vname(al) + ".IfIndex"); ok {
					gotW = s
				}
			}
			want := ""
			switch {
			case LL == 0:
				want = "nil"
			case LL == 1 && L == 1:
				want = "$0.Interface.Index"
			case LL == 1 && L == 0 && O == 1:
				want = "$2.IfIndex"
			case LL == 1 && L == 0 && O == 0:
				want = "nil"
			default:
				setBad("V6.PIN", fmt.Sprintf("interface pinning decided without testing its inputs (link-local=%d bound=%d received=%d)", LL, L, O), st)
			}
			if want != "" && gotW != want {
				setBad("V6.PIN", fmt.Sprintf("control message IfIndex is %s, want %s (link-local=%d bound=%d received=%d)", gotW, want, LL, L, O), st)
			}
		}
		oks := map[string]string{
			"V6.FILTER": "every abstract state reaching the send has parse ok ∧ inner ok ∧ supported type ∧ reply built ∧ resp ≠ nil",
			"V6.RELAY":  "relayed ⇒ NewRelayReplFromRelayForw(received relay, chain result) or the not-a-Message branch; direct ⇒ chain result unchanged",
			"V6.DEST":   "destination is the peer parameter (source address and port)",
			"V6.PIN":    "pinned to bound interface, else receiving interface, exactly for link-local peers",
		}
		rules := []string{}
		for r := range oks {
			rules = append(rules, r)
		}
		sort.Strings(rules)
		for _, r := range rules {
			o := &Obl{Rule: prefix + r, Key: fmt.Sprintf("%s WriteTo#%d", shortFn(h.fn), nsend), Pos: c.P.InstrPos(in), Fn: shortFn(h.fn)}
			if res[r] != "" {
				o.Verdict, o.Detail = Violated, res[r]
				o.Facts = append(o.Facts, fmt.Sprintf("abstract path: %v", bst[r].Trail()))
				for _, s := range bst[r].HistStrings() {
					o.Facts = append(o.Facts, "decided: "+shortName(s))
				}
			} else {
				o.Verdict, o.Detail = Discharged, fmt.Sprintf("%s (%d abstract states)", oks[r], len(h.ss.Sites[in]))
			}
			c.R.Add(o)
		}
	}
	// converse of FILTER: exits without send are justified
	bad := ""
	nex := 0
	for _, e := range h.ss.Exits {
		if e.St.seen["send"] {
			continue
		}
		nex++
		p, _ := histFact(e.St, "nil", parseRe)
		ie, _ := histFact(e.St, "nil", innerErrRe)
		ty := histEqIn(e.St, typeRe, vals)
		ck, _ := histFact(e.St, "nil", regexp.MustCompile(`^`+reQ(pkgDHCP6)+`\.New(ReplyFromMessage|AdvertiseFromSolicit)@(?:[\w$]+·)?t\d+\(.*\)#1$`))
		nn := -1
		if h.di != nil && h.di.ExitPhi != nil {
			if ns, _ := ex.NilState(e.St, h.di.ExitPhi); ns == 0 {
				nn = 1
			} else if ns == 1 {
				nn = 0
			}
			if nn == -1 {
				nn = chainResultNonNil(c, h.fn, h.di, e.St)
			}
			if nn == -1 {
				nn = chainResultNilState(c, ex, h.fn, h.di, e.St)
			}
		}
		if and3(p, ie, ty, ck, nn) == 0 {
			continue
		}
		if re, _ := histFact(e.St, "nil", regexp.MustCompile(`NewRelayReplFromRelayForw@(?:[\w$]+·)?t\d+\(.*\)#1$`)); re == 0 {
			continue // permitted drop: relay re-encapsulation failed
		}
		bad = fmt.Sprintf("return at %s without sending although no filter atom justifies a drop (parse=%d inner=%d type=%d built=%d resp≠nil=%d)", c.P.InstrPos(e.In), p, ie, ty, ck, nn)
		break
	}
	if bad != "" {
		c.R.bad(prefix+"V6.FILTER", shortFn(h.fn)+" no-send exits ⇒ ¬filter", c.P.Pos(h.fn.Pos()), shortFn(h.fn), bad)
	} else {
		c.R.ok(prefix+"V6.FILTER", shortFn(h.fn)+" no-send exits ⇒ ¬filter", c.P.Pos(h.fn.Pos()), shortFn(h.fn), fmt.Sprintf("all %d abstract no-send exits have a false filter atom (or relay re-encapsulation failed)", nex))
	}
	_ = strings.Join
}

// ruleRecvWhole: what the handler parses is the whole datagram. Serve reads
// into a buffer of at least the largest UDP payload (65507 bytes): a shorter
// buffer makes the socket layer drop the tail silently and the prefix is
// parsed as if it were the request. Decided from the constant length the
// buffer is resliced to right before the read, and from what is handed on.
func ruleRecvWhole(c *Ctx, rule string, recv string) {
	fn := c.P.Func("server", recv, "Serve")
	if fn == nil {
		c.R.Fatalf("ANCHOR-UNRESOLVED: server.(%s).Serve", recv)
		return
	}
	c.R.Functions[shortFn(fn)] = true
	n := 0
	eachInstr(fn, func(in ssa.Instruction) {
		call, ok := in.(*ssa.Call)
		if !ok {
			return
		}
		f := call.Call.StaticCallee()
		if f == nil || f.Name() != "ReadFrom" {
			return
		}
		var buf ssa.Value
		for _, a := range call.Call.Args {
			if isByteSlice(a.Type()) {
				buf = a
			}
		}
		if buf == nil {
			return
		}
		n++
		key := fmt.Sprintf("%s ReadFrom#%d", shortFn(fn), n)
		// the buffer, possibly obtained through a helper: every origin is a reslice to a constant length
		v := int64(-1)
		undecided := ""
		var walk func(x ssa.Value, d int)
		seen := map[ssa.Value]bool{}
		walk = func(x ssa.Value, d int) {
			if seen[x] || d > 8 {
				return
			}
			seen[x] = true
			switch y := x.(type) {
			case *ssa.Slice:
				k, ok := y.High.(*ssa.Const)
				if y.High == nil || !ok || k.Value == nil {
					undecided = "the receive buffer is not resliced to a constant length before the read: its size cannot be determined"
					return
				}
				n, _ := constant.Int64Val(k.Value)
				if v < 0 || n < v {
					v = n
				}
			case *ssa.Phi:
				for _, e := range y.Edges {
					walk(e, d+1)
				}
			case *ssa.Call:
				g := y.Call.StaticCallee()
				if g == nil || !FirstParty(g) || len(g.Blocks) == 0 || g.Signature.Results().Len() != 1 {
					undecided = "the receive buffer comes from " + calleeName(&y.Call) + ": its size cannot be determined"
					return
				}
				for _, b := range g.Blocks {
					if ret, ok := b.Instrs[len(b.Instrs)-1].(*ssa.Return); ok {
						walk(ret.Results[0], d+1)
					}
				}
			default:
				undecided = "the receive buffer is not resliced to a constant length before the read: its size cannot be determined"
			}
		}
		walk(buf, 0)
		if undecided != "" || v < 0 {
			if undecided == "" {
				undecided = "the receive buffer's size cannot be determined"
			}
			c.R.unk(rule, key, c.P.InstrPos(in), shortFn(fn), undecided)
			return
		}
		if v < 65507 {
			c.R.bad(rule, key, c.P.InstrPos(in), shortFn(fn), fmt.Sprintf("datagrams are read into %d bytes, less than the largest UDP payload (65507): a longer request is silently cut and its prefix is parsed as the request", v))
			return
		}
		c.R.ok(rule, key, c.P.InstrPos(in), shortFn(fn), fmt.Sprintf("read into a %d-byte buffer: no datagram is truncated", v))
	})
	if n == 0 {
		c.R.bad(rule, shortFn(fn)+" ReadFrom", c.P.Pos(fn.Pos()), shortFn(fn), "no ReadFrom call found in the receive loop")
	}
}
