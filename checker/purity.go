package main

import (
	"go/types"
	"strings"

	"golang.org/x/tools/go/ssa"
)

// Purity is a whole-program, optimistic (greatest fixpoint) side-effect
// analysis: a function is "pure" when no instruction of it (or of anything it
// statically calls) writes memory that existed before the call, performs
// channel/goroutine operations, defers, or calls through a value we cannot
// resolve. Pure calls may be identified by their canonical text (two calls
// with the same canonical arguments yield the same answer as long as the
// memory they read is not overwritten in between); impure calls are identified
// by their call instruction only.
type Purity struct {
	pure   map[*ssa.Function]bool
	prog   *Program
	invoke map[string]int // iface.method -> 1 pure, 0 impure (memo)
	impls  map[string][]*ssa.Function
}

// pureSeeds: allocation/formatting helpers whose only effects are internal
// (buffer pools); their results are only ever compared with nil or printed.
var pureSeeds = map[string]bool{
	"fmt.Errorf": true, "fmt.Sprintf": true, "fmt.Sprint": true, "fmt.Sprintln": true, "errors.New": true,
	"strconv.Itoa": true, "strconv.Atoi": true, "strconv.ParseInt": true, "strconv.ParseUint": true,
	"net.ParseIP": true, "net.ParseMAC": true, "net.ParseCIDR": true, "(net.HardwareAddr).String": true, "(net.IP).String": true,
	"(*net.IPNet).String": true, "(net.IPMask).String": true, "(*net.IPNet).Contains": true,
}

// pureNoBody: functions without Go bodies (assembly / linknamed) that are known
// not to write caller-visible memory.
func pureNoBody(fn *ssa.Function) bool {
	p := fnPkgPath(fn)
	switch p {
	case "internal/bytealg", "math", "math/bits", "internal/cpu", "unsafe":
		return true
	}
	switch fn.String() {
	case "runtime.memequal", "internal/bytealg.Equal", "bytes.Equal", "strings.EqualFold":
		return true
	}
	return false
}

// pureInvokes: interface methods treated as pure accessors (confirmed by
// reading every implementation in the dependency: they only read the receiver).
var pureInvokes = map[string]bool{
	"github.com/insomniacslk/dhcp/dhcpv6.DHCPv6.Type":            true,
	"github.com/insomniacslk/dhcp/dhcpv6.DHCPv6.IsRelay":         true,
	"github.com/insomniacslk/dhcp/dhcpv6.DHCPv6.GetInnerMessage": true,
	"github.com/insomniacslk/dhcp/dhcpv6.DHCPv6.GetOneOption":    true,
	"github.com/insomniacslk/dhcp/dhcpv6.DHCPv6.GetOption":       true,
	"github.com/insomniacslk/dhcp/dhcpv6.DHCPv6.ToBytes":         true,
	"github.com/insomniacslk/dhcp/dhcpv6.DHCPv6.String":          true,
	"github.com/insomniacslk/dhcp/dhcpv6.DHCPv6.Summary":         true,
	"github.com/insomniacslk/dhcp/dhcpv6.DUID.Equal":             true,
	"github.com/insomniacslk/dhcp/dhcpv6.DUID.ToBytes":           true,
	"github.com/insomniacslk/dhcp/dhcpv6.DUID.String":            true,
	"github.com/insomniacslk/dhcp/dhcpv6.Option.Code":            true,
	"github.com/insomniacslk/dhcp/dhcpv6.Option.ToBytes":         true,
	"github.com/insomniacslk/dhcp/dhcpv6.Option.String":          true,
	"error.Error":         true,
	"net.Addr.String":     true,
	"fmt.Stringer.String": true,
}

func invokeName(c *ssa.CallCommon) string {
	if !c.IsInvoke() {
		return ""
	}
	t := c.Value.Type()
	name := t.String()
	if n, ok := t.(*types.Named); ok && n.Obj().Pkg() != nil {
		name = n.Obj().Pkg().Path() + "." + n.Obj().Name()
	} else if n, ok := t.(*types.Named); ok {
		name = n.Obj().Name()
	}
	return name + "." + c.Method.Name()
}

func ComputePurity(p *Program) *Purity {
	// codec getters: every (*dhcpv4.DHCPv4) method except the mutators parses
	// option bytes into fresh values and writes nothing reachable from the
	// packet (read: dhcpv4/dhcpv4.go, options.go); the derivation cannot see
	// that because they fill a fresh local through a pointer receiver.
	dhcp4Mutators := map[string]bool{"UpdateOption": true, "DeleteOption": true, "SetBroadcast": true, "SetUnicast": true}
	for fn := range p.AllFunctions() {
		if r := fn.Signature.Recv(); r != nil && namedOf(r.Type()) == "github.com/insomniacslk/dhcp/dhcpv4.DHCPv4" && !dhcp4Mutators[fn.Name()] && fn.Synthetic == "" {
			pureSeeds[fn.String()] = true
		}
	}
	pu := &Purity{pure: map[*ssa.Function]bool{}, prog: p, invoke: map[string]int{}, impls: map[string][]*ssa.Function{}}
	fns := p.AllFunctions()
	for fn := range fns {
		if pureSeeds[fn.String()] {
			pu.pure[fn] = true
		} else if len(fn.Blocks) == 0 {
			pu.pure[fn] = pureNoBody(fn)
		} else {
			pu.pure[fn] = true
		}
	}
	changed := true
	for changed {
		changed = false
		for fn := range fns {
			if !pu.pure[fn] || len(fn.Blocks) == 0 || pureSeeds[fn.String()] {
				continue
			}
			if !pu.checkFn(fn) {
				pu.pure[fn] = false
				changed = true
			}
		}
	}
	return pu
}

func (pu *Purity) checkFn(fn *ssa.Function) bool {
	for _, b := range fn.Blocks {
		for _, in := range b.Instrs {
			switch x := in.(type) {
			case *ssa.Store:
				if !freshRoot(x.Addr, 0) {
					return false
				}
			case *ssa.MapUpdate:
				if !freshRoot(x.Map, 0) {
					return false
				}
			case *ssa.Send, *ssa.Go, *ssa.Select, *ssa.Defer, *ssa.RunDefers:
				return false
			case *ssa.UnOp:
				if x.Op.String() == "<-" {
					return false
				}
			case *ssa.Call:
				if !pu.callPure(&x.Call) {
					return false
				}
			}
		}
	}
	return true
}

func (pu *Purity) callPure(c *ssa.CallCommon) bool {
	if c.IsInvoke() {
		if pureInvokes[invokeName(c)] {
			return true
		}
		return pu.invokePure(c)
	}
	switch v := c.Value.(type) {
	case *ssa.Builtin:
		switch v.Name() {
		case "len", "cap", "append", "panic", "min", "max", "real", "imag", "complex", "ssa:wrapnilchk":
			return true
		case "copy":
			return freshRoot(c.Args[0], 0)
		case "delete", "clear":
			return freshRoot(c.Args[0], 0)
		}
		return false
	case *ssa.Function:
		return pu.pure[v]
	case *ssa.MakeClosure:
		if f, ok := v.Fn.(*ssa.Function); ok {
			return pu.pure[f]
		}
	}
	return false
}

// IsPureCall reports whether the call instruction may be identified by its
// canonical text.
func (pu *Purity) IsPureCall(c *ssa.CallCommon) bool { return pu.callPure(c) }

// freshRoot: the address/map/slice is rooted at an object allocated in this
// function invocation.
func freshRoot(v ssa.Value, depth int) bool {
	if depth > 12 {
		return false
	}
	switch x := v.(type) {
	case *ssa.Alloc, *ssa.MakeSlice, *ssa.MakeMap:
		return true
	case *ssa.FieldAddr:
		return freshRoot(x.X, depth+1)
	case *ssa.IndexAddr:
		return freshRoot(x.X, depth+1)
	case *ssa.Slice:
		return freshRoot(x.X, depth+1)
	case *ssa.ChangeType:
		return freshRoot(x.X, depth+1)
	case *ssa.Convert:
		return freshRoot(x.X, depth+1)
	case *ssa.Phi:
		for _, e := range x.Edges {
			if e == v {
				continue
			}
			if !freshRoot(e, depth+1) {
				return false
			}
		}
		return true
	}
	return false
}

// harmlessCallee: impure callees (I/O, allocation, clocks) that do not write
// memory the analysed code can observe through its own pointers. A call to one
// of these does not invalidate remembered facts.
func harmlessCallee(c *ssa.CallCommon) bool {
	if c.IsInvoke() {
		n := invokeName(c)
		return pureInvokes[n] || strings.HasPrefix(n, "github.com/sirupsen/logrus.")
	}
	fn := c.StaticCallee()
	if fn == nil {
		if b, ok := c.Value.(*ssa.Builtin); ok {
			switch b.Name() {
			case "len", "cap", "append", "panic", "print", "println", "min", "max":
				return true
			}
		}
		return false
	}
	pp := fnPkgPath(fn)
	switch pp {
	case "fmt", "errors", "github.com/sirupsen/logrus", "time", "strconv", "strings", "bytes",
		"math/bits", "net/url", "unicode", "unicode/utf8", "sort", "os":
		return true
	case "net":
		return true // parsers, IP/mask helpers, interface lookups: none writes through caller pointers
	case "encoding/binary":
		n := fn.Name()
		return !strings.HasPrefix(n, "Put") && !strings.HasPrefix(n, "Append") && n != "Read" && n != "Write"
	}
	return false
}

// WhyImpure explains (one level) why fn is not pure; for debugging tables.
func (pu *Purity) WhyImpure(fn *ssa.Function) string {
	if pu.pure[fn] {
		return "pure"
	}
	if len(fn.Blocks) == 0 {
		return "no body and not whitelisted"
	}
	for _, b := range fn.Blocks {
		for _, in := range b.Instrs {
			switch x := in.(type) {
			case *ssa.Store:
				if !freshRoot(x.Addr, 0) {
					return "store to non-fresh memory: " + in.String()
				}
			case *ssa.MapUpdate:
				if !freshRoot(x.Map, 0) {
					return "map update: " + in.String()
				}
			case *ssa.Send, *ssa.Go, *ssa.Select, *ssa.Defer, *ssa.RunDefers:
				return "concurrency/defer: " + in.String()
			case *ssa.Call:
				if !pu.callPure(&x.Call) {
					s := "impure call: " + in.String()
					if g := x.Call.StaticCallee(); g != nil && g != fn {
						s += " <- " + pu.WhyImpure(g)
					}
					return s
				}
			}
		}
	}
	return "unknown"
}

// invokePure: every implementation (named types of the loaded program) of the
// invoked interface method is pure. Greatest fixpoint together with checkFn.
func (pu *Purity) invokePure(c *ssa.CallCommon) bool {
	iface, ok := c.Value.Type().Underlying().(*types.Interface)
	if !ok {
		return false
	}
	name := invokeName(c)
	impls, ok := pu.impls[name]
	if !ok {
		for _, pk := range pu.prog.Prog.AllPackages() {
			for _, mem := range pk.Members {
				tn, ok := mem.(*ssa.Type)
				if !ok || types.IsInterface(tn.Type()) {
					continue
				}
				for _, t := range []types.Type{tn.Type(), types.NewPointer(tn.Type())} {
					if !types.Implements(t, iface) {
						continue
					}
					sel := pu.prog.Prog.MethodSets.MethodSet(t).Lookup(c.Method.Pkg(), c.Method.Name())
					if sel == nil {
						continue
					}
					if f := pu.prog.Prog.MethodValue(sel); f != nil {
						impls = append(impls, f)
					}
					break
				}
			}
		}
		pu.impls[name] = impls
	}
	if len(impls) == 0 {
		return false
	}
	for _, f := range impls {
		if !pu.pure[f] {
			return false
		}
	}
	return true
}
