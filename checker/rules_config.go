package main

import (
	"fmt"
	"go/token"
	"go/types"
	"regexp"
	"strings"

	"golang.org/x/tools/go/ssa"
)

// assumeEq seeds the exploration with "parameter #idx == c".
func assumeEq(idx int, c string) func(st *State) {
	return func(st *State) {
		x := fmt.Sprintf("$%d", idx)
		f := &Fact{Kind: "eq", X: x, Eq: c}
		st.live["eq:"+x] = f
		st.hist["eq:"+x] = f
	}
}

func ruleCfgAddr(c *Ctx, rule string) {
	fn := c.P.Anchor("getListenAddress") // method or plain function, whatever its current name
	if fn == nil {
		c.R.Fatalf("ANCHOR-UNRESOLVED: config.getListenAddress")
		return
	}
	c.R.Functions[shortFn(fn)] = true
	// parameters by type: the address text and the protocol version
	ai, vi := -1, -1
	for i, p := range fn.Params {
		if b, ok := p.Type().Underlying().(*types.Basic); ok && b.Kind() == types.String && ai < 0 {
			ai = i
		}
		if namedOf(p.Type()) == modPath+"/config.protocolVersion" {
			vi = i
		}
	}
	if ai < 0 || vi < 0 {
		c.R.Fatalf("ANCHOR-UNRESOLVED: config.getListenAddress(addr string, ver protocolVersion)")
		return
	}
	pa, pv := fmt.Sprintf(`\$%d`, ai), fmt.Sprintf(`\$%d`, vi)
	// the version parameter only ever receives 4 and 6
	consts, ok := paramConsts(c.P, fn, vi, 0, map[string]bool{})
	if !ok || len(consts) != 2 || !consts["4"] || !consts["6"] {
		c.R.bad(rule, "getListenAddress ver ∈ {4,6}", c.P.Pos(fn.Pos()), shortFn(fn), fmt.Sprintf("the protocol version parameter does not receive exactly the constants 4 and 6 over all call chains (%v)", consts))
	} else {
		c.R.ok(rule, "getListenAddress ver ∈ {4,6}", c.P.Pos(fn.Pos()), shortFn(fn), "constant propagation over all first-party call chains")
	}
	wantPort := map[string]string{"4": c.P.mustConst(c.R, pkgDHCP4, "ServerPort"), "6": c.P.mustConst(c.R, pkgDHCP6, "DefaultServerPort")}
	wantIP := map[string]string{"4": "net.IPv4zero", "6": "net.IPv6unspecified"}
	split := `github\.com/coredhcp/coredhcp/config\.` + an("splitHostPort") + `(@(?:[\w$]+·)?t\d+)?\(` + pa + `\)`
	for _, ver := range []string{"4", "6"} {
		ex := NewExplorer(c.P, c.Pure, fn)
		ex.Hooks.Assume = assumeEq(vi, ver)
		var bad []string
		addb := func(s string) {
			if len(bad) < 5 {
				bad = append(bad, s)
			}
		}
		nS, nE := 0, 0
		ex.Hooks.Exit = func(st *State, in ssa.Instruction) {
			ret, ok := in.(*ssa.Return)
			if !ok || len(ret.Results) != 2 {
				return
			}
			hostEmpty, _ := histEq(st, regexp.MustCompile(`^len\(`+split+`#0\)$`), "0")
			portEmpty, _ := histEq(st, regexp.MustCompile(`^len\(`+split+`#2\)$`), "0")
			splitOK, _ := histFact(st, "nil", regexp.MustCompile(`^`+split+`#3$`))
			parseNil, _ := histFact(st, "nil", regexp.MustCompile(`^net\.ParseIP\(`+split+`#0\)$`))
			to4Nil, _ := histFact(st, "nil", regexp.MustCompile(`^\(net\.IP\)\.To4\(net\.ParseIP\(`+split+`#0\)\)$`))
			atoiOK, _ := histFact(st, "nil", regexp.MustCompile(`^strconv\.Atoi\(`+split+`#2\)#1$`))
			errN, _ := ex.NilState(st, ret.Results[1])
			if v, _ := histFact(st, "nil", regexp.MustCompile(an("protoVersionCheck")+`(@(?:[\w$]+·)?t\d+)?\(`+pv+`\)$`)); v == 0 {
				return // version sanity check (dead for ver ∈ {4,6})
			}
			desc := fmt.Sprintf("ver=%s host-empty=%s port-empty=%s split-ok=%s parse-nil=%s to4-nil=%s atoi-ok=%s", ver, tri(hostEmpty), tri(portEmpty), tri(splitOK), tri(parseNil), tri(to4Nil), tri(atoiOK))
			if errN == 0 {
				nE++
				// family mismatch as the spec defines it
				mismatch := -1
				if ver == "4" {
					mismatch = to4Nil
				} else {
					mismatch = not3(to4Nil)
				}
				cause := or3(not3(splitOK), and3(not3(hostEmpty), parseNil), and3(not3(hostEmpty), mismatch), and3(not3(portEmpty), not3(atoiOK)))
				if cause != 1 {
					// defaults of the wrong family are impossible by constant identity; accept mismatch on the default path
					if hostEmpty == 1 {
						// the wildcard defaults are of the right family by constant identity; the generic
						// nil/family tests after them are abstractly two-way
						for _, k := range sortedKeys(st.hist) {
							if strings.Contains(st.hist[k].X, wantIP[ver]) {
								return
							}
						}
					}
					addb(fmt.Sprintf("error return at %s without a specified cause (%s)", c.P.InstrPos(in), desc))
				}
				return
			}
			if errN != 1 {
				addb(fmt.Sprintf("return at %s: cannot tell success from error", c.P.InstrPos(in)))
				return
			}
			nS++
			al, ok := ex.ResolveDeep(st, ret.Results[0]).(*ssa.Alloc)
			if !ok {
				addb("success return does not return a fresh net.UDPAddr")
				return
			}
			ip, _ := st.ReadLocal("new@" + anm(al) + ".IP")
			port, _ := st.ReadLocal("new@" + anm(al) + ".Port")
			zone, _ := st.ReadLocal("new@" + anm(al) + ".Zone")
			if splitOK != 1 {
				addb("address accepted although host/port splitting was not checked (" + desc + ")")
			}
			switch hostEmpty {
			case 1:
				if ip != wantIP[ver] {
					addb(fmt.Sprintf("empty host yields %s, want the wildcard %s (ver %s)", shortName(ip), wantIP[ver], ver))
				}
			case 0:
				if !regexp.MustCompile(`^net\.ParseIP\(` + split + `#0\)$`).MatchString(ip) {
					addb("listen IP is not the parsed host: " + shortName(ip))
				}
				if parseNil != 0 {
					addb("an unparseable address is accepted (ParseIP result not checked)")
				}
				if (ver == "4" && to4Nil != 0) || (ver == "6" && to4Nil != 1) {
					addb(fmt.Sprintf("address family not enforced for server%s: accepted with To4()==nil %s", ver, tri(to4Nil)))
				}
			default:
				addb("address accepted without deciding whether the host part is empty")
			}
			switch portEmpty {
			case 1:
				if port != wantPort[ver] {
					addb(fmt.Sprintf("default port for server%s is %s, want %s", ver, port, wantPort[ver]))
				}
			case 0:
				if !regexp.MustCompile(`^strconv\.Atoi\(`+split+`#2\)#0$`).MatchString(port) || atoiOK != 1 {
					addb("port is not the successfully parsed port text: " + shortName(port))
				}
			default:
				addb("address accepted without deciding whether the port part is empty")
			}
			if !regexp.MustCompile(`^` + split + `#1$`).MatchString(zone) {
				addb("zone is not the zone part of the address: " + shortName(zone))
			}
		}
		ex.Run()
		key := "getListenAddress server" + ver
		if len(bad) > 0 {
			c.R.bad(rule, key, c.P.Pos(fn.Pos()), shortFn(fn), strings.Join(dedup(bad), "; "))
		} else if nS == 0 || nE == 0 {
			c.R.bad(rule, key, c.P.Pos(fn.Pos()), shortFn(fn), "outcomes not exercised")
		} else {
			c.R.ok(rule, key, c.P.Pos(fn.Pos()), shortFn(fn), fmt.Sprintf("%d abstract success returns build (wildcard|parsed IP of the right family, default|parsed port, zone); %d error returns each have a specified cause", nS, nE))
		}
	}
}

func ruleCfgListen(c *Ctx, rule string) {
	fn := c.P.Anchor("parseListen")
	if fn == nil {
		c.R.Fatalf("ANCHOR-UNRESOLVED: config.(*Config).parseListen")
		return
	}
	c.R.Functions[shortFn(fn)] = true
	getRe := func(key string) *regexp.Regexp {
		return regexp.MustCompile(`^\(\*github\.com/spf13/viper\.Viper\)\.Get@(?:[\w$]+·)?t\d+\(\$0\.v,fmt\.Sprintf\("server%d\.` + key + `",`)
	}
	ifaceRe, listenRe := getRe("interface"), getRe("listen")
	ex := NewExplorer(c.P, c.Pure, fn)
	var bad []string
	addb := func(s string) {
		for _, x := range bad {
			if x == s {
				return
			}
		}
		if len(bad) < 6 {
			bad = append(bad, s)
		}
	}
	var appends []*ssa.Call
	var glaCall *ssa.Call
	eachInstr(fn, func(in ssa.Instruction) {
		if call, ok := in.(*ssa.Call); ok {
			if bi, ok := call.Call.Value.(*ssa.Builtin); ok && bi.Name() == "append" {
				appends = append(appends, call)
			}
			if f := call.Call.StaticCallee(); f != nil && isAnchor(f, "getListenAddress") {
				glaCall = call
			}
		}
	})
	var hdrBlk *ssa.BasicBlock
	glaAddr, glaVer := -1, -1
	if glaCall != nil {
		for h, body := range InfoOf(glaCall.Parent()).LoopOf {
			if body[glaCall.Block().Index] {
				hdrBlk = glaCall.Parent().Blocks[h]
			}
		}
		for i, p := range glaCall.Call.StaticCallee().Params {
			if b, ok := p.Type().Underlying().(*types.Basic); ok && b.Kind() == types.String && glaAddr < 0 {
				glaAddr = i
			}
			if namedOf(p.Type()) == modPath+"/config.protocolVersion" {
				glaVer = i
			}
		}
	}
	if glaCall == nil || hdrBlk == nil || glaAddr < 0 || glaVer < 0 {
		c.R.bad(rule, "parseListen address loop", c.P.Pos(fn.Pos()), shortFn(fn), "no loop calling getListenAddress per configured address")
		return
	}
	ex.Hooks.Label = func(st *State, in ssa.Instruction) string {
		for _, a := range appends {
			if in == ssa.Instruction(a) {
				if st.seen["append"] {
					return "append+"
				}
				return "append"
			}
		}
		if in == ssa.Instruction(glaCall) {
			return "gla"
		}
		return ""
	}
	nConflict, nDefault, nList, iters := 0, 0, 0, 0
	ex.Hooks.Instr = func(st *State, in ssa.Instruction) {
		if in != ssa.Instruction(glaCall) {
			return
		}
		// the address handed over is an element of the configured list (or of the one-element alias list)
		a := ex.Canon(st, glaCall.Call.Args[glaAddr]).S
		if !regexp.MustCompile(`\[` + idxRe + `\]$`).MatchString(a) {
			addb("getListenAddress is not applied to the ranged element of the address list: " + shortName(a))
		}
		if ex.Canon(st, glaCall.Call.Args[glaVer]).S != "$1" {
			addb("getListenAddress is called with a protocol version other than parseListen's")
		}
	}
	ex.Hooks.BackEdge = func(st *State, from, header *ssa.BasicBlock) {
		if header != hdrBlk {
			return
		}
		iters++
		gc := ex.Canon(st, glaCall).S
		if v, _ := histFact(st, "nil", regexp.MustCompile(`^`+reQ(gc)+`#1$`)); v != 1 {
			addb("an address that fails to parse does not abort loading (iteration continues)")
		}
		if !st.seen["append"] || st.seen["append+"] {
			addb("an iteration over the configured addresses does not append exactly once (address skipped or duplicated)")
		}
		delete(st.seen, "append")
		delete(st.seen, "append+")
		delete(st.seen, "gla")
	}
	ex.Hooks.Exit = func(st *State, in ssa.Instruction) {
		ret, ok := in.(*ssa.Return)
		if !ok || len(ret.Results) != 2 {
			return
		}
		ifaceNN, _ := histFact(st, "nil", ifaceRe)
		ifaceNN = not3(ifaceNN)
		listenNN, _ := histFact(st, "nil", listenRe)
		listenNN = not3(listenNN)
		both := and3(ifaceNN, listenNN)
		errN, _ := ex.NilState(st, ret.Results[1])
		if v, _ := histFact(st, "nil", regexp.MustCompile(an("protoVersionCheck")+`\(\$1\)$`)); v == 0 {
			return
		}
		r0 := ex.Canon(st, ret.Results[0]).S
		isDefault := regexp.MustCompile(`config(?:\.Config\))?\.` + an("defaultListen") + `(@(?:[\w$]+·)?t\d+)?\((?:\$0,)?\$1\)#0$`).MatchString(r0) // a function, or a method of the Config being parsed
		switch {
		case errN == 0 && both == 1 && !st.seen["gla"] && !st.seen["append"]:
			nConflict++
		case both != 0:
			addb(fmt.Sprintf("return at %s on a path where using both `listen` and `interface` is not excluded (interface-set=%s listen-set=%s): the conflict is not rejected", c.P.InstrPos(in), tri(ifaceNN), tri(listenNN)))
		case isDefault:
			nDefault++
			if ifaceNN != 0 || listenNN != 0 {
				addb(fmt.Sprintf("defaults are used although `listen` or `interface` is configured (interface-set=%s listen-set=%s; decided: %s)", tri(ifaceNN), tri(listenNN), strings.Join(shortAll(st.HistStrings()), " ∧ ")))
			}
		case errN == 1:
			nList++
			if or3(ifaceNN, listenNN) != 1 {
				addb("an address list is returned although neither `listen` nor `interface` is configured")
			}
			if st.seen["gla"] && !st.seen["append"] {
				addb("success return with a parsed address that was not appended")
			}
		}
	}
	ex.Run()
	// the interface alias: "%" + cast.ToString(interface)
	aliasOK := false
	eachInstr(fn, func(in ssa.Instruction) {
		if bo, ok := in.(*ssa.BinOp); ok && bo.Op.String() == "+" {
			if k, ok := bo.X.(*ssa.Const); ok && constStr(k) == `"%"` {
				if call, ok := bo.Y.(*ssa.Call); ok {
					if f := call.Call.StaticCallee(); f != nil && f.String() == "github.com/spf13/cast.ToString" {
						aliasOK = true
					}
				}
			}
		}
	})
	if !aliasOK {
		addb("`interface: X` is not turned into the listen address \"%X\"")
	}
	key := "parseListen decision"
	if len(bad) > 0 {
		c.R.bad(rule, key, c.P.Pos(fn.Pos()), shortFn(fn), strings.Join(bad, "; "))
	} else if nConflict == 0 || nDefault == 0 || nList == 0 || iters == 0 {
		c.R.bad(rule, key, c.P.Pos(fn.Pos()), shortFn(fn), fmt.Sprintf("outcomes not exercised: conflict=%d default=%d list=%d iterations=%d", nConflict, nDefault, nList, iters))
	} else {
		c.R.ok(rule, key, c.P.Pos(fn.Pos()), shortFn(fn), fmt.Sprintf("listen+interface rejected (%d exits); defaults only when neither is set (%d); otherwise one order-preserving append per configured address, parse errors abort (%d iteration states, %d list exits)", nConflict, nDefault, iters, nList))
	}
}

func ruleCfgPlugins(c *Ctx, rule string) {
	// getPlugins: nil list => error; otherwise parsePlugins(list)
	gp := c.P.Anchor("getPlugins")
	ld := c.P.Func("config", "", "Load")
	pc := c.P.Anchor("parseConfig")
	if gp == nil || ld == nil || pc == nil {
		c.R.Fatalf("ANCHOR-UNRESOLVED: config getPlugins/Load/parseConfig")
		return
	}
	for _, f := range []*ssa.Function{gp, ld, pc} {
		c.R.Functions[shortFn(f)] = true
	}
	{
		exits, _ := ExitsOf(c, gp)
		var bad []string
		nS := 0
		for _, e := range exits {
			listNil, _ := histFact(e.St, "nil", regexp.MustCompile(`^github\.com/spf13/cast\.ToSlice(@(?:[\w$]+·)?t\d+)?\(\(\*github\.com/spf13/viper\.Viper\)\.Get@(?:[\w$]+·)?t\d+\(\$0\.v,fmt\.Sprintf\("server%d\.plugins",`))
			errN, _ := e.Ex.NilState(e.St, e.Ret.Results[1])
			if v, _ := histFact(e.St, "nil", regexp.MustCompile(an("protoVersionCheck")+`\(\$1\)$`)); v == 0 {
				continue
			}
			if regexp.MustCompile(`config\.` + an("parsePlugins") + `(@(?:[\w$]+·)?t\d+)?\(.*ToSlice`).MatchString(e.Canon[0]) {
				nS++
				if listNil != 0 {
					bad = append(bad, "plugins are parsed although the `plugins` value is missing or not a list")
				}
				continue
			}
			if errN != 0 {
				bad = append(bad, fmt.Sprintf("return at %s is neither an error nor parsePlugins(list)", c.P.InstrPos(e.Ret)))
			} else if listNil != 1 {
				bad = append(bad, fmt.Sprintf("error return at %s without the plugins list being missing", c.P.InstrPos(e.Ret)))
			}
		}
		if len(bad) > 0 || nS == 0 {
			c.R.bad(rule, "getPlugins", c.P.Pos(gp.Pos()), shortFn(gp), strings.Join(dedup(append(bad, fmt.Sprintf("%d parse exits", nS))), "; "))
		} else {
			c.R.ok(rule, "getPlugins", c.P.Pos(gp.Pos()), shortFn(gp), "missing / non-list `plugins` is an error; otherwise parsePlugins(list)")
		}
	}
	{
		exits, _ := ExitsOf(c, ld)
		var bad []string
		nS, nE := 0, 0
		for _, e := range exits {
			errN, _ := e.Ex.NilState(e.St, e.Ret.Results[1])
			c0N, _ := e.Ex.NilState(e.St, e.Ret.Results[0])
			s6, _ := histFact(e.St, "nil", regexp.MustCompile(`\.Server6$`))
			s4, _ := histFact(e.St, "nil", regexp.MustCompile(`\.Server4$`))
			switch errN {
			case 1:
				nS++
				if and3(s6, s4) != 0 {
					bad = append(bad, fmt.Sprintf("Load succeeds at %s without establishing that at least one of server4/server6 is configured", c.P.InstrPos(e.Ret)))
				}
				// every parseConfig call on the path succeeded (per-iteration facts of a loop form are checked at the back edge below)
				for _, k := range sortedKeys(e.St.hist) {
					f := e.St.hist[k]
					if f.Kind == "nil" && regexp.MustCompile(an("parseConfig")+`@(?:[\w$]+·)?t\d+\(.*\)$`).MatchString(f.X) && !f.Val {
						bad = append(bad, "Load succeeds although a parseConfig call failed")
					}
				}
				if ok, _ := histFact(e.St, "nil", regexp.MustCompile(`ReadInConfig@(?:[\w$]+·)?t\d+\(`)); ok != 1 {
					bad = append(bad, "Load succeeds without the file having been read successfully")
				}
			case 0:
				nE++
				if c0N != 1 {
					bad = append(bad, fmt.Sprintf("error return at %s also returns a configuration", c.P.InstrPos(e.Ret)))
				}
			default:
				// an error value passed on from a callee is non-nil on that edge (checked by the branch fact)
				nE++
				if c0N != 1 {
					bad = append(bad, fmt.Sprintf("error return at %s also returns a configuration", c.P.InstrPos(e.Ret)))
				}
			}
		}
		// parseConfig is called for exactly the versions 6 and 4, and its error is never ignored
		if cs, ok := paramConsts(c.P, pc, 1, 0, map[string]bool{}); !ok || len(cs) != 2 || !cs["4"] || !cs["6"] {
			bad = append(bad, fmt.Sprintf("parseConfig is not called with exactly the protocol versions 4 and 6 (%v)", cs))
		}
		for _, site := range c.P.CallersOf(pc) {
			call, ok := site.(*ssa.Call)
			if !ok || site.Parent() != ld {
				continue
			}
			checked := false
			for _, r := range *call.Referrers() {
				if bo, ok := r.(*ssa.BinOp); ok && (bo.Op == token.NEQ || bo.Op == token.EQL) {
					checked = true
				}
			}
			if !checked {
				bad = append(bad, fmt.Sprintf("the error of parseConfig at %s is not examined", c.P.InstrPos(call)))
			}
		}
		if len(bad) > 0 || nS == 0 {
			c.R.bad(rule, "Load", c.P.Pos(ld.Pos()), shortFn(ld), strings.Join(dedup(bad), "; "))
		} else {
			c.R.ok(rule, "Load", c.P.Pos(ld.Pos()), shortFn(ld), fmt.Sprintf("%d success exits need a readable file, both sections parsed and at least one present; %d error exits return no configuration", nS, nE))
		}
	}
	{
		// parseConfig stores the parsed plugins and listeners of `ver` into the section of `ver`
		var bad []string
		for _, ver := range []string{"4", "6"} {
			ex := NewExplorer(c.P, c.Pure, pc)
			ex.Hooks.Assume = assumeEq(1, ver)
			stored := ""
			ex.Hooks.Label = func(st *State, in ssa.Instruction) string {
				if s, ok := in.(*ssa.Store); ok {
					if fa, ok := s.Addr.(*ssa.FieldAddr); ok && strings.HasPrefix(fieldName(fa), "Server") && ex.Canon(st, fa.X).S == "$0" {
						stored = fieldName(fa)
						if al, ok := s.Val.(*ssa.Alloc); ok {
							pl, _ := st.ReadLocal("new@" + anm(al) + ".Plugins")
							ad, _ := st.ReadLocal("new@" + anm(al) + ".Addresses")
							if !regexp.MustCompile(an("getPlugins") + `(@(?:[\w$]+·)?t\d+)?\(\$0,\$1\)#0$`).MatchString(pl) {
								bad = append(bad, "ServerConfig.Plugins is not getPlugins(ver)'s result: "+shortName(pl))
							}
							if !regexp.MustCompile(an("parseListen") + `(@(?:[\w$]+·)?t\d+)?\(\$0,\$1\)#0$`).MatchString(ad) {
								bad = append(bad, "ServerConfig.Addresses is not parseListen(ver)'s result: "+shortName(ad))
							}
						}
						return "store:" + fieldName(fa)
					}
				}
				return ""
			}
			nS := 0
			ex.Hooks.Exit = func(st *State, in ssa.Instruction) {
				ret, ok := in.(*ssa.Return)
				if !ok {
					return
				}
				if n, _ := ex.NilState(st, ret.Results[0]); n != 1 {
					return
				}
				absent, _ := histFact(st, "nil", regexp.MustCompile(`Get@(?:[\w$]+·)?t\d+\(\$0\.v,fmt\.Sprintf\("server%d",`))
				if absent == 1 {
					return
				}
				nS++
				if !st.seen["store:Server"+ver] {
					bad = append(bad, fmt.Sprintf("parseConfig(%s) succeeds for a present section without storing Server%s", ver, ver))
				}
				other := "Server4"
				if ver == "4" {
					other = "Server6"
				}
				if st.seen["store:"+other] {
					bad = append(bad, fmt.Sprintf("parseConfig(%s) stores the section into %s", ver, other))
				}
			}
			ex.Run()
			_ = stored
			if nS == 0 {
				bad = append(bad, "parseConfig("+ver+") has no successful path for a present section")
			}
		}
		if len(bad) > 0 {
			c.R.bad(rule, "parseConfig", c.P.Pos(pc.Pos()), shortFn(pc), strings.Join(dedup(bad), "; "))
		} else {
			c.R.ok(rule, "parseConfig", c.P.Pos(pc.Pos()), shortFn(pc), "a present section of version v is stored as ServerV{Plugins: getPlugins(v), Addresses: parseListen(v)}")
		}
	}
}

// funcByName finds the first-party function or method called name in the
// package whose path ends in pkgSuffix (receivers are not part of an anchor:
// turning an unused-receiver method into a function keeps the anchor).
func funcByName(p *Program, pkgSuffix, name string) *ssa.Function {
	var found *ssa.Function
	for _, fn := range p.SrcFuncs() {
		if fn.Name() == name && fn.Parent() == nil && strings.HasSuffix(fnPkgPath(fn), "/"+pkgSuffix) {
			if found != nil {
				return nil // ambiguous
			}
			found = fn
		}
	}
	return found
}

// ruleArgsImmutable: no first-party code stores into the elements of a slice
// that may be a plugin's configured argument list (config.PluginConfig.Args):
// the list handed to the setup functions is the one written in the file.
// Slices are followed through copies, parameters and helper results
// (flow-insensitive may-alias).
func ruleArgsImmutable(c *Ctx, rule string) {
	isArgs := func(t types.Type, idx int) bool {
		f := fieldOf(t, idx)
		return f != nil && f.Name() == "Args" && strings.HasSuffix(namedOf(t), "/config.PluginConfig")
	}
	n := 0
	nbad := 0
	for _, fn := range c.P.SrcFuncs() {
		if isFixture(fn) {
			continue
		}
		eachOwnInstr(fn, func(in ssa.Instruction) {
			var dst ssa.Value
			switch x := in.(type) {
			case *ssa.Store:
				if ia, ok := x.Addr.(*ssa.IndexAddr); ok {
					if _, isSlice := ia.X.Type().Underlying().(*types.Slice); isSlice {
						dst = ia.X
					}
				}
			case *ssa.Call:
				if bi, ok := x.Call.Value.(*ssa.Builtin); ok && bi.Name() == "copy" && len(x.Call.Args) > 0 {
					dst = x.Call.Args[0]
				}
			}
			if dst == nil {
				return
			}
			sl, ok := dst.Type().Underlying().(*types.Slice)
			if !ok {
				return
			}
			if b, ok := sl.Elem().Underlying().(*types.Basic); !ok || b.Kind() != types.String {
				return
			}
			n++
			for _, l := range mayLeaves(c.P, dst) {
				hit := false
				switch y := l.(type) {
				case *ssa.Field:
					hit = isArgs(y.X.Type(), y.Field)
				case *ssa.UnOp:
					if fa, ok := y.X.(*ssa.FieldAddr); ok {
						hit = isArgs(fa.X.Type(), fa.Field)
					}
				}
				if hit {
					nbad++
					c.R.bad(rule, fmt.Sprintf("%s writes plugin arguments#%d", shortFn(fn), nbad), c.P.InstrPos(in), shortFn(fn), "an element of a slice that may be a plugin's configured argument list is overwritten: the setup function no longer receives the arguments written in the file")
					return
				}
			}
		})
	}
	c.R.ok(rule, "element stores into []string", "-", "-", fmt.Sprintf("%d first-party element stores / copies into string slices examined: none may alias a PluginConfig.Args", n))
}
