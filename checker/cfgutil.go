package main

import (
	"go/constant"
	"go/token"

	"golang.org/x/tools/go/ssa"
)

// FuncInfo caches per-function CFG facts: back edges, natural loops, the
// values defined in each loop, reachability.
type FuncInfo struct {
	Fn       *ssa.Function
	BackEdge map[[2]int]bool            // (from,to) block indices
	LoopOf   map[int]map[int]bool       // header index -> set of block indices in the natural loop
	LoopDefs map[int]map[ssa.Value]bool // header index -> values defined in the loop
	InLoop   map[int]bool               // block index -> belongs to some loop
	reach    map[int]map[int]bool
}

var funcInfoCache = map[*ssa.Function]*FuncInfo{}

func InfoOf(fn *ssa.Function) *FuncInfo {
	if fi, ok := funcInfoCache[fn]; ok {
		return fi
	}
	fi := &FuncInfo{Fn: fn, BackEdge: map[[2]int]bool{}, LoopOf: map[int]map[int]bool{}, LoopDefs: map[int]map[ssa.Value]bool{}, InLoop: map[int]bool{}}
	for _, b := range fn.Blocks {
		for _, s := range b.Succs {
			if s.Dominates(b) {
				fi.BackEdge[[2]int{b.Index, s.Index}] = true
				body := fi.LoopOf[s.Index]
				if body == nil {
					body = map[int]bool{s.Index: true}
					fi.LoopOf[s.Index] = body
				}
				// natural loop: nodes that reach b without passing s
				var stack []*ssa.BasicBlock
				if !body[b.Index] {
					body[b.Index] = true
					stack = append(stack, b)
				}
				for len(stack) > 0 {
					x := stack[len(stack)-1]
					stack = stack[:len(stack)-1]
					for _, p := range x.Preds {
						if !body[p.Index] {
							body[p.Index] = true
							stack = append(stack, p)
						}
					}
				}
			}
		}
	}
	for h, body := range fi.LoopOf {
		defs := map[ssa.Value]bool{}
		for bi := range body {
			fi.InLoop[bi] = true
			for _, in := range fn.Blocks[bi].Instrs {
				if v, ok := in.(ssa.Value); ok {
					defs[v] = true
				}
			}
		}
		fi.LoopDefs[h] = defs
	}
	funcInfoCache[fn] = fi
	return fi
}

// Reaches reports whether block b is reachable from block a (a reaches itself).
func (fi *FuncInfo) Reaches(a, b *ssa.BasicBlock) bool {
	if fi.reach == nil {
		fi.reach = map[int]map[int]bool{}
	}
	r, ok := fi.reach[a.Index]
	if !ok {
		r = map[int]bool{a.Index: true}
		stack := []*ssa.BasicBlock{a}
		for len(stack) > 0 {
			x := stack[len(stack)-1]
			stack = stack[:len(stack)-1]
			for _, s := range x.Succs {
				if !r[s.Index] {
					r[s.Index] = true
					stack = append(stack, s)
				}
			}
		}
		fi.reach[a.Index] = r
	}
	return r[b.Index]
}

// instrIndex returns the index of in within its block.
func instrIndex(in ssa.Instruction) int {
	for i, x := range in.Block().Instrs {
		if x == in {
			return i
		}
	}
	return -1
}

// instrDominates reports whether a executes before b on every path to b.
func instrDominates(a, b ssa.Instruction) bool {
	if a.Block() == b.Block() {
		return instrIndex(a) < instrIndex(b)
	}
	return a.Block().Dominates(b.Block())
}

// isExitBlock: block ends in Return or Panic (or has no successors).
func isExitBlock(b *ssa.BasicBlock) bool {
	return len(b.Succs) == 0
}

// PathAvoiding reports whether there is a CFG path from instruction `from`
// (exclusive) to any function exit that does not execute any instruction for
// which stop() returns true. Used for must-pass-through checks; it is a plain
// (path-insensitive) graph search, so a "true" answer comes with a witness
// block list.
func PathAvoiding(from ssa.Instruction, stop func(ssa.Instruction) bool, isTarget func(ssa.Instruction) bool) (bool, []int) {
	type node struct {
		b *ssa.BasicBlock
		i int
	}
	start := node{from.Block(), instrIndex(from) + 1}
	seen := map[int]bool{}
	var path []int
	var dfs func(n node) bool
	dfs = func(n node) bool {
		path = append(path, n.b.Index)
		for i := n.i; i < len(n.b.Instrs); i++ {
			in := n.b.Instrs[i]
			if stop(in) {
				path = path[:len(path)-1]
				return false
			}
			if isTarget(in) {
				return true
			}
		}
		for _, s := range n.b.Succs {
			if seen[s.Index] {
				continue
			}
			seen[s.Index] = true
			if dfs(node{s, 0}) {
				return true
			}
		}
		path = path[:len(path)-1]
		return false
	}
	ok := dfs(start)
	return ok, path
}

// CountedLoop describes a `for i := a; i < B; i += k` loop recognised on SSA:
// the header ends in an If on a comparison between a header phi and a bound,
// the phi has exactly two incoming values (the initial one and itself plus a
// non-zero constant computed inside the loop), and the comparison keeps the
// loop going in the direction of the step.
type CountedLoop struct {
	Header *ssa.BasicBlock
	Index  *ssa.Phi
	Init   ssa.Value
	Step   int64
	Bound  ssa.Value
	Strict bool // i < B (or i > B) rather than <=, >=
}

func constIntOf(v ssa.Value) (int64, bool) {
	c, ok := v.(*ssa.Const)
	if !ok || c.Value == nil {
		return 0, false
	}
	if c.Value.Kind() != constant.Int {
		return 0, false
	}
	n, exact := constant.Int64Val(c.Value)
	return n, exact
}

// CountedLoopAt recognises the loop with header block index h of fn.
func CountedLoopAt(fn *ssa.Function, h int) *CountedLoop {
	info := InfoOf(fn)
	body := info.LoopOf[h]
	if body == nil {
		return nil
	}
	hb := fn.Blocks[h]
	iff, ok := hb.Instrs[len(hb.Instrs)-1].(*ssa.If)
	if !ok {
		return nil
	}
	cmp, ok := iff.Cond.(*ssa.BinOp)
	if !ok {
		return nil
	}
	stays0, stays1 := body[hb.Succs[0].Index], body[hb.Succs[1].Index]
	if stays0 == stays1 {
		return nil
	}
	op := cmp.Op
	x, y := cmp.X, cmp.Y
	if !stays0 { // loop continues on the false edge: negate
		switch op {
		case token.LSS:
			op = token.GEQ
		case token.LEQ:
			op = token.GTR
		case token.GTR:
			op = token.LEQ
		case token.GEQ:
			op = token.LSS
		default:
			return nil
		}
	}
	ph, isPhi := x.(*ssa.Phi)
	if !isPhi || ph.Block() != hb {
		// bound on the left: B > i  ==  i < B
		ph, isPhi = y.(*ssa.Phi)
		if !isPhi || ph.Block() != hb {
			return nil
		}
		x, y = y, x
		switch op {
		case token.LSS:
			op = token.GTR
		case token.LEQ:
			op = token.GEQ
		case token.GTR:
			op = token.LSS
		case token.GEQ:
			op = token.LEQ
		}
	}
	if len(ph.Edges) != 2 {
		return nil
	}
	cl := &CountedLoop{Header: hb, Index: ph, Bound: y}
	found := false
	for i, e := range ph.Edges {
		b, ok := e.(*ssa.BinOp)
		if !ok || !body[hb.Preds[i].Index] {
			continue
		}
		var k int64
		switch {
		case b.Op == token.ADD && b.X == ssa.Value(ph):
			k, ok = constIntOf(b.Y)
		case b.Op == token.ADD && b.Y == ssa.Value(ph):
			k, ok = constIntOf(b.X)
		case b.Op == token.SUB && b.X == ssa.Value(ph):
			k, ok = constIntOf(b.Y)
			k = -k
		default:
			ok = false
		}
		if !ok || k == 0 {
			return nil
		}
		cl.Step = k
		cl.Init = ph.Edges[1-i]
		if body[hb.Preds[1-i].Index] {
			return nil // both edges come from inside the loop
		}
		found = true
	}
	if !found {
		return nil
	}
	switch {
	case cl.Step > 0 && (op == token.LSS || op == token.LEQ):
		cl.Strict = op == token.LSS
	case cl.Step < 0 && (op == token.GTR || op == token.GEQ):
		cl.Strict = op == token.GTR
	default:
		return nil
	}
	return cl
}

// LoopInvariant: v is a constant or defined outside the loop with header h,
// or the length of such a value.
func LoopInvariant(fn *ssa.Function, h int, v ssa.Value) bool {
	info := InfoOf(fn)
	switch x := v.(type) {
	case *ssa.Const, *ssa.Parameter, *ssa.FreeVar, *ssa.Global:
		return true
	case *ssa.Call:
		if b, ok := x.Call.Value.(*ssa.Builtin); ok && (b.Name() == "len" || b.Name() == "cap") && info.LoopDefs[h][x] {
			return LoopInvariant(fn, h, x.Call.Args[0])
		}
	case *ssa.Convert:
		if info.LoopDefs[h][x] {
			return LoopInvariant(fn, h, x.X)
		}
	}
	return !info.LoopDefs[h][v]
}

// countedIndexPhi: v is the index variable of a counted loop that starts at a
// non-negative constant and counts upwards (so v >= 0 wherever it is used).
func countedIndexPhi(v ssa.Value) *CountedLoop {
	ph, ok := v.(*ssa.Phi)
	if !ok {
		return nil
	}
	cl := CountedLoopAt(ph.Parent(), ph.Block().Index)
	if cl == nil || cl.Index != ph || cl.Step <= 0 {
		return nil
	}
	if c, ok := constIntOf(cl.Init); !ok || c < 0 {
		return nil
	}
	return cl
}
