package main

import (
	"golang.org/x/tools/go/ssa"
)

// FuncInfo caches per-function CFG facts: back edges, natural loops, the
// values defined in each loop, reachability.
type FuncInfo struct {
	Fn        *ssa.Function
	BackEdge  map[[2]int]bool          // (from,to) block indices
	LoopOf    map[int]map[int]bool     // header index -> set of block indices in the natural loop
	LoopDefs  map[int]map[ssa.Value]bool // header index -> values defined in the loop
	InLoop    map[int]bool             // block index -> belongs to some loop
	reach     map[int]map[int]bool
}

var funcInfoCache = map[*ssa.Function]*FuncInfo{}

func InfoOf(fn *ssa.Function) *FuncInfo {
	if fi, ok := funcInfoCache[fn]; ok {
		return fi
	}
	fi := &FuncInfo{Fn: fn, BackEdge: map[[2]int]bool{}, LoopOf: map[int]map[int]bool{}, LoopDefs: map[int]map[ssa.Value]bool{}, InLoop: map[int]bool{}}
	for _, b := range fn.Blocks {
		for _, s := range b.Succs {
			if s.Dominates(b) {
				fi.BackEdge[[2]int{b.Index, s.Index}] = true
				body := fi.LoopOf[s.Index]
				if body == nil {
					body = map[int]bool{s.Index: true}
					fi.LoopOf[s.Index] = body
				}
				// natural loop: nodes that reach b without passing s
				var stack []*ssa.BasicBlock
				if !body[b.Index] {
					body[b.Index] = true
					stack = append(stack, b)
				}
				for len(stack) > 0 {
					x := stack[len(stack)-1]
					stack = stack[:len(stack)-1]
					for _, p := range x.Preds {
						if !body[p.Index] {
							body[p.Index] = true
							stack = append(stack, p)
						}
					}
				}
			}
		}
	}
	for h, body := range fi.LoopOf {
		defs := map[ssa.Value]bool{}
		for bi := range body {
			fi.InLoop[bi] = true
			for _, in := range fn.Blocks[bi].Instrs {
				if v, ok := in.(ssa.Value); ok {
					defs[v] = true
				}
			}
		}
		fi.LoopDefs[h] = defs
	}
	funcInfoCache[fn] = fi
	return fi
}

// Reaches reports whether block b is reachable from block a (a reaches itself).
func (fi *FuncInfo) Reaches(a, b *ssa.BasicBlock) bool {
	if fi.reach == nil {
		fi.reach = map[int]map[int]bool{}
	}
	r, ok := fi.reach[a.Index]
	if !ok {
		r = map[int]bool{a.Index: true}
		stack := []*ssa.BasicBlock{a}
		for len(stack) > 0 {
			x := stack[len(stack)-1]
			stack = stack[:len(stack)-1]
			for _, s := range x.Succs {
				if !r[s.Index] {
					r[s.Index] = true
					stack = append(stack, s)
				}
			}
		}
		fi.reach[a.Index] = r
	}
	return r[b.Index]
}

// instrIndex returns the index of in within its block.
func instrIndex(in ssa.Instruction) int {
	for i, x := range in.Block().Instrs {
		if x == in {
			return i
		}
	}
	return -1
}

// instrDominates reports whether a executes before b on every path to b.
func instrDominates(a, b ssa.Instruction) bool {
	if a.Block() == b.Block() {
		return instrIndex(a) < instrIndex(b)
	}
	return a.Block().Dominates(b.Block())
}

// isExitBlock: block ends in Return or Panic (or has no successors).
func isExitBlock(b *ssa.BasicBlock) bool {
	return len(b.Succs) == 0
}

// PathAvoiding reports whether there is a CFG path from instruction `from`
// (exclusive) to any function exit that does not execute any instruction for
// which stop() returns true. Used for must-pass-through checks; it is a plain
// (path-insensitive) graph search, so a "true" answer comes with a witness
// block list.
func PathAvoiding(from ssa.Instruction, stop func(ssa.Instruction) bool, isTarget func(ssa.Instruction) bool) (bool, []int) {
	type node struct {
		b *ssa.BasicBlock
		i int
	}
	start := node{from.Block(), instrIndex(from) + 1}
	seen := map[int]bool{}
	var path []int
	var dfs func(n node) bool
	dfs = func(n node) bool {
		path = append(path, n.b.Index)
		for i := n.i; i < len(n.b.Instrs); i++ {
			in := n.b.Instrs[i]
			if stop(in) {
				path = path[:len(path)-1]
				return false
			}
			if isTarget(in) {
				return true
			}
		}
		for _, s := range n.b.Succs {
			if seen[s.Index] {
				continue
			}
			seen[s.Index] = true
			if dfs(node{s, 0}) {
				return true
			}
		}
		path = path[:len(path)-1]
		return false
	}
	ok := dfs(start)
	return ok, path
}
