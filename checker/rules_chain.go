package main

import (
	"fmt"
	"regexp"
	"strings"

	"golang.org/x/tools/go/ssa"
)

// ---- CHAIN.RETNIL -------------------------------------------------------------

func ruleRetNil(c *Ctx, rule string, ro *Roots) {
	for _, fn := range ro.AllHandlers() {
		c.R.Functions[shortFn(fn)] = true
		exits, exceeded := ExitsOf(c, fn)
		if exceeded {
			c.R.unk(rule, shortFn(fn)+" explore", c.P.Pos(fn.Pos()), shortFn(fn), "state budget exceeded")
			continue
		}
		seen := map[*ssa.Return]bool{}
		nret := 0
		for _, e := range exits {
			if len(e.Results) != 2 {
				continue
			}
			if !seen[e.Ret] {
				seen[e.Ret] = true
				nret++
			}
			key := fmt.Sprintf("%s return (%s, %s)", shortFn(fn), stableKey(ex0(e.Canon[0])), stableKey(e.Canon[1]))
			o := &Obl{Rule: rule, Key: key, Pos: c.P.InstrPos(e.Ret), Fn: shortFn(fn), Fixture: isFixture(fn)}
			stopTrue := false
			if k, ok := e.Results[1].(*ssa.Const); ok && constStr(k) == "true" {
				stopTrue = true
			}
			if e.Canon[1] == "true" { // constant through an inlined helper's results
				stopTrue = true
			}
			ns, _ := e.Ex.NilState(e.St, e.Ret.Results[0])
			switch {
			case ns == 1 && stopTrue:
				o.Verdict, o.Detail = Discharged, "nil response only together with stop"
			case ns == 1 && !stopTrue:
				o.Verdict, o.Detail = Violated, "returns a nil response without signalling stop: the next handler would receive nil"
				o.Facts = append(o.Facts, fmt.Sprintf("abstract path: %v", e.St.Trail()))
			case stopTrue:
				o.Verdict, o.Detail = Discharged, "stop with a response"
			default:
				// continue: the response must be the incoming resp or a non-nil value
				if p, ok := e.Results[0].(*ssa.Parameter); (ok && p == fn.Params[len(fn.Params)-1]) || e.Canon[0] == fmt.Sprintf("$%d", len(fn.Params)-1) {
					o.Verdict, o.Detail = Discharged, "passes the incoming response on"
				} else if ns == 0 {
					o.Verdict, o.Detail = Discharged, "continues with a non-nil response"
				} else {
					o.Verdict, o.Detail = Violated, "continues (stop=false) with a response that is neither the incoming one nor shown non-nil: "+shortName(e.Canon[0])
					o.Facts = append(o.Facts, fmt.Sprintf("abstract path: %v", e.St.Trail()))
				}
			}
			c.R.Add(o)
		}
	}
}

func ex0(s string) string {
	if len(s) > 60 {
		return s[:60] + "…"
	}
	return s
}

// ---- CHAIN.LOAD -----------------------------------------------------------------

func ruleChainLoad(c *Ctx, rule string) {
	fn := c.P.Func("plugins", "", "LoadPlugins")
	if fn == nil {
		c.R.Fatalf("ANCHOR-UNRESOLVED: plugins.LoadPlugins")
		return
	}
	c.R.Functions[shortFn(fn)] = true
	type loopK struct {
		K      string
		call   *ssa.Call
		hdr    *ssa.BasicBlock // header of the loop (in the call's own function) that contains the setup call
		append *ssa.Call
	}
	inLoop := func(hdr *ssa.BasicBlock, b *ssa.BasicBlock) bool {
		return hdr != nil && hdr.Parent() == b.Parent() && InfoOf(hdr.Parent()).LoopOf[hdr.Index][b.Index]
	}
	var loops []*loopK
	eachInstr(fn, func(in ssa.Instruction) {
		call, ok := in.(*ssa.Call)
		if !ok || call.Call.IsInvoke() || call.Call.StaticCallee() != nil {
			return
		}
		if _, isB := call.Call.Value.(*ssa.Builtin); isB {
			return
		}
		if _, isParam := call.Call.Value.(*ssa.Parameter); isParam {
			return // a function-valued parameter of a helper, not a registry entry
		}
		lk := &loopK{call: call}
		if ld, ok := call.Call.Value.(*ssa.UnOp); ok {
			if fa, ok := ld.X.(*ssa.FieldAddr); ok {
				lk.K = strings.TrimPrefix(fieldName(fa), "Setup")
			}
		}
		for h, body := range InfoOf(call.Parent()).LoopOf {
			if body[call.Block().Index] {
				lk.hdr = call.Parent().Blocks[h]
			}
		}
		loops = append(loops, lk)
	})
	if len(loops) != 2 {
		c.R.bad(rule, "LoadPlugins setup calls", c.P.Pos(fn.Pos()), shortFn(fn), fmt.Sprintf("expected two setup call sites (v6, v4), found %d", len(loops)))
		return
	}
	// append sites
	eachInstr(fn, func(in ssa.Instruction) {
		if call, ok := in.(*ssa.Call); ok {
			if bi, ok := call.Call.Value.(*ssa.Builtin); ok && bi.Name() == "append" {
				for _, lk := range loops {
					if inLoop(lk.hdr, in.Block()) {
						if lk.append != nil {
							c.R.bad(rule, "LoadPlugins v"+lk.K+" appends", c.P.InstrPos(in), shortFn(fn), "more than one append in the loop body")
						}
						lk.append = call
					}
				}
			}
		}
	})
	ex := NewExplorer(c.P, c.Pure, fn)
	problems := map[string][]string{}
	addp := func(k, s string) {
		for _, x := range problems[k] {
			if x == s {
				return
			}
		}
		problems[k] = append(problems[k], s)
	}
	iterOK := map[string]int{}
	callStates := map[string]int{}
	ex.Hooks.Label = func(st *State, in ssa.Instruction) string {
		for _, lk := range loops {
			if in == ssa.Instruction(lk.call) {
				return "setup" + lk.K
			}
			if lk.append != nil && in == ssa.Instruction(lk.append) {
				if st.seen["append"+lk.K] {
					return "append" + lk.K + "+"
				}
				return "append" + lk.K
			}
		}
		return ""
	}
	ex.Hooks.Instr = func(st *State, in ssa.Instruction) {
		for _, lk := range loops {
			K := lk.K
			if in == ssa.Instruction(lk.call) {
				callStates[K]++
				callee := ex.Canon(st, lk.call.Call.Value).S
				re := regexp.MustCompile(`^lookup@(?:[\w$]+·)?t\d+\(` + reQ(modPath) + `/plugins\.RegisteredPlugins,\$0\.Server` + K + `\.Plugins\[(` + idxRe + `)\]\.Name\)#0\.Setup` + K + `$`)
				m := re.FindStringSubmatch(callee)
				if m == nil {
					addp(K, "setup function is not RegisteredPlugins[conf.Server"+K+".Plugins[i].Name].Setup"+K+": "+shortName(callee))
				} else if len(lk.call.Call.Args) != 1 || ex.Canon(st, lk.call.Call.Args[0]).S != "$0.Server"+K+".Plugins["+m[1]+"].Args" {
					addp(K, "setup arguments are not the same item's Args")
				}
				if v, _ := histFact(st, "nil", regexp.MustCompile(`^\$0\.Server`+K+`$`)); v != 0 {
					addp(K, "plugins are loaded without conf.Server"+K+" != nil being established")
				}
				if v, _ := histFact(st, "bool", regexp.MustCompile(`^lookup@(?:[\w$]+·)?t\d+\(.*RegisteredPlugins.*\)#1$`)); v != 1 {
					addp(K, "setup called although the registry lookup did not succeed")
				}
				if n, _ := ex.NilState(st, lk.call.Call.Value); n != 0 {
					addp(K, "setup function called without a non-nil guard")
				}
			}
			if lk.append != nil && in == ssa.Instruction(lk.append) {
				// appended element = result #0 of this iteration's setup call, after err == nil and h != nil
				callC := ex.Canon(st, lk.call).S
				elem := ""
				if sl, ok := lk.append.Call.Args[1].(*ssa.Slice); ok {
					if al, ok := sl.X.(*ssa.Alloc); ok {
						if e, ok := st.lookupStore("new@" + anm(al) + "[0]"); ok {
							elem = e.ce.S + e.suffix
						}
					}
				}
				if elem != callC+"#0" {
					addp(K, "the appended handler is not result #0 of the setup call of this item: "+shortName(elem))
				}
				if v, _ := histFact(st, "nil", regexp.MustCompile(`^`+reQ(callC)+`#1$`)); v != 1 {
					addp(K, "handler appended without the setup error being nil")
				}
				if v, _ := histFact(st, "nil", regexp.MustCompile(`^`+reQ(callC)+`#0$`)); v != 0 {
					addp(K, "handler appended without being checked non-nil")
				}
				ph, ok := lk.append.Call.Args[0].(*ssa.Phi)
				if !ok || ph.Block() != lk.hdr {
					addp(K, "append does not extend the running handler list")
				} else {
					for i, e := range ph.Edges {
						pred := ph.Block().Preds[i]
						if !inLoop(lk.hdr, pred) {
							continue
						}
						bad := false
						for _, leaf := range phiLeaves(e, ph) {
							if leaf != ssa.Value(lk.append) {
								bad = true
							}
						}
						if bad {
							addp(K, "the handler list is modified in the loop by something other than the append")
						}
					}
				}
			}
		}
	}
	ex.Hooks.BackEdge = func(st *State, from, header *ssa.BasicBlock) {
		for _, lk := range loops {
			if lk.hdr != header {
				continue
			}
			K := lk.K
			found, _ := histFact(st, "bool", regexp.MustCompile(`^lookup@(?:[\w$]+·)?t\d+\(.*RegisteredPlugins.*\)#1$`))
			if found != 1 {
				addp(K, "an unknown plugin name does not abort loading (iteration continues)")
			}
			called := st.seen["setup"+K]
			napp := 0
			if st.seen["append"+K] {
				napp++
			}
			if st.seen["append"+K+"+"] {
				napp++
			}
			if !called {
				if napp != 0 {
					addp(K, "a handler is appended for a plugin without a setup function")
				}
				if v, _ := histFact(st, "nil", regexp.MustCompile(`#0\.Setup`+K+`$`)); v != 1 {
					addp(K, "an item is skipped for a reason other than a nil Setup"+K)
				}
			} else {
				callC := ex.Canon(st, lk.call).S
				if v, _ := histFact(st, "nil", regexp.MustCompile(`^`+reQ(callC)+`#1$`)); v != 1 {
					addp(K, "a failing setup does not abort loading (iteration continues)")
				}
				if v, _ := histFact(st, "nil", regexp.MustCompile(`^`+reQ(callC)+`#0$`)); v != 0 {
					addp(K, "a nil handler does not abort loading")
				}
				if napp != 1 {
					addp(K, fmt.Sprintf("a successful setup appends %d handlers (want exactly 1)", napp))
				}
			}
			iterOK[K]++
			delete(st.seen, "setup"+K)
			delete(st.seen, "append"+K)
			delete(st.seen, "append"+K+"+")
		}
	}
	nSucc := 0
	ex.Hooks.Exit = func(st *State, in ssa.Instruction) {
		ret, ok := in.(*ssa.Return)
		if !ok || len(ret.Results) != 3 {
			return
		}
		if isNilConst(ex.ResolveDeep(st, ret.Results[2])) {
			nSucc++
			// result positions: handlers4 first, handlers6 second; each fed only by its loop's append
			for i, K := range []string{"4", "6"} {
				var lk *loopK
				for _, l := range loops {
					if l.K == K {
						lk = l
					}
				}
				if lk == nil {
					addp(K, "no setup loop for protocol "+K)
					continue
				}
				var accept func(v ssa.Value) bool
				accept = func(v ssa.Value) bool {
					if sl, ok := v.(*ssa.Slice); ok {
						_, isAlloc := sl.X.(*ssa.Alloc)
						return isAlloc
					}
					if _, ok := v.(*ssa.MakeSlice); ok {
						return true
					}
					if p, ok := v.(*ssa.Parameter); ok && p.Parent() != fn {
						// the accumulator parameter of a helper: judged by what the call site passes
						okAll, n := true, 0
						for _, site := range c.P.CallersOf(p.Parent()) {
							for j, q := range p.Parent().Params {
								if q == p && j < len(site.Common().Args) {
									n++
									if ok2, _ := originsWithin(site.Common().Args[j], accept); !ok2 {
										okAll = false
									}
								}
							}
						}
						return okAll && n > 0
					}
					return lk.append != nil && v == ssa.Value(lk.append)
				}
				if ok, why := originsWithin(ex.ResolveDeep(st, ret.Results[i]), accept); !ok {
					addp(K, "returned handler list has an origin other than the empty list and this protocol's append: "+why)
				}
			}
			// success: nothing of the current iteration may be pending, and each list was walked to its end
			for _, lk := range loops {
				if LeftLoopEarly(st, lk.hdr) {
					addp(lk.K, fmt.Sprintf("success is returned at %s from inside the loop over the configured plugins (the loop's own test had not failed): the plugins listed after that point are silently not loaded", c.P.InstrPos(in)))
				}
				if st.seen["setup"+lk.K] && !st.seen["append"+lk.K] {
					addp(lk.K, "success return after a setup call whose handler was not appended")
				}
			}
		}
	}
	ex.Run()
	if ex.Exceeded {
		c.R.unk(rule, "LoadPlugins explore", c.P.Pos(fn.Pos()), shortFn(fn), "state budget exceeded")
	}
	for _, lk := range loops {
		key := "LoadPlugins v" + lk.K + " loop"
		pos := c.P.InstrPos(lk.call)
		if lk.hdr == nil || !(strings.HasPrefix(lk.hdr.Comment, "rangeindex.") || CountedLoopAt(lk.hdr.Parent(), lk.hdr.Index) != nil) {
			addp(lk.K, "setup call is not inside a range (or counted) loop over the configured plugin list")
		}
		if lk.append == nil {
			addp(lk.K, "no append in the loop")
		}
		if callStates[lk.K] == 0 || iterOK[lk.K] == 0 {
			addp(lk.K, "loop body not reached by the exploration")
		}
		if len(problems[lk.K]) > 0 {
			c.R.bad(rule, key, pos, shortFn(fn), strings.Join(problems[lk.K], "; "))
		} else {
			c.R.ok(rule, key, pos, shortFn(fn), fmt.Sprintf("range over conf.Server%s.Plugins under Server%s != nil; registry miss / setup error / nil handler abort; nil Setup%s skips; exactly one order-preserving append of the setup result (%d iteration states checked)", lk.K, lk.K, lk.K, iterOK[lk.K]))
		}
	}
	if nSucc == 0 {
		c.R.bad(rule, "LoadPlugins success return", c.P.Pos(fn.Pos()), shortFn(fn), "no successful return found")
	}
}

// ---- CHAIN.PARSE-ORDER -------------------------------------------------------------

func ruleParseOrder(c *Ctx, rule string) {
	fn := c.P.Anchor("parsePlugins")
	if fn == nil {
		c.R.Fatalf("ANCHOR-UNRESOLVED: config.parsePlugins")
		return
	}
	c.R.Functions[shortFn(fn)] = true
	info := InfoOf(fn)
	var app *ssa.Call
	napp := 0
	for _, b := range fn.Blocks {
		for _, in := range b.Instrs {
			if call, ok := in.(*ssa.Call); ok {
				if bi, ok := call.Call.Value.(*ssa.Builtin); ok && bi.Name() == "append" {
					app = call
					napp++
				}
			}
		}
	}
	key := "parsePlugins"
	if napp != 1 {
		c.R.bad(rule, key, c.P.Pos(fn.Pos()), shortFn(fn), fmt.Sprintf("expected exactly one append site, found %d", napp))
		return
	}
	hdr := -1
	for h, body := range info.LoopOf {
		if body[app.Block().Index] && strings.HasPrefix(fn.Blocks[h].Comment, "rangeindex.") {
			hdr = h
		}
	}
	var probs []string
	if hdr < 0 {
		probs = append(probs, "append is not inside a range loop over the item list")
	}
	ex := NewExplorer(c.P, c.Pure, fn)
	iters := 0
	nameOK, argsOK := false, false
	ex.Hooks.Label = func(st *State, in ssa.Instruction) string {
		if in == ssa.Instruction(app) {
			if st.seen["append"] {
				return "append+"
			}
			return "append"
		}
		return ""
	}
	addp := func(s string) {
		for _, x := range probs {
			if x == s {
				return
			}
		}
		probs = append(probs, s)
	}
	ex.Hooks.Instr = func(st *State, in ssa.Instruction) {
		if in != ssa.Instruction(app) {
			return
		}
		// the ranged collection is the parameter, the item map is cast.ToStringMap(list[i]) with exactly one key
		if v, _ := histEq(st, regexp.MustCompile(`^len\(github\.com/spf13/cast\.ToStringMap(@(?:[\w$]+·)?t\d+)?\(\$0\[`+idxRe+`\]\)\)$`), "1"); v != 1 {
			addp("item appended without len(item) == 1 being established")
		}
		if v, _ := histFact(st, "nil", regexp.MustCompile(`^github\.com/spf13/cast\.ToStringMap(@(?:[\w$]+·)?t\d+)?\(\$0\[`+idxRe+`\]\)$`)); v != 0 {
			addp("item appended without the string-map conversion being checked non-nil")
		}
		if ph, ok := app.Call.Args[0].(*ssa.Phi); !ok || ph.Block().Index != hdr {
			addp("append does not extend the running list")
		}
		// appended struct: Name from the map key, Args = strings.Fields(cast.ToString(value))
		if sl, ok := app.Call.Args[1].(*ssa.Slice); ok {
			if arr, ok := sl.X.(*ssa.Alloc); ok {
				name, _ := st.ReadLocal("new@" + anm(arr) + "[0].Name")
				args, _ := st.ReadLocal("new@" + anm(arr) + "[0].Args")
				if (name == `""` || strings.HasPrefix(name, "zero:")) && (args == "nil" || strings.HasPrefix(args, "zero:")) {
					return // the (infeasible for len==1) empty-map path
				}
				mN := regexp.MustCompile(`^next@((?:[\w$]+·)?t\d+)#1$`).FindStringSubmatch(name)
				mA := regexp.MustCompile(`^strings\.Fields(@(?:[\w$]+·)?t\d+)?\(github\.com/spf13/cast\.ToString(@(?:[\w$]+·)?t\d+)?\(next@((?:[\w$]+·)?t\d+)#2\)\)$`).FindStringSubmatch(args)
				if mN != nil {
					nameOK = true
				} else {
					addp("PluginConfig.Name is " + name)
				}
				if mA != nil && mN != nil && mA[3] == mN[1] {
					argsOK = true
				} else {
					addp("PluginConfig.Args is " + args)
				}
			}
		}
	}
	ex.Hooks.BackEdge = func(st *State, from, header *ssa.BasicBlock) {
		if header.Index != hdr {
			return
		}
		iters++
		if !st.seen["append"] || st.seen["append+"] {
			addp("an iteration of the item loop does not append exactly one PluginConfig")
		}
		delete(st.seen, "append")
		delete(st.seen, "append+")
	}
	ex.Run()
	if !nameOK {
		addp("PluginConfig.Name is not the item's single key")
	}
	if !argsOK {
		addp("PluginConfig.Args is not strings.Fields(cast.ToString(value))")
	}
	if iters == 0 {
		addp("loop body not reached by the exploration")
	}
	if len(probs) > 0 {
		c.R.bad(rule, key, c.P.InstrPos(app), shortFn(fn), strings.Join(probs, "; "))
	} else {
		c.R.ok(rule, key, c.P.InstrPos(app), shortFn(fn), "one PluginConfig{Name: key, Args: Fields(value)} appended per list item, in list order, after len(item) == 1")
	}
}

// ---- CHAIN.SHARED ---------------------------------------------------------------------

func ruleChainShared(c *Ctx, rule string) {
	fn := c.P.Func("server", "", "Start")
	if fn == nil {
		c.R.Fatalf("ANCHOR-UNRESOLVED: server.Start")
		return
	}
	c.R.Functions[shortFn(fn)] = true
	n := 0
	// every store to a listener's handlers field, in Start or in a helper explored inline from it
	for _, in := range viewInstrs(fn) {
		s, ok := in.(*ssa.Store)
		if !ok {
			continue
		}
		fa, ok := s.Addr.(*ssa.FieldAddr)
		if !ok || fieldName(fa) != "handlers" {
			continue
		}
		n++
		owner := namedOf(fa.X.Type())
		wantIdx := 0
		if strings.HasSuffix(owner, "listener6") {
			wantIdx = 1
		}
		key := fmt.Sprintf("Start %s.handlers", shortName(owner))
		good, why := staticOrigins(c, fn, s.Val, func(v ssa.Value) bool {
			ex, ok := v.(*ssa.Extract)
			if !ok || ex.Index != wantIdx {
				return false
			}
			call, ok := ex.Tuple.(*ssa.Call)
			if !ok {
				return false
			}
			f := call.Call.StaticCallee()
			return f != nil && f.String() == modPath+"/plugins.LoadPlugins"
		})
		if good {
			c.R.ok(rule, key, c.P.InstrPos(in), shortFn(fn), fmt.Sprintf("every listener gets result #%d of the single LoadPlugins call", wantIdx))
		} else {
			c.R.bad(rule, key, c.P.InstrPos(in), shortFn(fn), "listener handler list is not the LoadPlugins result for its protocol: "+why)
		}
	}
	// and nowhere else in the package
	for _, g := range c.P.SrcFuncs() {
		if fnPkgPath(g) != fnPkgPath(fn) || isFixture(g) {
			continue
		}
		part := false
		for _, f := range inlineFuncs(fn) {
			if f == g {
				part = true
			}
		}
		if part {
			continue
		}
		for _, b := range g.Blocks {
			for _, in := range b.Instrs {
				if s, ok := in.(*ssa.Store); ok {
					if fa, ok := s.Addr.(*ssa.FieldAddr); ok && fieldName(fa) == "handlers" && strings.Contains(namedOf(fa.X.Type()), "/server.listener") {
						c.R.bad(rule, shortFn(g)+" handlers store", c.P.InstrPos(in), shortFn(g), "a listener's handler list is (re)assigned outside server.Start")
					}
				}
			}
		}
	}
	if n == 0 {
		c.R.bad(rule, "Start handlers stores", c.P.Pos(fn.Pos()), shortFn(fn), "no store to a listener's handlers field found")
	}
}

// phiLeaves: the non-phi values that can flow into v through (nested) phis;
// `self` (the loop-header phi being analysed) is not followed and not reported.
func phiLeaves(v ssa.Value, self *ssa.Phi) []ssa.Value {
	var out []ssa.Value
	seen := map[*ssa.Phi]bool{self: true}
	var walk func(x ssa.Value)
	walk = func(x ssa.Value) {
		if p, ok := x.(*ssa.Phi); ok {
			if seen[p] {
				return
			}
			seen[p] = true
			for _, e := range p.Edges {
				walk(e)
			}
			return
		}
		out = append(out, x)
	}
	walk(v)
	return out
}
