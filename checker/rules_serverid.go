package main

import (
	"fmt"
	"regexp"
	"strings"

	"golang.org/x/tools/go/ssa"
)

func isNilTrueReturn(e *ExitInfo) bool {
	if len(e.Results) != 2 {
		return false
	}
	k, ok := e.Results[1].(*ssa.Const)
	return isNilConst(e.Results[0]) && ok && constStr(k) == "true"
}

func ruleServerID(c *Ctx, prefix string) {
	pkgSID := modPath + "/plugins/serverid"
	h6 := c.P.Func(pkgSID, "", "Handler6")
	h4 := c.P.Func(pkgSID, "", "Handler4")
	if h6 == nil || h4 == nil {
		c.R.Fatalf("ANCHOR-UNRESOLVED: serverid.Handler4/Handler6")
		return
	}
	g6, g4 := c.P.Global(pkgSID, "v6ServerID"), c.P.Global(pkgSID, "v4ServerID")
	if g6 == nil || g4 == nil {
		c.R.Fatalf("ANCHOR-UNRESOLVED: serverid.v6ServerID/v4ServerID")
		return
	}
	c.R.Functions[shortFn(h6)] = true
	c.R.Functions[shortFn(h4)] = true
	cst := func(n string) string { return c.P.mustConst(c.R, pkgDHCP6, n) }
	noSID := []string{cst("MessageTypeSolicit"), cst("MessageTypeConfirm"), cst("MessageTypeRebind")}
	needSID := []string{cst("MessageTypeRequest"), cst("MessageTypeRenew"), cst("MessageTypeDecline"), cst("MessageTypeRelease")}

	// ---------------- V6 matrix
	{
		ex := NewExplorer(c.P, c.Pure, h6)
		innerRe := `invoke:` + reQ(pkgDHCP6) + `\.DHCPv6\.GetInnerMessage\(\$0\)`
		sidRe := regexp.MustCompile(`^\(` + reQ(pkgDHCP6) + `\.MessageOptions\)\.ServerID\(` + innerRe + `#0\.Options\)$`)
		ktRe := regexp.MustCompile(`^` + innerRe + `#0\.MessageType$`)
		eqRe := regexp.MustCompile(`^invoke:` + reQ(pkgDHCP6) + `\.DUID\.Equal\(\(` + reQ(pkgDHCP6) + `\.MessageOptions\)\.ServerID\(` + innerRe + `#0\.Options\),` + reQ(g6.String()) + `\)$`)
		innerErr := regexp.MustCompile(`^` + innerRe + `#1$`)
		uninit := regexp.MustCompile(`^` + reQ(g6.String()) + `$`)
		ex.Hooks.Label = func(st *State, in ssa.Instruction) string {
			if call, ok := in.(*ssa.Call); ok && call.Call.StaticCallee() == nil && !call.Call.IsInvoke() {
				if mk, ok := call.Call.Value.(*ssa.Call); ok {
					if f := mk.Call.StaticCallee(); f != nil && f.String() == pkgDHCP6+".WithServerID" {
						if ex.Canon(st, mk.Call.Args[0]).S == g6.String() && len(call.Call.Args) == 1 && ex.Canon(st, call.Call.Args[0]).S == "$1" {
							return "stamp6"
						}
					}
				}
			}
			return ""
		}
		nDrop, nAcc := 0, 0
		var bad []string
		addb := func(s string) {
			for _, x := range bad {
				if x == s {
					return
				}
			}
			if len(bad) < 6 {
				bad = append(bad, s)
			}
		}
		ex.Hooks.Exit = func(st *State, in ssa.Instruction) {
			ret, ok := in.(*ssa.Return)
			if !ok || len(ret.Results) != 2 {
				return
			}
			if u, _ := histFact(st, "nil", uninit); u == 1 {
				return // uninitialised plugin: PANIC(b) shows it unreachable
			}
			ie, _ := histFact(st, "nil", innerErr) // 1 = no error
			sidNil, _ := histFact(st, "nil", sidRe)
			kNo := histEqIn(st, ktRe, noSID)
			kNeed := histEqIn(st, ktRe, needSID)
			eq, _ := histFact(st, "bool", eqRe)
			D := or3(not3(ie), and3(not3(sidNil), kNo), and3(not3(sidNil), not3(eq)), and3(sidNil, kNeed))
			r0 := ex.ResolveDeep(st, ret.Results[0])
			r1, _ := ex.ResolveDeep(st, ret.Results[1]).(*ssa.Const)
			isDrop := isNilConst(r0) && r1 != nil && constStr(r1) == "true"
			desc := fmt.Sprintf("inner-ok=%d sid-absent=%d type∈{Solicit,Confirm,Rebind}=%d type∈{Request,Renew,Decline,Release}=%d sid-equal=%d", ie, sidNil, kNo, kNeed, eq)
			if isDrop {
				nDrop++
				if D != 1 {
					addb(fmt.Sprintf("message discarded at %s although RFC 8415 §16 does not require it (%s)", c.P.InstrPos(in), desc))
				}
			} else {
				nAcc++
				if D != 0 {
					addb(fmt.Sprintf("message accepted at %s although RFC 8415 §16 requires a discard or the matrix was not decided (%s)", c.P.InstrPos(in), desc))
				}
				if !st.seen["stamp6"] {
					addb(fmt.Sprintf("accepted at %s without WithServerID(v6ServerID)(resp)", c.P.InstrPos(in)))
				}
				if p, ok := r0.(*ssa.Parameter); !ok || p != h6.Params[1] || r1 == nil || constStr(r1) != "false" {
					addb(fmt.Sprintf("accept return at %s is not (resp, false)", c.P.InstrPos(in)))
				}
			}
		}
		ex.Run()
		key := "serverid.Handler6 accept/drop matrix"
		if len(bad) > 0 {
			c.R.bad(prefix+"SID.V6-MATRIX", key, c.P.Pos(h6.Pos()), shortFn(h6), strings.Join(bad, "; "))
		} else if nDrop == 0 || nAcc == 0 {
			c.R.bad(prefix+"SID.V6-MATRIX", key, c.P.Pos(h6.Pos()), shortFn(h6), fmt.Sprintf("matrix not exercised: %d drop exits, %d accept exits", nDrop, nAcc))
		} else {
			c.R.ok(prefix+"SID.V6-MATRIX", key, c.P.Pos(h6.Pos()), shortFn(h6), fmt.Sprintf("all %d drop exits and %d accept exits agree with the RFC 8415 §16 table; every accept stamps this server's DUID", nDrop, nAcc))
		}
		// WithServerID is an Update (exactly one DUID)
		ws := c.P.Func(pkgDHCP6, "", "WithServerID")
		upd := ws != nil && reachesInvoke(ws, "UpdateOption", 3) && !reachesInvoke(ws, "AddOption", 3)
		if upd {
			c.R.ok(prefix+"SID.V6-MATRIX", "codec fact WithServerID=UpdateOption", "-", "-", "re-derived: dhcpv6.WithServerID replaces any existing Server Identifier")
		} else {
			c.R.bad(prefix+"SID.V6-MATRIX", "codec fact WithServerID=UpdateOption", "-", "-", "dhcpv6.WithServerID no longer uses UpdateOption: replies could carry two DUIDs")
		}
	}

	// ---------------- V4 drop + stamp
	{
		ex := NewExplorer(c.P, c.Pure, h4)
		own := reQ(g4.String())
		siNil := regexp.MustCompile(`^\$0\.ServerIPAddr$`)
		siZero := regexp.MustCompile(`^\(net\.IP\)\.Equal\(\$0\.ServerIPAddr,net\.IPv4zero\)$`)
		siOwn := regexp.MustCompile(`^\(net\.IP\)\.Equal\((\$0\.ServerIPAddr,` + own + `|` + own + `,\$0\.ServerIPAddr)\)$`)
		o54 := `(\(\*` + reQ(pkgDHCP4) + `\.DHCPv4\)\.ServerIdentifier(@(?:[\w$]+·)?t\d+)?\(\$0\)|\(` + reQ(pkgDHCP4) + `\.Options\)\.Get(@(?:[\w$]+·)?t\d+)?\(\$0\.Options,[^)]*\)|\(\*` + reQ(pkgDHCP4) + `\.DHCPv4\)\.GetOneOption(@(?:[\w$]+·)?t\d+)?\(\$0,[^)]*\))`
		o54Nil := regexp.MustCompile(`^` + o54 + `$`)
		o54Own := regexp.MustCompile(`^(\(net\.IP\)\.Equal|bytes\.Equal)\((` + o54 + `,` + own + `|` + own + `,` + o54 + `)\)$`)
		o54Has := regexp.MustCompile(`^\(` + reQ(pkgDHCP4) + `\.Options\)\.Has(@(?:[\w$]+·)?t\d+)?\(\$0\.Options,[^)]*\)$`)
		uninit := regexp.MustCompile(`^` + own + `$`)
		boot := c.P.mustConst(c.R, pkgDHCP4, "OpcodeBootRequest")
		ex.Hooks.Label = func(st *State, in ssa.Instruction) string {
			switch x := in.(type) {
			case *ssa.Store:
				if fa, ok := x.Addr.(*ssa.FieldAddr); ok && fieldName(fa) == "ServerIPAddr" && ex.Canon(st, fa.X).S == "$1" {
					// the buffer stored may already hold the copy (filled before being attached), or be the identifier itself
					v := ex.Canon(st, x.Val).S
					if st.seen["copied:"+v] || v == g4.String() {
						st.seen["siaddr-copy"] = true
					}
					return "siaddr-store"
				}
			case *ssa.Call:
				if b, ok := x.Call.Value.(*ssa.Builtin); ok && b.Name() == "copy" {
					if strings.HasPrefix(ex.Canon(st, x.Call.Args[0]).S, "$1.ServerIPAddr") && ex.Canon(st, x.Call.Args[1]).S == g4.String() {
						return "siaddr-copy"
					}
					if ex.Canon(st, x.Call.Args[1]).S == g4.String() {
						return "copied:" + strings.TrimSuffix(ex.Canon(st, x.Call.Args[0]).S, "[:]")
					}
				}
				if f := x.Call.StaticCallee(); f != nil && f.Name() == "UpdateOption" && len(x.Call.Args) == 2 && ex.Canon(st, x.Call.Args[0]).S == "$1" {
					if oc, ok := x.Call.Args[1].(*ssa.Call); ok {
						if g := oc.Call.StaticCallee(); g != nil && g.String() == pkgDHCP4+".OptServerIdentifier" && ex.Canon(st, oc.Call.Args[0]).S == g4.String() {
							return "opt54-stamp"
						}
					}
				}
			}
			return ""
		}
		var badDrop, badStamp []string
		nAcc, nDrop := 0, 0
		ex.Hooks.Exit = func(st *State, in ssa.Instruction) {
			ret, ok := in.(*ssa.Return)
			if !ok || len(ret.Results) != 2 {
				return
			}
			if u, _ := histFact(st, "nil", uninit); u == 1 {
				return
			}
			if v, _ := histEq(st, regexp.MustCompile(`^\$0\.OpCode$`), boot); v == 0 {
				return // not a request: passed through untouched
			}
			sN, _ := histFact(st, "nil", siNil)
			sZ, _ := histFact(st, "bool", siZero)
			sO, _ := histFact(st, "bool", siOwn)
			oN, _ := histFact(st, "nil", o54Nil)
			oO, _ := histFact(st, "bool", o54Own)
			oH, _ := histFact(st, "bool", o54Has)
			siOK := or3(sN, sZ, sO)
			o54OK := or3(oN, oO)
			if oH != -1 {
				o54OK = or3(oN, oO, not3(oH))
			}
			r0 := ex.ResolveDeep(st, ret.Results[0])
			if isNilConst(r0) {
				nDrop++
				if or3(not3(siOK), not3(o54OK)) != 1 {
					if len(badDrop) < 3 {
						badDrop = append(badDrop, fmt.Sprintf("request discarded at %s although neither siaddr nor option 54 names another server (siaddr-ok=%d opt54-ok=%d)", c.P.InstrPos(in), siOK, o54OK))
					}
				}
				return
			}
			nAcc++
			if siOK != 1 {
				if len(badDrop) < 3 {
					badDrop = append(badDrop, fmt.Sprintf("request accepted at %s without establishing siaddr ∈ {unset, 0.0.0.0, this server}", c.P.InstrPos(in)))
				}
			}
			if o54OK != 1 {
				if len(badDrop) < 3 {
					badDrop = append(badDrop, fmt.Sprintf("request accepted at %s without examining the server-identifier option (54): a client that selected another server via option 54 (siaddr 0) is answered", c.P.InstrPos(in)))
				}
			}
			for _, l := range []string{"siaddr-store", "siaddr-copy", "opt54-stamp"} {
				if !st.seen[l] && len(badStamp) < 3 {
					badStamp = append(badStamp, fmt.Sprintf("accept return at %s not preceded by %s", c.P.InstrPos(in), l))
				}
			}
		}
		ex.Run()
		key := "serverid.Handler4 drop decision"
		if len(badDrop) > 0 {
			c.R.bad(prefix+"SID.V4-DROP", key, c.P.Pos(h4.Pos()), shortFn(h4), strings.Join(dedup(badDrop), "; "))
		} else if nAcc == 0 || nDrop == 0 {
			c.R.bad(prefix+"SID.V4-DROP", key, c.P.Pos(h4.Pos()), shortFn(h4), "decision not exercised")
		} else {
			c.R.ok(prefix+"SID.V4-DROP", key, c.P.Pos(h4.Pos()), shortFn(h4), fmt.Sprintf("%d accept exits establish siaddr ∈ {unset,0,own} ∧ option 54 ∈ {absent,own}; %d drop exits name another server", nAcc, nDrop))
		}
		key = "serverid.Handler4 stamp"
		if len(badStamp) > 0 {
			c.R.bad(prefix+"SID.V4-STAMP", key, c.P.Pos(h4.Pos()), shortFn(h4), strings.Join(dedup(badStamp), "; "))
		} else {
			c.R.ok(prefix+"SID.V4-STAMP", key, c.P.Pos(h4.Pos()), shortFn(h4), "every accept path sets siaddr to a copy of v4ServerID and UpdateOption(OptServerIdentifier(v4ServerID))")
		}
	}
}

func dedup(xs []string) []string {
	seen := map[string]bool{}
	var out []string
	for _, x := range xs {
		if !seen[x] {
			seen[x] = true
			out = append(out, x)
		}
	}
	return out
}

// ruleSIDInit: identifiers are initialised on every successful setup; the v4
// identifier is stored in its 4-byte form.
func ruleSIDInit(c *Ctx, rule string, ro *Roots) {
	pkgSID := modPath + "/plugins/serverid"
	for _, hn := range []struct{ h, g string }{{"Handler6", "v6ServerID"}, {"Handler4", "v4ServerID"}} {
		h := c.P.Func(pkgSID, "", hn.h)
		g := c.P.Global(pkgSID, hn.g)
		if h == nil || g == nil {
			c.R.Fatalf("ANCHOR-UNRESOLVED: serverid.%s / %s", hn.h, hn.g)
			continue
		}
		ok, why := initBeforeUse(c, h, g, ro)
		if ok {
			c.R.ok(rule, "serverid."+hn.g+" initialised", c.P.Pos(h.Pos()), shortFn(h), why)
		} else {
			c.R.bad(rule, "serverid."+hn.g+" initialised", c.P.Pos(h.Pos()), shortFn(h), why)
		}
	}
	g4 := c.P.Global(pkgSID, "v4ServerID")
	for _, s := range findStores(c.P, nil, g4) {
		key := "serverid.v4ServerID stored as To4()"
		if call, ok := s.Val.(*ssa.Call); ok {
			if f := call.Call.StaticCallee(); f != nil && f.String() == "(net.IP).To4" {
				c.R.ok(rule, key, c.P.InstrPos(s), shortFn(s.Parent()), "4-byte form: the copy into the 4-byte siaddr buffer is complete")
				continue
			}
		}
		c.R.bad(rule, key, c.P.InstrPos(s), shortFn(s.Parent()), "v4ServerID is stored in a form that is not known to be 4 bytes; copy(resp.ServerIPAddr, v4ServerID) would truncate a 16-byte form")
	}
}

// reachesInvoke: fn, its closures or its static callees (to the given depth)
// invoke an interface method with this name.
func reachesInvoke(fn *ssa.Function, method string, depth int) bool {
	if fn == nil || depth < 0 {
		return false
	}
	for _, b := range fn.Blocks {
		for _, in := range b.Instrs {
			if call, ok := in.(ssa.CallInstruction); ok {
				cc := call.Common()
				if cc.IsInvoke() && cc.Method.Name() == method {
					return true
				}
				if g := cc.StaticCallee(); g != nil && g != fn && reachesInvoke(g, method, depth-1) {
					return true
				}
			}
		}
	}
	for _, a := range fn.AnonFuncs {
		if reachesInvoke(a, method, depth-1) {
			return true
		}
	}
	return false
}

// ruleSIDOwner: the server identity of a reply (DHCPv4 siaddr and option 54,
// DHCPv6 Server Identifier option) is written by the server_id plugin only.
// Any other first-party writer can leave a reply whose two identifiers
// disagree or name another machine, whatever its position in the chain.
func ruleSIDOwner(c *Ctx, rule string) {
	pkgSID := modPath + "/plugins/serverid"
	n := 0
	for _, fn := range c.P.SrcFuncs() {
		if isFixture(fn) {
			continue
		}
		own := closureRoot(fn).Pkg != nil && closureRoot(fn).Pkg.Pkg.Path() == pkgSID
		for _, b := range fn.Blocks {
			for _, in := range b.Instrs {
				what := ""
				switch x := in.(type) {
				case *ssa.Store:
					if fa, ok := x.Addr.(*ssa.FieldAddr); ok && namedOf(fa.X.Type()) == pkgDHCP4+".DHCPv4" && fieldName(fa) == "ServerIPAddr" {
						if _, fresh := fa.X.(*ssa.Alloc); !fresh {
							what = "the siaddr field of a DHCPv4 packet"
						}
					}
				case *ssa.Call:
					if f := x.Call.StaticCallee(); f != nil {
						switch f.String() {
						case pkgDHCP4 + ".OptServerIdentifier":
							what = "a DHCPv4 server identifier option (54)"
						case pkgDHCP6 + ".OptServerID":
							what = "a DHCPv6 Server Identifier option"
						}
					}
				}
				if what == "" {
					continue
				}
				n++
				key := fmt.Sprintf("%s writes server identity#%d", shortFn(fn), n)
				if own {
					c.R.ok(rule, key, c.P.InstrPos(in), shortFn(fn), what+" is built by the server_id plugin")
				} else {
					c.R.bad(rule, key, c.P.InstrPos(in), shortFn(fn), what+" is written outside the server_id plugin: a reply can leave with an identity other than (or inconsistent with) this server's")
				}
			}
		}
	}
	if n == 0 {
		c.R.bad(rule, "server identity writers", "-", "-", "no first-party code writes the server identity: shape not recognised")
	}
}

// ruleSIDDuidAddr: the link-layer address of the DUID this server announces is
// the hardware address parsed from the configuration itself (net.ParseMAC's
// result, whatever its length: 6, 8 or 20 octets), not a copy into a
// fixed-size buffer or a reslice of it.
func ruleSIDDuidAddr(c *Ctx, rule string) {
	n := 0
	for _, fn := range c.P.SrcFuncs() {
		if isFixture(fn) || closureRoot(fn).Pkg == nil || !strings.HasSuffix(closureRoot(fn).Pkg.Pkg.Path(), "/plugins/serverid") {
			continue
		}
		eachOwnInstr(fn, func(in ssa.Instruction) {
			sto, ok := in.(*ssa.Store)
			if !ok {
				return
			}
			fa, ok := sto.Addr.(*ssa.FieldAddr)
			if !ok || fieldName(fa) != "LinkLayerAddr" || !strings.HasPrefix(namedOf(fa.X.Type()), pkgDHCP6+".DUID") {
				return
			}
			n++
			key := fmt.Sprintf("%s DUID link-layer address#%d", shortFn(fn), n)
			isParsed := func(v ssa.Value) bool {
				e, ok := v.(*ssa.Extract)
				if !ok || e.Index != 0 {
					return false
				}
				call, ok := e.Tuple.(*ssa.Call)
				return ok && call.Call.StaticCallee() != nil && call.Call.StaticCallee().String() == "net.ParseMAC"
			}
			// judged from the functions that explore this one inline (the literal may sit in a helper
			// that receives the parsed address as a parameter)
			ok2, why := true, ""
			for _, root := range explorationRoots(c, closureRoot(fn)) {
				if o, w := staticOrigins(c, root, sto.Val, isParsed); !o {
					ok2, why = false, w
				}
			}
			if ok2 {
				c.R.ok(rule, key, c.P.InstrPos(in), shortFn(fn), "the configured hardware address as parsed")
			} else {
				c.R.bad(rule, key, c.P.InstrPos(in), shortFn(fn), "the DUID's link-layer address is not net.ParseMAC's result itself ("+shortName(why)+"): an 8- or 20-octet address would be announced (and matched) in another form than configured")
			}
		})
	}
	if n == 0 {
		c.R.bad(rule, "DUID link-layer address", "-", "-", "no DUID literal with a link-layer address found in the server_id plugin")
	}
}
