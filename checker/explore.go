package main

import (
	"fmt"
	"go/constant"
	"go/token"
	"go/types"
	"os"
	"sort"
	"strconv"
	"strings"
	"time"

	"golang.org/x/tools/go/ssa"
)

// Fact is the remembered outcome of a branch condition ("atom").
type Fact struct {
	Kind  string // "bool", "nil", "lt", "eqv" (x==y, both non-const), "eq" (family: X == const)
	X, Y  string
	Val   bool     // for bool/nil/lt/eqv
	Eq    string   // for eq family: known constant ("" if only exclusions known)
	Ne    []string // for eq family: excluded constants (sorted)
	In    []string // for eq family: X is one of these constants (sorted; set by membership tests in constant tables)
	Deps  map[ssa.Value]bool
	Reads []memRead
	At    ssa.Instruction // instruction (If) that established it
	Held  []string        // mutexes held when the fact was established
	Epoch int             // critical-section counter at that time
}

func (f *Fact) String() string {
	switch f.Kind {
	case "eq":
		if f.Eq != "" {
			return fmt.Sprintf("%s == %s", f.X, f.Eq)
		}
		if len(f.In) > 0 {
			return fmt.Sprintf("%s ∈ {%s}", f.X, strings.Join(f.In, ","))
		}
		return fmt.Sprintf("%s ∉ {%s}", f.X, strings.Join(f.Ne, ","))
	case "nil":
		if f.Val {
			return f.X + " == nil"
		}
		return f.X + " != nil"
	case "lt":
		if f.Val {
			return f.X + " < " + f.Y
		}
		return f.X + " >= " + f.Y
	case "eqv":
		if f.Val {
			return f.X + " == " + f.Y
		}
		return f.X + " != " + f.Y
	}
	if f.Val {
		return f.X
	}
	return "!" + f.X
}

func (f *Fact) ident() string {
	switch f.Kind {
	case "eq":
		if f.Eq != "" {
			return "=" + f.Eq
		}
		if len(f.In) > 0 {
			return "∈" + strings.Join(f.In, ",")
		}
		return "≠" + strings.Join(f.Ne, ",")
	}
	if f.Val {
		return "T"
	}
	return "F"
}

type storeEnt struct {
	ce     *CE
	suffix string // set by lookupStore when a prefix matched
}

type heldLock struct {
	Key  string // canonical location of the mutex
	Mode byte   // 'W' or 'R'
	At   ssa.Instruction
}

// frame is one inlined call on the abstract path.
type frame struct {
	call     *ssa.Call
	fn       *ssa.Function
	closure  *ssa.MakeClosure // when the callee is a closure: its bindings give the free variables
	params   []*CE
	retBlk   *ssa.BasicBlock
	retIdx   int
	retPred  *ssa.BasicBlock
	deferred []*ssa.Defer // the caller's pending defers
}

// State is one node of the partitioned control-flow exploration.
type State struct {
	blk      *ssa.BasicBlock
	idx      int // instruction index to resume at (after an inlined call returned)
	frames   []*frame
	callres  map[*ssa.Call][]*CE
	callatom map[*ssa.Call][]*Atom // decoded boolean results of inlined calls (in callee context)
	pred     *ssa.BasicBlock
	live     map[string]*Fact // facts still valid (re-evaluation, nil checks)
	hist     map[string]*Fact // decisions taken on the path (never killed by effects)
	phis     map[*ssa.Phi]int
	store    map[string]*CE
	held     []heldLock
	deferred []*ssa.Defer
	seen     map[string]bool
	parent   *State
	epoch    int // incremented at every Unlock (critical-section identity)
}

func (s *State) clone() *State {
	n := &State{blk: s.blk, idx: s.idx, pred: s.pred, parent: s, epoch: s.epoch}
	n.frames = append([]*frame(nil), s.frames...)
	n.callres = make(map[*ssa.Call][]*CE, len(s.callres))
	for k, v := range s.callres {
		n.callres[k] = v
	}
	n.callatom = make(map[*ssa.Call][]*Atom, len(s.callatom))
	for k, v := range s.callatom {
		n.callatom[k] = v
	}
	n.live = make(map[string]*Fact, len(s.live))
	for k, v := range s.live {
		n.live[k] = v
	}
	n.hist = make(map[string]*Fact, len(s.hist))
	for k, v := range s.hist {
		n.hist[k] = v
	}
	n.phis = make(map[*ssa.Phi]int, len(s.phis))
	for k, v := range s.phis {
		n.phis[k] = v
	}
	n.store = make(map[string]*CE, len(s.store))
	for k, v := range s.store {
		n.store[k] = v
	}
	n.held = append([]heldLock(nil), s.held...)
	n.deferred = append([]*ssa.Defer(nil), s.deferred...)
	n.seen = make(map[string]bool, len(s.seen))
	for k, v := range s.seen {
		n.seen[k] = v
	}
	return n
}

// boundArg: the caller's argument bound to a parameter of an inlined callee.
func (s *State) boundArg(p *ssa.Parameter) *CE {
	for i := len(s.frames) - 1; i >= 0; i-- {
		fr := s.frames[i]
		if fr.fn == p.Parent() {
			for j, q := range fr.fn.Params {
				if q == p && j < len(fr.params) {
					return fr.params[j]
				}
			}
		}
	}
	return nil
}

// boundFree: the value a free variable of an inlined closure is bound to (the
// captured variable's address in the enclosing function).
func (s *State) boundFree(fv *ssa.FreeVar) ssa.Value {
	for i := len(s.frames) - 1; i >= 0; i-- {
		fr := s.frames[i]
		if fr.fn == fv.Parent() && fr.closure != nil {
			for j, q := range fr.fn.FreeVars {
				if q == fv && j < len(fr.closure.Bindings) {
					return fr.closure.Bindings[j]
				}
			}
		}
	}
	return nil
}

// curFn: the function whose code the state is executing.
func (ex *Explorer) curFn(s *State) *ssa.Function {
	if n := len(s.frames); n > 0 {
		return s.frames[n-1].fn
	}
	return ex.Fn
}

func (s *State) lookupStore(path string) (storeEnt, bool) {
	if ce, ok := s.store[path]; ok {
		if ce.S == tombstone {
			return storeEnt{ce: ce}, false
		}
		return storeEnt{ce: ce}, true
	}
	// longest stored prefix followed by a selector
	best := ""
	for k := range s.store {
		if len(k) > len(best) && strings.HasPrefix(path, k) && (path[len(k)] == '.' || path[len(k)] == '[') {
			best = k
		}
	}
	if best != "" && s.store[best].S == tombstone {
		return storeEnt{}, false
	}
	if best != "" {
		return storeEnt{ce: s.store[best], suffix: path[len(best):]}, true
	}
	return storeEnt{}, false
}

// exactEntry: the store entry holding the value of a local location, following
// whole-struct copies between locals (x = *y, or the struct an inlined helper
// returned by value). zero reports that the location was never assigned on
// this path (the root struct literal is tracked, so it still has its zero value).
func (s *State) exactEntry(path string) (ent *CE, final string, zero bool) {
	for i := 0; i < 6; i++ {
		e, ok := s.lookupStore(path)
		if !ok {
			if i > 0 && strings.HasPrefix(path, "new@") && !s.killedAround(path) {
				return nil, path, true
			}
			return nil, path, false
		}
		if e.suffix == "" {
			return e.ce, path, false
		}
		if !strings.HasPrefix(e.ce.S, "new@") {
			return nil, path, false
		}
		path = e.ce.S + e.suffix
	}
	return nil, path, false
}

// ReadLocal returns the canonical value last stored at a local location on
// this path, following struct copies between locals.
func (s *State) ReadLocal(path string) (string, bool) {
	for i := 0; i < 6; i++ {
		e, ok := s.lookupStore(path)
		if !ok {
			// a local that was never stored on this path (and whose knowledge was not invalidated) still has its zero value
			if strings.HasPrefix(path, "new@") && !s.killedAround(path) {
				return "zero:" + path, true
			}
			return path, i > 0
		}
		if e.ce.S == tombstone {
			return path, false
		}
		path = e.ce.S + e.suffix
		if !strings.HasPrefix(path, "new@") || e.suffix == "" {
			return path, true
		}
	}
	return path, true
}

const tombstone = "⊥"

// killedAround: knowledge about path (or something above/below it) was invalidated.
func (s *State) killedAround(path string) bool {
	for k, ce := range s.store {
		if ce.S == tombstone && (strings.HasPrefix(path, k) || strings.HasPrefix(k, path)) {
			return true
		}
	}
	return false
}

func (s *State) key() string {
	var sb strings.Builder
	fmt.Fprintf(&sb, "b%d.%d|", s.blk.Index, s.idx)
	for _, fr := range s.frames {
		fmt.Fprintf(&sb, "%s@%s>", fr.fn.Name(), fr.call.Name())
		for _, p := range fr.params {
			sb.WriteString(p.S)
			sb.WriteByte(',')
		}
	}
	sb.WriteByte('|')
	if len(s.callres) > 0 {
		var crs []string
		for c, res := range s.callres {
			x := c.Parent().Name() + "." + c.Name() + "="
			for _, r := range res {
				x += r.S + ";"
			}
			crs = append(crs, x)
		}
		sort.Strings(crs)
		sb.WriteString(strings.Join(crs, "&"))
	}
	sb.WriteByte('|')
	if len(s.blk.Instrs) > 0 {
		if _, ok := s.blk.Instrs[0].(*ssa.Phi); ok && s.pred != nil {
			fmt.Fprintf(&sb, "p%d|", s.pred.Index)
		}
	}
	for _, k := range sortedKeys(s.live) {
		sb.WriteString(k)
		sb.WriteString(s.live[k].ident())
		sb.WriteByte(';')
	}
	sb.WriteByte('|')
	for _, k := range sortedKeys(s.hist) {
		sb.WriteString(k)
		sb.WriteString(s.hist[k].ident())
		sb.WriteByte(';')
	}
	sb.WriteByte('|')
	ps := make([]string, 0, len(s.phis))
	for p, i := range s.phis {
		ps = append(ps, fmt.Sprintf("%s=%d", anm(p), i))
	}
	sort.Strings(ps)
	sb.WriteString(strings.Join(ps, ","))
	sb.WriteByte('|')
	for _, k := range sortedKeys(s.store) {
		sb.WriteString(k)
		sb.WriteByte('=')
		sb.WriteString(s.store[k].S)
		sb.WriteByte(';')
	}
	sb.WriteByte('|')
	for _, h := range s.held {
		sb.WriteString(h.Key)
		sb.WriteByte(h.Mode)
		sb.WriteByte(';')
	}
	fmt.Fprintf(&sb, "|d%d|", len(s.deferred))
	for _, d := range s.deferred {
		sb.WriteString(d.String())
	}
	sb.WriteByte('|')
	for _, k := range sortedKeys(s.seen) {
		sb.WriteString(k)
		sb.WriteByte(';')
	}
	return sb.String()
}

// Trail returns the block indices of the abstract path leading to s.
func (s *State) Trail() []int {
	var rev []int
	for x := s; x != nil; x = x.parent {
		if len(rev) == 0 || rev[len(rev)-1] != x.blk.Index {
			rev = append(rev, x.blk.Index)
		}
	}
	for i, j := 0, len(rev)-1; i < j; i, j = i+1, j-1 {
		rev[i], rev[j] = rev[j], rev[i]
	}
	if len(rev) > 48 {
		rev = append([]int{-1}, rev[len(rev)-47:]...) // -1 marks an elided prefix
	}
	return rev
}

func (s *State) HistStrings() []string {
	var out []string
	for _, k := range sortedKeys(s.hist) {
		out = append(out, s.hist[k].String())
	}
	return out
}

func (s *State) Holds(keySub string, mode byte) bool {
	for _, h := range s.held {
		if strings.Contains(h.Key, keySub) && (mode == 0 || h.Mode == mode || (mode == 'R' && h.Mode == 'W')) {
			return true
		}
	}
	return false
}

// Hooks are the rule callbacks.
type Hooks struct {
	// Instr is called for every instruction, before its effect on the state.
	Instr func(st *State, in ssa.Instruction)
	// Exit is called at Return / Panic instructions.
	Exit func(st *State, in ssa.Instruction)
	// Label names sites to be remembered in State.seen once executed.
	Label func(st *State, in ssa.Instruction) string
	// Assume lets a rule constrain the initial state.
	Assume func(st *State)
	// BackEdge is called when a path is about to re-enter a loop header, before
	// the iteration's facts are forgotten (per-iteration obligations).
	BackEdge func(st *State, from, header *ssa.BasicBlock)
}

type LockProblem struct {
	Kind string // "relock", "unlock-unheld", "held-at-exit"
	Lock string
	At   ssa.Instruction
	St   *State
}

// Explorer runs the partitioned exploration of one function.
type Explorer struct {
	P             *Program
	Pure          *Purity
	Fn            *ssa.Function
	Info          *FuncInfo
	Hooks         Hooks
	MaxNodes      int
	Nodes         int
	Exceeded      bool
	LockProblems  []LockProblem
	closureAllocs map[*ssa.Alloc]bool
	// Inline decides whether a static call to a first-party function is explored
	// inline (its body becomes part of the abstract path, parameters bound to
	// the caller's arguments). nil = never.
	Inline             func(caller, callee *ssa.Function) bool
	inlinedClosureScan map[*ssa.Function]bool
}

func NewExplorer(p *Program, pu *Purity, fn *ssa.Function) *Explorer {
	ex := &Explorer{P: p, Pure: pu, Fn: fn, Info: InfoOf(fn), MaxNodes: 400000, closureAllocs: map[*ssa.Alloc]bool{}}
	ex.Inline = defaultInline
	for _, b := range fn.Blocks {
		for _, in := range b.Instrs {
			if mc, ok := in.(*ssa.MakeClosure); ok && closureEscapes(fn, mc) {
				for _, bnd := range mc.Bindings {
					if a, ok := bnd.(*ssa.Alloc); ok {
						ex.closureAllocs[a] = true
					}
				}
			}
		}
	}
	return ex
}

// closureEscapes: the closure may run at a time the explorer does not see (it
// is started with go, deferred, stored, returned, or handed to something that
// is not explored inline). A closure that is only called in place, or only
// handed to same-package helpers that merely call it, is explored inline at
// those calls, so the variables it captures stay tracked.
func closureEscapes(fn *ssa.Function, mc *ssa.MakeClosure) bool {
	if mc.Referrers() == nil {
		return false
	}
	for _, r := range *mc.Referrers() {
		call, ok := r.(*ssa.Call)
		if !ok {
			return true
		}
		if call.Call.Value == ssa.Value(mc) {
			continue // called in place
		}
		f := call.Call.StaticCallee()
		if f == nil || call.Call.IsInvoke() || len(f.Blocks) == 0 || !defaultInline(fn, f) {
			return true
		}
		for i, a := range call.Call.Args {
			if a != ssa.Value(mc) {
				continue
			}
			if i >= len(f.Params) || f.Params[i].Referrers() == nil {
				return true
			}
			for _, pr := range *f.Params[i].Referrers() {
				pc, ok := pr.(*ssa.Call)
				if !ok || pc.Call.Value != ssa.Value(f.Params[i]) {
					return true // the helper does something other than calling it
				}
			}
		}
	}
	return false
}

// Atom is a decoded branch condition.
type Atom struct {
	Const *bool
	Kind  string
	X, Y  string
	C     string   // for eq family: the constant compared with
	In    []string // for eq family: membership in this set of constants (instead of C)
	Neg   bool     // truth of the condition = !truth(atom) when Neg
	Deps  map[ssa.Value]bool
	Reads []memRead
	XV    ssa.Value // resolved operand (for nil atoms)
	// Alias: set when the atom was read back from a boolean local (the decoded atom of the
	// value stored there). The variable keeps the value it was given even if the memory the
	// underlying expression read has changed since, so decisions are also remembered per variable.
	Alias string
}

func (a *Atom) key() string {
	switch a.Kind {
	case "eq":
		return "eq:" + a.X
	case "nil":
		return "nil:" + a.X
	case "lt":
		return "lt:" + a.X + "<" + a.Y
	case "eqv":
		return "eqv:" + a.X + "==" + a.Y
	}
	return "b:" + a.X
}

func bptr(b bool) *bool { return &b }

// AtomOf decodes a boolean SSA value into an atom under the state's
// resolution of phis and locals.
func (ex *Explorer) AtomOf(st *State, v ssa.Value) *Atom {
	// a boolean read back from a tracked local: the atom decoded when it was stored
	pv := v
	for i := 0; i < 8 && st != nil; i++ {
		phi, ok := pv.(*ssa.Phi)
		if !ok {
			break
		}
		k, ok := st.phis[phi]
		if !ok || k < 0 || k >= len(phi.Edges) {
			break
		}
		pv = phi.Edges[k]
	}
	if ld, ok := pv.(*ssa.UnOp); ok && ld.Op == token.MUL && st != nil {
		c := &canonCtx{ex: ex, st: st, deps: map[ssa.Value]bool{}}
		if p := c.loc(ld.X); strings.HasPrefix(p, "new@") {
			if ce, fp, zero := st.exactEntry(p); ce != nil && ce.Atom != nil {
				cp := *ce.Atom
				cp.Alias = fmt.Sprintf("boolvar:%s@%p", fp, ce)
				return &cp
			} else if zero {
				return &Atom{Const: bptr(false)} // a boolean field never assigned since the literal was built
			}
		}
	}
	v = ex.Resolve(st, v)
	// boolean result of an inlined call: the atom decoded when the callee returned
	if st != nil {
		var call *ssa.Call
		idx := 0
		switch x := v.(type) {
		case *ssa.Call:
			call = x
		case *ssa.Extract:
			call, _ = x.Tuple.(*ssa.Call)
			idx = x.Index
		}
		if call != nil {
			if ats, ok := st.callatom[call]; ok && idx < len(ats) && ats[idx] != nil {
				cp := *ats[idx]
				return &cp
			}
		}
	}
	switch x := v.(type) {
	case *ssa.Const:
		if x.Value != nil {
			return &Atom{Const: bptr(x.Value.ExactString() == "true")}
		}
	case *ssa.UnOp:
		if x.Op == token.NOT {
			a := ex.AtomOf(st, x.X)
			if a.Const != nil {
				return &Atom{Const: bptr(!*a.Const)}
			}
			a.Neg = !a.Neg
			return a
		}
	case *ssa.BinOp:
		switch x.Op {
		case token.EQL, token.NEQ:
			neg := x.Op == token.NEQ
			// an interface built by boxing a concrete value is never nil, whatever it boxes
			if isNilConst(ex.Resolve(st, x.Y)) || isNilConst(ex.Resolve(st, x.X)) {
				for _, side := range []ssa.Value{x.X, x.Y} {
					if _, boxed := ex.resolveKeepBox(st, side).(*ssa.MakeInterface); boxed {
						return &Atom{Const: bptr(neg)}
					}
				}
			}
			l, r := ex.Resolve(st, x.X), ex.Resolve(st, x.Y)
			if isNilConst(l) && !isNilConst(r) {
				l, r = r, l
			}
			if isNilConst(r) {
				if isNilConst(l) {
					return &Atom{Const: bptr(!neg)}
				}
				if definitelyNonNil(l) {
					return &Atom{Const: bptr(neg)}
				}
				if ce := resCE(st, l); ce != nil {
					// pointer result of an inlined call
					if ce.S == "nil" {
						return &Atom{Const: bptr(!neg)}
					}
					if ce.V != nil && definitelyNonNil(ce.V) {
						return &Atom{Const: bptr(neg)}
					}
					// the helper returned a boxed concrete value: a non-nil interface whatever it boxes
					if ce.V0 != nil {
						if _, boxed := ex.resolveKeepBox(nil, ce.V0).(*ssa.MakeInterface); boxed {
							return &Atom{Const: bptr(neg)}
						}
					}
					return &Atom{Kind: "nil", X: ce.S, Neg: neg, Deps: ce.Deps, Reads: ce.Reads, XV: l}
				}
				if ld, ok := l.(*ssa.UnOp); ok && ld.Op == token.MUL {
					if g, ok := ld.X.(*ssa.Global); ok && globalNeverNil(ex.P, g) {
						return &Atom{Const: bptr(neg)}
					}
				}
				ce := ex.Canon(st, l)
				return &Atom{Kind: "nil", X: ce.S, Neg: neg, Deps: ce.Deps, Reads: ce.Reads, XV: l}
			}
			lc, lok := l.(*ssa.Const)
			rc, rok := r.(*ssa.Const)
			if lok && rok {
				return &Atom{Const: bptr((constStr(lc) == constStr(rc)) != neg)}
			}
			if lok && !rok {
				l, r = r, l
				rc, rok = lc, true
			}
			if rok {
				ce := ex.Canon(st, l)
				// s == "" is len(s) == 0 (one atom for both spellings)
				if rc.Value != nil && rc.Value.Kind() == constant.String && constant.StringVal(rc.Value) == "" {
					return &Atom{Kind: "eq", X: "len(" + ce.S + ")", C: "0", Neg: neg, Deps: ce.Deps, Reads: ce.Reads}
				}
				return &Atom{Kind: "eq", X: ce.S, C: constStr(rc), Neg: neg, Deps: ce.Deps, Reads: ce.Reads}
			}
			a, b := ex.Canon(st, l), ex.Canon(st, r)
			if a.S == b.S {
				if _, isFloat := l.Type().Underlying().(*types.Basic); !isFloat || l.Type().Underlying().(*types.Basic).Info()&types.IsFloat == 0 {
					return &Atom{Const: bptr(!neg)}
				}
			}
			if a.S > b.S {
				a, b = b, a
			}
			return &Atom{Kind: "eqv", X: a.S, Y: b.S, Neg: neg, Deps: mergeDeps(a.Deps, b.Deps), Reads: append(append([]memRead{}, a.Reads...), b.Reads...)}
		case token.LSS, token.GTR, token.LEQ, token.GEQ:
			a, b := ex.Canon(st, x.X), ex.Canon(st, x.Y)
			at := &Atom{Kind: "lt", Deps: mergeDeps(a.Deps, b.Deps), Reads: append(append([]memRead{}, a.Reads...), b.Reads...)}
			switch x.Op {
			case token.LSS:
				at.X, at.Y = a.S, b.S
			case token.GEQ:
				at.X, at.Y, at.Neg = a.S, b.S, true
			case token.GTR:
				at.X, at.Y = b.S, a.S
			case token.LEQ:
				at.X, at.Y, at.Neg = b.S, a.S, true
			}
			normalizeIntCompare(at, x)
			return at
		}
	}
	// membership in a constant table: m[k] for a package-level map[K]bool that is only ever
	// given its literal initialiser is `k ∈ {keys mapped to true}`
	if lk, ok := v.(*ssa.Lookup); ok && !lk.CommaOk && isBoolT(lk.Type()) {
		if ld, ok := lk.X.(*ssa.UnOp); ok && ld.Op == token.MUL {
			if g, ok := ld.X.(*ssa.Global); ok {
				if set, ok := constBoolTable(ex.P, g); ok && len(set) > 0 {
					ce := ex.Canon(st, lk.Index)
					return &Atom{Kind: "eq", X: ce.S, In: set, Deps: ce.Deps, Reads: ce.Reads}
				}
			}
		}
	}
	if call, ok := v.(*ssa.Call); ok {
		if fn := call.Call.StaticCallee(); fn != nil && reflexiveTrue[fn.String()] && len(call.Call.Args) == 2 {
			if ex.Canon(st, call.Call.Args[0]).S == ex.Canon(st, call.Call.Args[1]).S {
				return &Atom{Const: bptr(true)}
			}
		}
	}
	ce := ex.Canon(st, v)
	if ce.S == "true" || ce.S == "false" {
		return &Atom{Const: bptr(ce.S == "true")} // e.g. a boolean field of a struct a helper returned by value
	}
	return &Atom{Kind: "bool", X: ce.S, Deps: ce.Deps, Reads: ce.Reads}
}

// normalizeIntCompare brings an integer comparison against a constant into the
// single form `X < c` (possibly negated), so that `x <= 1`, `x < 2`, `2 > x`
// and `!(x >= 2)` are one atom; and, for lengths (never negative), `len < 1`
// becomes the equality atom `len == 0` that `len(x) == 0` produces.
func normalizeIntCompare(at *Atom, x *ssa.BinOp) {
	isInt := func(t types.Type) bool {
		b, ok := t.Underlying().(*types.Basic)
		return ok && b.Info()&types.IsInteger != 0
	}
	if !isInt(x.X.Type()) {
		return
	}
	parse := func(s string) (int64, bool) {
		n, err := strconv.ParseInt(s, 10, 64)
		return n, err == nil && n < 1<<62 && n > -(1<<62)
	}
	if c, ok := parse(at.X); ok {
		if _, both := parse(at.Y); both {
			return
		}
		// c < Y  ==  !(Y < c+1)
		at.X, at.Y, at.Neg = at.Y, strconv.FormatInt(c+1, 10), !at.Neg
	}
	c, ok := parse(at.Y)
	if !ok {
		return
	}
	if strings.HasPrefix(at.X, "len(") || strings.HasPrefix(at.X, "cap(") {
		switch {
		case c <= 0:
			t := at.Neg // len < 0 is false
			at.Kind, at.Const = "", &t
		case c == 1:
			at.Kind, at.C, at.Y = "eq", "0", "" // len < 1  ==  len == 0
		}
	}
}

// reflexiveTrue: pure equality predicates; f(x, x) is true.
var reflexiveTrue = map[string]bool{
	"(net.IP).Equal": true, "bytes.Equal": true,
}

func mergeDeps(a, b map[ssa.Value]bool) map[ssa.Value]bool {
	m := make(map[ssa.Value]bool, len(a)+len(b))
	for k := range a {
		m[k] = true
	}
	for k := range b {
		m[k] = true
	}
	return m
}

// evalAtom consults the live facts: returns (+1 true, 0 false, -1 unknown) for
// the *condition* (negation applied).
func evalAtom(st *State, a *Atom) int {
	if a.Const != nil {
		if *a.Const {
			return 1
		}
		return 0
	}
	if a.Alias != "" {
		if f, ok := st.live[a.Alias]; ok {
			// f.Val is the truth of the atom itself (before Neg)
			r := b2i(f.Val)
			if a.Neg {
				r = 1 - r
			}
			return r
		}
	}
	f, ok := st.live[a.key()]
	if !ok {
		return -1
	}
	res := -1
	switch a.Kind {
	case "eq":
		set := a.In
		if len(set) == 0 {
			set = []string{a.C}
		}
		has := func(xs []string, x string) bool {
			for _, y := range xs {
				if x == y {
					return true
				}
			}
			return false
		}
		switch {
		case f.Eq != "":
			res = b2i(has(set, f.Eq))
		case len(f.In) > 0:
			all, none := true, true
			for _, x := range f.In {
				if has(set, x) {
					none = false
				} else {
					all = false
				}
			}
			if all {
				res = 1
			} else if none {
				res = 0
			}
		default:
			excluded := true
			for _, x := range set {
				if !has(f.Ne, x) {
					excluded = false
				}
			}
			if excluded {
				res = 0
			}
		}
	default:
		res = b2i(f.Val)
	}
	if res >= 0 && a.Neg {
		res = 1 - res
	}
	return res
}

func b2i(b bool) int {
	if b {
		return 1
	}
	return 0
}

// assume records the outcome `cond` of atom a (cond is the truth of the
// branch condition, i.e. negation already considered) in live and hist.
func assume(st *State, a *Atom, cond bool, at ssa.Instruction) {
	if a.Const != nil {
		return
	}
	val := cond != a.Neg
	k := a.key()
	mk := func(old *Fact) *Fact {
		f := &Fact{Kind: a.Kind, X: a.X, Y: a.Y, Val: val, Deps: a.Deps, Reads: a.Reads, At: at, Epoch: st.epoch}
		for _, h := range st.held {
			f.Held = append(f.Held, h.Key)
		}
		if a.Kind == "eq" {
			set := a.In
			if len(set) == 0 {
				set = []string{a.C}
			}
			inSet := func(xs []string, x string) bool {
				for _, y := range xs {
					if x == y {
						return true
					}
				}
				return false
			}
			if val {
				// X is one of set (narrowed by what was known before)
				cand := append([]string{}, set...)
				if old != nil && old.Kind == "eq" && old.Eq == "" {
					if len(old.In) > 0 {
						cand = nil
						for _, x := range old.In {
							if inSet(set, x) {
								cand = append(cand, x)
							}
						}
					}
					var c2 []string
					for _, x := range cand {
						if !inSet(old.Ne, x) {
							c2 = append(c2, x)
						}
					}
					cand = c2
				}
				sort.Strings(cand)
				if len(cand) == 1 {
					f.Eq = cand[0]
				} else {
					f.In = cand
				}
			} else {
				if old != nil && old.Kind == "eq" && old.Eq == "" {
					f.Ne = append(f.Ne, old.Ne...)
					f.Deps = mergeDeps(f.Deps, old.Deps)
					for _, x := range old.In {
						if !inSet(set, x) {
							f.In = append(f.In, x)
						}
					}
					if len(f.In) == 1 {
						f.Eq, f.In = f.In[0], nil
					}
				}
				for _, x := range set {
					if !inSet(f.Ne, x) {
						f.Ne = append(f.Ne, x)
					}
				}
				sort.Strings(f.Ne)
			}
		}
		return f
	}
	st.live[k] = mk(st.live[k])
	st.hist[k] = mk(st.hist[k])
	if a.Alias != "" && a.Kind != "eq" {
		// no reads, no deps: survives stores and calls, as the variable's value does
		st.live[a.Alias] = &Fact{Kind: "bool", X: a.Alias, Val: val, At: at, Epoch: st.epoch}
	}
}

// ---- effects --------------------------------------------------------------

func readsOverlap(rs []memRead, path string, field *types.Var, glob *ssa.Global, elemT string) bool {
	for _, r := range rs {
		if field != nil && r.Field == field {
			return true
		}
		if glob != nil && r.Global == glob {
			return true
		}
		// a store to L invalidates reads of L and of anything below L; reads of
		// an ancestor of L only when they were deep (pure-call argument)
		if path != "" && (strings.HasPrefix(r.Path, path) || (r.Deep && strings.HasPrefix(path, r.Path))) {
			return true
		}
		if elemT != "" && r.Elem && r.ElemT == elemT {
			return true
		}
		if elemT != "" && r.Deep {
			return true // element stores may alias anything a pure call reads
		}
	}
	return false
}

func (ex *Explorer) killByStore(st *State, addr ssa.Value) {
	c := ex.CanonAddr(st, addr)
	var field *types.Var
	var glob *ssa.Global
	elemT := ""
	switch a := addr.(type) {
	case *ssa.FieldAddr:
		field = fieldOf(a.X.Type(), a.Field)
	case *ssa.Global:
		glob = a
	case *ssa.IndexAddr:
		if pt, ok := a.Type().Underlying().(*types.Pointer); ok {
			elemT = shortType(pt.Elem())
		}
	}
	if strings.HasPrefix(c.S, "new@") {
		if ra := rootAllocIn(st, addr); ra != nil && !ex.closureAllocs[ra] {
			// a private local: only reads of that very location are affected
			field, glob, elemT = nil, nil, ""
		}
	}
	for k, f := range st.live {
		if readsOverlap(f.Reads, c.S, field, glob, elemT) {
			delete(st.live, k)
		}
	}
	// locals holding a copy of memory that is being overwritten keep the old value: mark the snapshot
	for k, ce := range st.store {
		if strings.HasPrefix(ce.S, "stale(") {
			continue
		}
		if c.S == ce.S || strings.HasPrefix(c.S, ce.S+".") || strings.HasPrefix(c.S, ce.S+"[") {
			st.store[k] = &CE{S: "stale(" + ce.S + ")", Deps: ce.Deps, Reads: ce.Reads, V: ce.V, V0: ce.V0}
		}
	}
}

// killByCall drops live facts (and tracked local values) that an impure call
// may invalidate: anything read under one of its pointer-like arguments.
func (ex *Explorer) killByCall(st *State, cc *ssa.CallCommon) {
	if ex.Pure.IsPureCall(cc) || harmlessCallee(cc) {
		return
	}
	var roots []string
	args := cc.Args
	if cc.IsInvoke() || cc.StaticCallee() == nil {
		args = append([]ssa.Value{cc.Value}, cc.Args...)
	}
	first := false
	if fn := cc.StaticCallee(); fn != nil && FirstParty(fn) {
		first = true
	}
	callee := cc.StaticCallee()
	for i, a := range args {
		if !pointerLike(a.Type()) {
			continue
		}
		// a callee that provably never writes through this parameter leaves the memory below it alone
		if callee != nil && !cc.IsInvoke() && len(callee.Blocks) > 0 && i < len(callee.Params) && !writesThroughParam(callee, i, 0) {
			continue
		}
		s := strings.TrimPrefix(ex.Canon(st, a).S, "&")
		roots = append(roots, s)
	}
	for k, f := range st.live {
		dead := false
		for _, r := range f.Reads {
			if r.Global != nil && (first || cc.StaticCallee() == nil) {
				dead = true // first-party / unknown callees may write package state
			}
			for _, root := range roots {
				if strings.HasPrefix(r.Path, root) {
					dead = true
				}
			}
		}
		if dead {
			delete(st.live, k)
		}
	}
	for k := range st.store {
		for _, root := range roots {
			if strings.HasPrefix(k, root) {
				st.store[k] = &CE{S: tombstone}
				break
			}
		}
	}
	for _, root := range roots {
		if strings.HasPrefix(root, "new@") {
			if _, ok := st.store[root]; !ok {
				st.store[root] = &CE{S: tombstone}
			}
		}
	}
}

func mutexOp(cc *ssa.CallCommon) (op string, mode byte) {
	fn := cc.StaticCallee()
	if fn == nil {
		return "", 0
	}
	switch fn.String() {
	case "(*sync.Mutex).Lock", "(*sync.RWMutex).Lock":
		return "lock", 'W'
	case "(*sync.Mutex).Unlock", "(*sync.RWMutex).Unlock":
		return "unlock", 'W'
	case "(*sync.RWMutex).RLock":
		return "lock", 'R'
	case "(*sync.RWMutex).RUnlock":
		return "unlock", 'R'
	}
	return "", 0
}

func (ex *Explorer) doLock(st *State, op string, mode byte, recv ssa.Value, at ssa.Instruction) {
	key := strings.TrimPrefix(ex.Canon(st, recv).S, "&")
	if op == "lock" {
		for _, h := range st.held {
			if h.Key == key && (h.Mode == 'W' || mode == 'W') {
				ex.LockProblems = append(ex.LockProblems, LockProblem{"relock", key, at, st})
			}
		}
		st.held = append(st.held, heldLock{key, mode, at})
		sort.Slice(st.held, func(i, j int) bool { return st.held[i].Key < st.held[j].Key })
		return
	}
	for i, h := range st.held {
		if h.Key == key && h.Mode == mode {
			st.held = append(st.held[:i:i], st.held[i+1:]...)
			st.epoch++
			return
		}
	}
	ex.LockProblems = append(ex.LockProblems, LockProblem{"unlock-unheld", key, at, st})
}

func (ex *Explorer) runDefers(st *State, at ssa.Instruction) {
	for i := len(st.deferred) - 1; i >= 0; i-- {
		d := st.deferred[i]
		if op, mode := mutexOp(&d.Call); op != "" {
			ex.doLock(st, op, mode, d.Call.Args[0], at)
		}
	}
	st.deferred = nil
}

// step applies the effect of one instruction to the state.
func (ex *Explorer) step(st *State, in ssa.Instruction) {
	switch x := in.(type) {
	case *ssa.Store:
		p := ex.CanonAddr(st, x.Addr)
		ex.killByStore(st, x.Addr)
		localRoot := rootAllocIn(st, x.Addr)
		if localRoot == nil && pointerLikeOrNilable(x.Val.Type()) {
			// the store itself establishes what a later load of the location yields
			rv := ex.Resolve(st, x.Val)
			var r memRead
			r.Path = p.S
			switch a := x.Addr.(type) {
			case *ssa.FieldAddr:
				r.Field = fieldOf(a.X.Type(), a.Field)
			case *ssa.Global:
				r.Global = a
			case *ssa.IndexAddr:
				r.Elem = true
				r.ElemT = shortType(x.Val.Type())
			}
			if isNilConst(rv) || definitelyNonNil(rv) {
				st.live["nil:"+p.S] = &Fact{Kind: "nil", X: p.S, Val: isNilConst(rv), Deps: p.Deps, Reads: append(append([]memRead{}, p.Reads...), r), At: in}
			}
			// ... and, for values of statically known length, its length
			if n, ok := staticLen(rv); ok {
				k := "len(" + p.S + ")"
				st.live["eq:"+k] = &Fact{Kind: "eq", X: k, Eq: fmt.Sprint(n), Deps: p.Deps, Reads: append(append([]memRead{}, p.Reads...), r), At: in}
			}
		}
		if localRoot != nil {
			root := localRoot
			if vc := ex.Canon(st, x.Val); vc.S == p.S {
				// a variable copied onto itself (explicit `return ret, err` with named results): identity
			} else if !ex.closureAllocs[root] {
				// drop entries below this path, then record
				for k := range st.store {
					if strings.HasPrefix(k, p.S) && len(k) > len(p.S) {
						delete(st.store, k)
					}
				}
				ce := ex.Canon(st, x.Val)
				if isBoolT(x.Val.Type()) {
					// decoded now, while the value's own context (an inlined closure's frame) is in scope
					ce.Atom = ex.AtomOf(st, x.Val)
				}
				st.store[p.S] = ce
			}
		}
	case *ssa.MapUpdate:
		m := strings.TrimPrefix(ex.Canon(st, x.Map).S, "&")
		for k, f := range st.live {
			for _, r := range f.Reads {
				if r.Elem && strings.HasPrefix(r.Path, m) {
					delete(st.live, k)
					break
				}
			}
		}
	case *ssa.Call:
		if op, mode := mutexOp(&x.Call); op != "" {
			ex.doLock(st, op, mode, x.Call.Args[0], in)
			return
		}
		ex.killByCall(st, &x.Call)
	case *ssa.Defer:
		st.deferred = append(st.deferred, x)
	case *ssa.RunDefers:
		ex.runDefers(st, in)
	case *ssa.Go:
		ex.killByCall(st, &x.Call)
	}
}

// rootAllocIn is rootAlloc that follows the free variables of closures explored inline
// to the captured variable.
func rootAllocIn(st *State, v ssa.Value) *ssa.Alloc {
	for i := 0; i < 20; i++ {
		switch x := v.(type) {
		case *ssa.Alloc:
			return x
		case *ssa.FieldAddr:
			v = x.X
		case *ssa.IndexAddr:
			v = x.X
		case *ssa.FreeVar:
			if st == nil {
				return nil
			}
			b := st.boundFree(x)
			if b == nil {
				return nil
			}
			v = b
		default:
			return nil
		}
	}
	return nil
}

func rootAlloc(v ssa.Value) *ssa.Alloc {
	for i := 0; i < 20; i++ {
		switch x := v.(type) {
		case *ssa.Alloc:
			return x
		case *ssa.FieldAddr:
			v = x.X
		case *ssa.IndexAddr:
			v = x.X
		default:
			return nil
		}
	}
	return nil
}

// forgetLoop implements the back-edge rule: values defined in the loop are
// about to be redefined, so nothing remembered about them may survive.
func (ex *Explorer) forgetLoop(st *State, header *ssa.BasicBlock) {
	defs := InfoOf(header.Parent()).LoopDefs[header.Index]
	mention := func(d map[ssa.Value]bool) bool {
		for v := range d {
			if defs[v] {
				return true
			}
		}
		return false
	}
	for k, f := range st.live {
		if mention(f.Deps) {
			delete(st.live, k)
		}
	}
	for k, f := range st.hist {
		if mention(f.Deps) {
			delete(st.hist, k)
		}
	}
	for k, ce := range st.store {
		if mention(ce.Deps) {
			st.store[k] = &CE{S: tombstone}
		}
	}
	// allocations made inside the loop are fresh objects in the next iteration
	for k := range st.store {
		for v := range defs {
			if al, ok := v.(*ssa.Alloc); ok && (k == "new@"+ex.vname(al) || strings.HasPrefix(k, "new@"+ex.vname(al)+".") || strings.HasPrefix(k, "new@"+ex.vname(al)+"[")) {
				delete(st.store, k)
			}
		}
	}
	for p := range st.phis {
		if defs[p] {
			delete(st.phis, p)
		}
	}
	for _, in := range header.Instrs {
		p, ok := in.(*ssa.Phi)
		if !ok {
			break
		}
		st.phis[p] = -1
	}
}

// enter moves st into block b coming from pred, resolving phis.
func (ex *Explorer) enter(st *State, pred, b *ssa.BasicBlock) {
	back := pred != nil && InfoOf(b.Parent()).BackEdge[[2]int{pred.Index, b.Index}]
	st.blk, st.pred, st.idx = b, pred, 0
	if back {
		if ex.Hooks.BackEdge != nil {
			ex.Hooks.BackEdge(st, pred, b)
		}
		carry := ex.carryNil(st, pred, b)
		ex.forgetLoop(st, b)
		ex.applyCarry(st, carry)
		return
	}
	if pred == nil {
		return
	}
	idx := -1
	for i, p := range b.Preds {
		if p == pred {
			idx = i
		}
	}
	// resolve phis of b simultaneously: the incoming values are evaluated
	// in the predecessor's state
	res := map[*ssa.Phi]int{}
	isHeader := InfoOf(b.Parent()).LoopOf[b.Index] != nil
	for _, in := range b.Instrs {
		p, ok := in.(*ssa.Phi)
		if !ok {
			break
		}
		if idx >= 0 {
			res[p] = idx
		}
	}
	if isHeader {
		// entering a loop from outside: facts about loop-defined values from a
		// previous execution of the whole loop are stale; header phis stay
		// opaque (they stand for "the value in some iteration")
		carry := ex.carryNil(st, pred, b)
		ex.forgetLoop(st, b)
		ex.applyCarry(st, carry)
		return
	}
	for p, i := range res {
		st.phis[p] = i
	}
}

// currentRoot is the function being explored (single-threaded checker); anm
// qualifies the names of values that belong to inlined callees.
var currentRoot *ssa.Function

func anm(v ssa.Value) string {
	if in, ok := v.(ssa.Instruction); ok && in.Parent() != nil && currentRoot != nil && in.Parent() != currentRoot {
		return in.Parent().Name() + "·" + v.Name()
	}
	return v.Name()
}

// Run explores fn from its entry.
func (ex *Explorer) Run() {
	if len(ex.Fn.Blocks) == 0 {
		return
	}
	prevRoot := currentRoot
	currentRoot = ex.Fn
	defer func() { currentRoot = prevRoot }()
	init := &State{blk: ex.Fn.Blocks[0], live: map[string]*Fact{}, hist: map[string]*Fact{}, phis: map[*ssa.Phi]int{}, store: map[string]*CE{}, seen: map[string]bool{}, callres: map[*ssa.Call][]*CE{}, callatom: map[*ssa.Call][]*Atom{}}
	if ex.Hooks.Assume != nil {
		ex.Hooks.Assume(init)
	}
	visited := map[string]bool{}
	work := []*State{init}
	deadline := time.Now().Add(90 * time.Second)
	for len(work) > 0 {
		if ex.Nodes%512 == 0 && time.Now().After(deadline) {
			ex.Exceeded = true
			return
		}
		st := work[len(work)-1]
		work = work[:len(work)-1]
		k := st.key()
		if visited[k] {
			continue
		}
		visited[k] = true
		ex.Nodes++
		if ex.Nodes > ex.MaxNodes {
			ex.Exceeded = true
			return
		}
		cur := st.clone()
		cur.parent = st
		b := st.blk
		var succs []*State
		stopped := false
		for i := st.idx; i < len(b.Instrs) && !stopped; i++ {
			in := b.Instrs[i]
			if _, ok := in.(*ssa.Phi); ok {
				continue
			}
			if ex.Hooks.Instr != nil {
				ex.Hooks.Instr(cur, in)
			}
			switch x := in.(type) {
			case *ssa.If:
				a := ex.AtomOf(cur, x.Cond)
				r := evalAtom(cur, a)
				if r == 1 || r == -1 {
					t := cur.clone()
					t.parent = st
					if r == -1 {
						assume(t, a, true, in)
					} else if a.Const == nil {
						if _, ok := t.hist[a.key()]; !ok {
							t.hist[a.key()] = t.live[a.key()]
						}
					}
					ex.markLoopTest(t, b, 0)
					ex.enter(t, b, b.Succs[0])
					succs = append(succs, t)
				}
				if r == 0 || r == -1 {
					f := cur.clone()
					f.parent = st
					if r == -1 {
						assume(f, a, false, in)
					} else if a.Const == nil {
						if _, ok := f.hist[a.key()]; !ok {
							f.hist[a.key()] = f.live[a.key()]
						}
					}
					ex.markLoopTest(f, b, 1)
					ex.enter(f, b, b.Succs[1])
					succs = append(succs, f)
				}
			case *ssa.Jump:
				n := cur.clone()
				n.parent = st
				ex.enter(n, b, b.Succs[0])
				succs = append(succs, n)
			case *ssa.Return:
				if nf := len(cur.frames); nf > 0 {
					// return from an inlined callee: bind results, resume the caller
					fr := cur.frames[nf-1]
					n := cur.clone()
					n.parent = st
					var res []*CE
					var ats []*Atom
					for _, r := range x.Results {
						ce := ex.Canon(cur, r)
						// a result that is itself what a nested inlined helper returned keeps that
						// helper's underlying value (for nil-ness and shape questions in the caller)
						if inner := resCE(cur, ex.Resolve(cur, r)); inner != nil {
							ce.V, ce.V0 = inner.V, inner.V0
						}
						res = append(res, ce)
						if isBoolT(r.Type()) {
							ats = append(ats, ex.AtomOf(cur, r))
						} else {
							ats = append(ats, nil)
						}
					}
					n.frames = n.frames[:nf-1]
					n.callres[fr.call] = res
					n.callatom[fr.call] = ats
					n.deferred = append([]*ssa.Defer(nil), fr.deferred...)
					n.blk, n.idx, n.pred = fr.retBlk, fr.retIdx, fr.retPred
					succs = append(succs, n)
					break
				}
				if ex.Hooks.Exit != nil {
					ex.Hooks.Exit(cur, in)
				}
				for _, h := range cur.held {
					ex.LockProblems = append(ex.LockProblems, LockProblem{"held-at-exit", h.Key, in, cur})
				}
			case *ssa.Panic:
				ex.runDefers(cur, in)
				if ex.Hooks.Exit != nil {
					ex.Hooks.Exit(cur, in)
				}
			default:
				if call, ok := in.(*ssa.Call); ok && ex.Inline != nil {
					callee := call.Call.StaticCallee()
					if callee == nil && !call.Call.IsInvoke() && len(cur.frames) > 0 {
						// a function-typed parameter of an inlined helper, bound to a named function at the call site
						if f, ok := ex.Resolve(cur, call.Call.Value).(*ssa.Function); ok {
							callee = f
						}
					}
					var closure *ssa.MakeClosure
					if callee == nil && !call.Call.IsInvoke() {
						// a closure (bound to a function-typed parameter of an inlined helper, or called in
						// place): explored inline with its free variables bound to the captured variables
						if mc, ok := ex.Resolve(cur, call.Call.Value).(*ssa.MakeClosure); ok {
							if f, ok := mc.Fn.(*ssa.Function); ok {
								callee, closure = f, mc
							}
						}
					}
					if callee != nil && !call.Call.IsInvoke() && ex.canInline(cur, callee) && ex.Inline(ex.curFn(cur), callee) {
						if os.Getenv("CDLINT_DEBUG_INLINE") != "" {
							fmt.Fprintf(os.Stderr, "inline %s into %s\n", callee.Name(), ex.curFn(cur).Name())
						}
						n := cur.clone()
						n.parent = st
						fr := &frame{call: call, fn: callee, closure: closure, retBlk: b, retIdx: i + 1, retPred: cur.pred, deferred: cur.deferred}
						for _, a := range call.Call.Args {
							fr.params = append(fr.params, ex.Canon(cur, a))
						}
						ex.forgetFunc(n, callee)
						delete(n.callres, call)
						n.frames = append(n.frames, fr)
						n.deferred = nil
						n.blk, n.idx, n.pred = callee.Blocks[0], 0, nil
						succs = append(succs, n)
						stopped = true
						break
					}
				}
				ex.step(cur, in)
				if ex.Hooks.Label != nil {
					if l := ex.Hooks.Label(cur, in); l != "" {
						cur.seen[l] = true
					}
				}
			}
		}
		work = append(work, succs...)
	}
}

// markLoopTest records, as a label, the outcome of a loop's own continuation
// test (the If that ends a loop header): the label is present while the last
// evaluation let the loop continue and is dropped when the test fails. A path
// that leaves the loop from inside an iteration (break, return) keeps it.
func (ex *Explorer) markLoopTest(st *State, hdr *ssa.BasicBlock, succ int) {
	body := InfoOf(hdr.Parent()).LoopOf[hdr.Index]
	if body == nil {
		return
	}
	l := loopLabel(hdr)
	if body[hdr.Succs[succ].Index] {
		st.seen[l] = true
	} else {
		delete(st.seen, l)
	}
}

func loopLabel(hdr *ssa.BasicBlock) string {
	return "lp:" + hdr.Parent().String() + "#" + strconv.Itoa(hdr.Index)
}

// LeftLoopEarly: the path's last evaluation of the loop's continuation test
// succeeded, i.e. the loop was left from inside an iteration (or is still running).
func LeftLoopEarly(st *State, hdr *ssa.BasicBlock) bool {
	return hdr != nil && st.seen[loopLabel(hdr)]
}

// canInline: bodies only, no recursion, bounded depth and size.
func (ex *Explorer) canInline(st *State, callee *ssa.Function) bool {
	if len(callee.Blocks) == 0 || len(callee.Blocks) > 80 || len(st.frames) >= 3 || callee == ex.Fn {
		return false
	}
	for _, fr := range st.frames {
		if fr.fn == callee {
			return false
		}
	}
	if ex.inlinedClosureScan == nil {
		ex.inlinedClosureScan = map[*ssa.Function]bool{}
	}
	if !ex.inlinedClosureScan[callee] {
		ex.inlinedClosureScan[callee] = true
		for _, b := range callee.Blocks {
			for _, in := range b.Instrs {
				if mc, ok := in.(*ssa.MakeClosure); ok && closureEscapes(callee, mc) {
					for _, bnd := range mc.Bindings {
						if a, ok := bnd.(*ssa.Alloc); ok {
							ex.closureAllocs[a] = true
						}
					}
				}
			}
		}
	}
	return true
}

// forgetFunc: the callee's SSA values are about to be (re)defined.
// resCE: the bound result of an inlined call (or of an extract of one).
func resCE(st *State, v ssa.Value) *CE {
	if st == nil {
		return nil
	}
	switch x := v.(type) {
	case *ssa.Call:
		if res, ok := st.callres[x]; ok && len(res) == 1 {
			return res[0]
		}
	case *ssa.Extract:
		if call, ok := x.Tuple.(*ssa.Call); ok {
			if res, ok := st.callres[call]; ok && x.Index < len(res) {
				return res[x.Index]
			}
		}
	}
	return nil
}

func isBoolT(t types.Type) bool {
	b, ok := t.Underlying().(*types.Basic)
	return ok && b.Kind() == types.Bool
}

func (ex *Explorer) forgetFunc(st *State, callee *ssa.Function) {
	mention := func(d map[ssa.Value]bool) bool {
		for v := range d {
			if in, ok := v.(ssa.Instruction); ok && in.Parent() == callee {
				return true
			}
			if p, ok := v.(*ssa.Parameter); ok && p.Parent() == callee {
				return true
			}
		}
		return false
	}
	for k, f := range st.live {
		if mention(f.Deps) {
			delete(st.live, k)
		}
	}
	for k, f := range st.hist {
		if mention(f.Deps) {
			delete(st.hist, k)
		}
	}
	for k, ce := range st.store {
		if mention(ce.Deps) {
			delete(st.store, k)
		}
	}
	for p := range st.phis {
		if p.Parent() == callee {
			delete(st.phis, p)
		}
	}
	for c := range st.callres {
		if c.Parent() == callee {
			delete(st.callres, c)
			delete(st.callatom, c)
		}
	}
}

// SamePackageInline is the default inlining policy of the decision-table
// rules: helpers of the same package are explored inline unless the rule
// treats them as an anchor (keep).
func SamePackageInline(keep ...string) func(caller, callee *ssa.Function) bool {
	k := map[string]bool{}
	for _, n := range keep {
		k[n] = true
	}
	return func(caller, callee *ssa.Function) bool {
		if !FirstParty(callee) || k[callee.Name()] || k[callee.String()] {
			return false
		}
		return fnPkgPath(caller) == fnPkgPath(callee)
	}
}

// FactsAbout returns the live facts whose operands mention sub.
func (st *State) FactsAbout(sub string) []*Fact {
	var out []*Fact
	for _, k := range sortedKeys(st.live) {
		f := st.live[k]
		if strings.Contains(f.X, sub) || strings.Contains(f.Y, sub) {
			out = append(out, f)
		}
	}
	return out
}

// NilState: +1 definitely nil on this path, 0 known non-nil, -1 unknown.
func (ex *Explorer) NilState(st *State, v ssa.Value) (int, *Fact) {
	r := ex.Resolve(st, v)
	if isNilConst(r) {
		return 1, nil
	}
	if definitelyNonNil(r) {
		return 0, nil
	}
	if rc := resCE(st, r); rc != nil {
		// result of an inlined call: judged by what the callee returned on this path
		if rc.S == "nil" {
			return 1, nil
		}
		if rc.V != nil && (definitelyNonNil(rc.V) || definitelyNonNil(ex.resolveKeepBox(nil, rc.V))) {
			return 0, nil
		}
		if f, ok := st.live["nil:"+rc.S]; ok {
			return b2i(f.Val), f
		}
		// (T, error) convention on the callee's own call: "X#k" is valid once "X#last" was found nil
		if i := strings.LastIndex(rc.S, "#"); i > 0 {
			for _, k := range sortedKeys(st.hist) {
				f := st.hist[k]
				if f.Kind == "nil" && f.Val && strings.HasPrefix(f.X, rc.S[:i]+"#") && f.X != rc.S {
					return 0, f
				}
			}
		}
		return -1, nil
	}
	ce := ex.Canon(st, r)
	if f, ok := st.live["nil:"+ce.S]; ok {
		return b2i(f.Val), f
	}
	// package-level sentinel (errors.New at init, never reassigned)
	if ld, ok := r.(*ssa.UnOp); ok && ld.Op == token.MUL {
		if g, ok := ld.X.(*ssa.Global); ok && globalNeverNil(ex.P, g) {
			return 0, nil
		}
	}
	// (T, error) convention: T is valid (non-nil) once the error was found nil
	if e, ok := r.(*ssa.Extract); ok {
		if call, ok := e.Tuple.(*ssa.Call); ok {
			res := call.Call.Signature().Results()
			last := res.Len() - 1
			if last >= 1 && e.Index < last && isErrorT(res.At(last).Type()) {
				k := "nil:" + ex.Canon(st, call).S + fmt.Sprintf("#%d", last)
				if f, ok := st.hist[k]; ok && f.Val {
					return 0, f
				}
			}
		}
	}
	return -1, nil
}

func isErrorT(t types.Type) bool { return types.Identical(t, types.Universe.Lookup("error").Type()) }

var globalNeverNilMemo = map[*ssa.Global]int{}

// globalNeverNil: every store to the package-level variable (initialiser
// included) stores a definitely non-nil value, and there is at least one.
func globalNeverNil(p *Program, g *ssa.Global) bool {
	if v, ok := globalNeverNilMemo[g]; ok {
		return v == 1
	}
	globalNeverNilMemo[g] = 0
	stores := findStores(p, nil, g)
	if len(stores) == 0 {
		return false
	}
	inInit := false
	for _, s := range stores {
		if !definitelyNonNil(s.Val) {
			return false
		}
		if s.Parent().Name() == "init" && s.Parent().Synthetic != "" {
			inInit = true // has an initialiser: never observed in its zero state
		}
	}
	if !inInit {
		return false
	}
	globalNeverNilMemo[g] = 1
	return true
}

// staticLen: length of a value known from how it was built.
func staticLen(v ssa.Value) (int64, bool) {
	switch x := v.(type) {
	case *ssa.MakeSlice:
		if c, ok := x.Len.(*ssa.Const); ok && c.Value != nil {
			return c.Int64(), true
		}
	case *ssa.Call:
		if fn := x.Call.StaticCallee(); fn != nil {
			switch fn.String() {
			case "net.IPv4Mask":
				return 4, true
			case "net.IPv4":
				return 16, true
			}
		}
	case *ssa.ChangeType:
		return staticLen(x.X)
	}
	return 0, false
}

// ResolveDeep is Resolve that also looks through the results of inlined
// helper calls (the value the helper returned on this abstract path). The
// result may belong to the helper's body: use it for identity / shape
// questions (which alloc, which call), not for canonicalisation.
func (ex *Explorer) ResolveDeep(st *State, v ssa.Value) ssa.Value {
	for i := 0; i < 8; i++ {
		r := ex.Resolve(st, v)
		if mi, ok := r.(*ssa.MakeInterface); ok {
			_ = mi
		}
		ce := resCE(st, r)
		if ce == nil || ce.V == nil || ce.V == r {
			return r
		}
		v = ce.V
	}
	return ex.Resolve(st, v)
}

// resolveKeepBox resolves phis and tracked locals like Resolve but stops at
// the boxing of a concrete value into an interface.
func (ex *Explorer) resolveKeepBox(st *State, v ssa.Value) ssa.Value {
	for i := 0; i < 30; i++ {
		switch x := v.(type) {
		case *ssa.Phi:
			if st != nil {
				if k, ok := st.phis[x]; ok && k >= 0 && k < len(x.Edges) {
					v = x.Edges[k]
					continue
				}
			}
			return v
		case *ssa.ChangeInterface:
			v = x.X
			continue
		case *ssa.UnOp:
			if x.Op == token.MUL && st != nil {
				c := &canonCtx{ex: ex, st: st, deps: map[ssa.Value]bool{}}
				p := c.loc(x.X)
				if strings.HasPrefix(p, "new@") {
					if ce, _, _ := st.exactEntry(p); ce != nil && ce.V0 != nil {
						v = ce.V0
						continue
					}
				}
			}
			return v
		}
		return v
	}
	return v
}

var wtpMemo = map[string]int{}

// writesThroughParam: fn (or something it passes the parameter to) may store
// into memory reachable from its i-th parameter. Conservative: unknown callees,
// dynamic calls and escaping uses count as writes.
func writesThroughParam(fn *ssa.Function, i int, depth int) bool {
	k := fmt.Sprintf("%s#%d", fn.String(), i)
	if v, ok := wtpMemo[k]; ok {
		return v == 1
	}
	wtpMemo[k] = 1 // assume the worst while computing (recursion)
	if depth > 4 || len(fn.Blocks) == 0 || i >= len(fn.Params) {
		return true
	}
	p := fn.Params[i]
	// values derived from the parameter by address arithmetic / loads of pointers
	derived := map[ssa.Value]bool{p: true}
	changed := true
	for changed {
		changed = false
		for _, b := range fn.Blocks {
			for _, in := range b.Instrs {
				v, ok := in.(ssa.Value)
				if !ok || derived[v] {
					continue
				}
				switch x := in.(type) {
				case *ssa.FieldAddr:
					if derived[x.X] {
						derived[v], changed = true, true
					}
				case *ssa.IndexAddr:
					if derived[x.X] {
						derived[v], changed = true, true
					}
				case *ssa.Slice:
					if derived[x.X] {
						derived[v], changed = true, true
					}
				case *ssa.UnOp:
					if x.Op == token.MUL && derived[x.X] && pointerLike(x.Type()) {
						derived[v], changed = true, true
					}
				case *ssa.Phi:
					for _, e := range x.Edges {
						if derived[e] {
							derived[v], changed = true, true
						}
					}
				case *ssa.ChangeType:
					if derived[x.X] {
						derived[v], changed = true, true
					}
				case *ssa.MakeInterface:
					if derived[x.X] {
						derived[v], changed = true, true
					}
				case *ssa.Field:
					if derived[x.X] && pointerLike(x.Type()) {
						derived[v], changed = true, true
					}
				}
			}
		}
	}
	res := false
	for _, b := range fn.Blocks {
		for _, in := range b.Instrs {
			switch x := in.(type) {
			case *ssa.Store:
				if derived[x.Addr] {
					res = true
				}
				if derived[x.Val] && pointerLike(x.Val.Type()) {
					res = true // escapes into memory
				}
			case *ssa.MapUpdate:
				if derived[x.Map] {
					res = true
				}
			case *ssa.Send:
				if derived[x.X] {
					res = true
				}
			case ssa.CallInstruction:
				cc := x.Common()
				args := cc.Args
				if cc.IsInvoke() {
					args = append([]ssa.Value{cc.Value}, cc.Args...)
				}
				for j, a := range args {
					if !derived[a] {
						continue
					}
					if b, ok := cc.Value.(*ssa.Builtin); ok {
						switch b.Name() {
						case "len", "cap", "append", "print", "println":
							continue
						case "copy":
							if j == 0 {
								res = true
							}
							continue
						}
					}
					if harmlessCallee(cc) {
						continue
					}
					g := cc.StaticCallee()
					if g == nil || cc.IsInvoke() {
						res = true
						continue
					}
					if writesThroughParam(g, j, depth+1) {
						res = true
					}
				}
			case *ssa.MakeClosure:
				for _, bnd := range x.Bindings {
					if derived[bnd] {
						res = true
					}
				}
			}
		}
	}
	if res {
		wtpMemo[k] = 1
	} else {
		wtpMemo[k] = 0
	}
	return res
}

// carryNil computes, for the (opaque) phis of a loop header entered from pred,
// what is known about the nil-ness of the incoming values; the facts are
// re-established for the phi after the iteration's facts were forgotten.
func (ex *Explorer) carryNil(st *State, pred, b *ssa.BasicBlock) map[*ssa.Phi]int {
	idx := -1
	for i, p := range b.Preds {
		if p == pred {
			idx = i
		}
	}
	out := map[*ssa.Phi]int{}
	if idx < 0 {
		return out
	}
	for _, in := range b.Instrs {
		p, ok := in.(*ssa.Phi)
		if !ok {
			break
		}
		if !pointerLikeOrNilable(p.Type()) {
			continue
		}
		if n, _ := ex.NilState(st, p.Edges[idx]); n >= 0 {
			out[p] = n
		}
	}
	return out
}

func (ex *Explorer) applyCarry(st *State, carry map[*ssa.Phi]int) {
	for p, n := range carry {
		x := "φ" + anm(p)
		st.live["nil:"+x] = &Fact{Kind: "nil", X: x, Val: n == 1, Deps: map[ssa.Value]bool{p: true}, Epoch: st.epoch}
	}
}

// helperAnchors: the first-party helper functions that exist on the pinned
// tree and that rules refer to by (resolved) name — as call sites, in
// canonical strings, or by analysing them on their own. They stay opaque
// calls. Any *other* same-package helper (one introduced by a refactoring) is
// explored inline, so extracting code into a helper does not change verdicts.
var helperAnchors = map[string]bool{
	"toIndex": true, "toOffset": true, "toPrefix": true, "toIP": true, "Offset": true, "AddPrefixes": true,
	"recordKey": true, "samePrefix": true, "addPrefix": true, "dup": true,
	"splitHostPort": true, "protoVersionCheck": true, "getListenAddress": true, "expandLLMulticast": true,
	"defaultListen": true, "getPlugins": true, "parsePlugins": true, "parseListen": true, "parseConfig": true,
	"Load": true, "New": true, "ConfigErrorFromString": true, "ConfigErrorFromError": true,
	"parseHWAddr": true, "loadRecords": true, "saveIPAddress": true, "registerBackingDB": true, "loadDB": true,
	"loadFromFile": true, "LoadDHCPv4Records": true, "LoadDHCPv6Records": true, "setupFile": true, "recordCount": true,
	"sendEthernet": true, "LoadPlugins": true, "RegisterPlugin": true, "GetLogger": true,
	"NewBitmapAllocator": true, "NewIPv4Allocator": true, "checkValidNetmask": true, "copySlice": true, "parseArgs": true,
	"listen4": true, "listen6": true, "Start": true, "Serve": true, "HandleMsg4": true, "HandleMsg6": true,
	"Allocate": true, "Free": true, "Handle": true, "Handler4": true, "Handler6": true,
	"makeSleepHandler4": true, "makeSleepHandler6": true,
}

// anchorPkg: the package (path suffix) in which a helper name is an anchor; a
// function of the same name elsewhere is an ordinary helper.
var anchorPkg = map[string]string{
	"toIndex": "allocators/bitmap", "toOffset": "allocators/bitmap", "toPrefix": "allocators/bitmap", "toIP": "allocators/bitmap",
	"Offset": "plugins/allocators", "AddPrefixes": "plugins/allocators",
	"recordKey": "plugins/prefix", "samePrefix": "plugins/prefix", "addPrefix": "plugins/prefix", "dup": "plugins/prefix",
	"splitHostPort": "config", "protoVersionCheck": "config", "getListenAddress": "config", "expandLLMulticast": "config",
	"defaultListen": "config", "getPlugins": "config", "parsePlugins": "config", "parseListen": "config", "parseConfig": "config",
	"Load": "config", "New": "config", "ConfigErrorFromString": "config", "ConfigErrorFromError": "config",
	"parseHWAddr": "plugins/range", "loadRecords": "plugins/range", "saveIPAddress": "plugins/range", "registerBackingDB": "plugins/range", "loadDB": "plugins/range",
	"loadFromFile": "plugins/file", "LoadDHCPv4Records": "plugins/file", "LoadDHCPv6Records": "plugins/file", "setupFile": "plugins/file", "recordCount": "plugins/file",
	"sendEthernet": "server", "LoadPlugins": "plugins", "RegisterPlugin": "plugins", "GetLogger": "logger",
	"NewBitmapAllocator": "allocators/bitmap", "NewIPv4Allocator": "allocators/bitmap", "checkValidNetmask": "plugins/netmask",
	"listen4": "server", "listen6": "server", "Start": "server", "Serve": "server", "HandleMsg4": "server", "HandleMsg6": "server",
}

func isHelperAnchor(fn *ssa.Function) bool {
	if anchorKeyOf(fn) != "" {
		return true // a named anchor, whatever it is called today
	}
	if !helperAnchors[fn.Name()] {
		return false
	}
	if p, ok := anchorPkg[fn.Name()]; ok {
		return strings.HasSuffix(fnPkgPath(fn), p)
	}
	return true
}

func defaultInline(caller, callee *ssa.Function) bool {
	if !FirstParty(callee) || isHelperAnchor(callee) || callee.Synthetic != "" {
		return false
	}
	// setup functions and handlers are entry points, never helpers
	if strings.HasPrefix(callee.Name(), "setup") {
		return false
	}
	if curProg != nil && callee.Parent() == nil && usedAsValue(curProg)[callee] && hasEntrySignature(curProg, callee) {
		return false // registered as a setup function / handed out as a handler
	}
	return fnPkgPath(caller) == fnPkgPath(callee)
}

var constBoolTableMemo = map[*ssa.Global][]string{}

// constBoolTable: g is a package-level map[K]bool written only by its
// initialiser, a map literal with constant keys; returns the keys mapped to true.
func constBoolTable(p *Program, g *ssa.Global) ([]string, bool) {
	if v, ok := constBoolTableMemo[g]; ok {
		return v, v != nil
	}
	constBoolTableMemo[g] = nil
	stores := findStores(p, nil, g)
	if len(stores) != 1 || stores[0].Parent().Name() != "init" {
		return nil, false
	}
	mk, ok := stores[0].Val.(*ssa.MakeMap)
	if !ok || mk.Referrers() == nil {
		return nil, false
	}
	var set []string
	for _, r := range *mk.Referrers() {
		switch x := r.(type) {
		case *ssa.MapUpdate:
			k, ok1 := x.Key.(*ssa.Const)
			val, ok2 := x.Value.(*ssa.Const)
			if !ok1 || !ok2 || x.Map != ssa.Value(mk) {
				return nil, false
			}
			if constStr(val) == "true" {
				set = append(set, constStr(k))
			}
		case *ssa.Store:
			if x.Val != ssa.Value(mk) {
				return nil, false
			}
		default:
			return nil, false
		}
	}
	// never updated through the variable anywhere else
	for fn := range p.AllFunctions() {
		if !FirstParty(fn) {
			continue
		}
		for _, b := range fn.Blocks {
			for _, in := range b.Instrs {
				if mu, ok := in.(*ssa.MapUpdate); ok {
					if ld, ok := mu.Map.(*ssa.UnOp); ok && ld.X == ssa.Value(g) {
						return nil, false
					}
				}
				if call, ok := in.(*ssa.Call); ok {
					if b, ok := call.Call.Value.(*ssa.Builtin); ok && (b.Name() == "delete" || b.Name() == "clear") && len(call.Call.Args) > 0 {
						if ld, ok := call.Call.Args[0].(*ssa.UnOp); ok && ld.X == ssa.Value(g) {
							return nil, false
						}
					}
				}
			}
		}
	}
	sort.Strings(set)
	constBoolTableMemo[g] = set
	return set, true
}

// hasEntrySignature: the function has the type of a plugin setup function or of a handler.
func hasEntrySignature(p *Program, fn *ssa.Function) bool {
	sg := sigNoRecv(fn.Signature)
	for _, t := range []*types.Signature{p.sigOf("handler", "Handler4"), p.sigOf("handler", "Handler6"), p.sigOf("plugins", "SetupFunc4"), p.sigOf("plugins", "SetupFunc6")} {
		if sameSig(sg, t) {
			return true
		}
	}
	return false
}
