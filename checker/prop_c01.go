package main

import (
	"fmt"
	"go/types"

	"golang.org/x/tools/go/ssa"
)

var trustedBase = []string{
	"go/types, go/ssa, go/packages (golang.org/x/tools v0.29.0) and the Go toolchain's view of the build",
	"insomniacslk/dhcp packet codec, bits-and-blooms/bitset, database/sql + go-sqlite3, viper/cast, fsnotify, gopacket, logrus, x/net and the kernel (facts about them are re-derived from their SSA where stated, otherwise frozen in tables.go/rules_*.go with a reason)",
	"purity derivation and the harmless-callee table (purity.go): a call outside them invalidates remembered facts about memory reachable from its pointer arguments; aliasing through unrelated pointers is not tracked",
}

func handlerScope(c *Ctx) (*Roots, map[*ssa.Function]*ssa.Function, []*ssa.Function) {
	ro := FindRoots(c.P, c.R)
	roots := append([]*ssa.Function{ro.Handle4, ro.Handle6}, ro.AllHandlers()...)
	pred, fns := ReachFirstParty(c.P, roots)
	return ro, pred, fns
}

func init() {
	register(&propDef{
		ID:      "C01",
		Explain: "Static safety rules over every first-party function reachable (VTA call graph) from HandleMsg4/HandleMsg6 and every Handler4/Handler6-typed function: on every abstract path (branch outcomes partitioned, phis and locals resolved per path, loops to fixpoint) no nil dereference the code itself made possible (NILPATH), every nilable source is guarded (NILSRC), single-result type assertions are justified (ASSERT), indices/slices are proven in range (BOUNDS), maps written are made (MAPWRITE), no signed shift / zero division (SHIFT, DIVZERO), calls through func fields are nil-guarded (FUNCNIL), every explicit panic/Fatal/exit site is shown unreachable (PANIC), no blocking operation or unbounded loop (NOBLOCK), at most one send per datagram (SENDONCE), every lock is released on every path (LOCKPAIR) and the lock graph is acyclic (LOCKORDER). Decides the shape of first-party code; does not decide panics inside dependencies or resource exhaustion.",
		Trusted: trustedBase,
		Assume: []string{
			"panics/blocking inside dependencies on wire input are out of scope (argument contracts in needsLen/nilable tables are enforced at first-party call sites)",
			"sendEthernet: gopacket can decode the server's own serialised reply (dhcpLayer non-nil)",
			"stack/heap exhaustion, a blocked WriteTo or sqlite call are not modelled",
		},
		Run: func(c *Ctx) {
			ro, pred, fns := handlerScope(c)
			serve := []*ssa.Function{c.P.Func("server", "*listener4", "Serve"), c.P.Func("server", "*listener6", "Serve")}
			for _, s := range serve {
				if s == nil {
					c.R.Fatalf("ANCHOR-UNRESOLVED: server.(*listenerN).Serve")
					return
				}
			}
			all := append(append([]*ssa.Function{}, fns...), serve...)
			// helpers the receive loops call (a buffer helper extracted from Serve, say)
			_, fromServe := ReachFirstParty(c.P, serve)
			for _, f := range fromServe {
				all = appendUniqueFn(all, f)
			}
			// the allocator API is part of what handlers rely on, whether or not a handler calls Free today
			inScope := map[*ssa.Function]bool{}
			for _, f := range all {
				inScope[f] = true
			}
			for _, f := range allocatorMethods(c) {
				if !inScope[f] {
					all = append(all, f)
					fns = append(fns, f)
				}
			}
			runSafety(c, "C01.", all, pred, "NILPATH", "NILSRC", "ASSERT", "BOUNDS", "MAPWRITE", "FUNCNIL", "ARITH", "LOCKPAIR")
			rulePanic(c, "C01.", fns, pred, ro)
			ruleNoBlock(c, "C01.", fns, pred)
			ruleSendOnce(c, "C01.", []*ssa.Function{ro.Handle4, ro.Handle6})
			ruleStubNonNil(c, "C01.STUBNONNIL", []*ssa.Function{ro.Handle4, ro.Handle6})
			ruleLockOrder(c, "C01.")
			ruleAllocIndexBounded(c, "C01.ALLOC.INDEX-IN-POOL") // bitset.Set(i) allocates i+1 bits: i must be bounded by the pool
			c.R.Floor("C01.PANIC", 3)
			c.R.Floor("C01.ASSERT", 3)
			c.R.Floor("C01.BOUNDS", 9)
			c.R.Floor("C01.NILSRC", 12)
			c.R.Floor("C01.LOCKPAIR", 8)
			c.R.Floor("C01.SENDONCE", 3)
			c.R.Floor("C01.STUBNONNIL", 2)
			c.R.Floor("C01.NOBLOCK", 20)
			c.R.Floor("C01.LOCKORDER", 4)
			ruleCallbackSharedWrites(c, "C01.CALLBACK-SHARED") // concurrent map writes are fatal, not recoverable
			c.R.Note("scope: %d first-party functions reachable from %d handler roots + 2 Serve loops", len(fns), 2+len(ro.AllHandlers()))
		},
	})
}

// allocatorMethods returns Allocate/Free (and their first-party callees) of
// every type implementing allocators.Allocator.
func allocatorMethods(c *Ctx) []*ssa.Function {
	n := c.P.NamedType("plugins/allocators", "Allocator")
	if n == nil {
		c.R.Fatalf("ANCHOR-UNRESOLVED: allocators.Allocator")
		return nil
	}
	iface := n.Underlying().(*types.Interface)
	var roots []*ssa.Function
	for _, pk := range c.P.Prog.AllPackages() {
		if !isFirstPartyPath(pk.Pkg.Path()) || pk.Pkg.Path() == fixturePkg {
			continue
		}
		for _, mem := range pk.Members {
			tn, ok := mem.(*ssa.Type)
			if !ok || types.IsInterface(tn.Type()) {
				continue
			}
			pt := types.NewPointer(tn.Type())
			if !types.Implements(pt, iface) {
				continue
			}
			for _, m := range []string{"Allocate", "Free"} {
				if sel := c.P.Prog.MethodSets.MethodSet(pt).Lookup(pk.Pkg, m); sel != nil {
					if f := c.P.Prog.MethodValue(sel); f != nil {
						roots = append(roots, f)
					}
				}
			}
		}
	}
	_, fns := ReachFirstParty(c.P, roots)
	return fns
}

// ruleStubNonNil: the response handed to the plugin chain is never nil (a
// typed nil boxed into the DHCPv6 interface included): built-in handlers
// dereference it without a check.
func ruleStubNonNil(c *Ctx, rule string, fns []*ssa.Function) {
	for _, fn := range fns {
		di := findDispatch(c, fn, "handlers")
		key := shortFn(fn) + " response handed to the chain"
		if di.Call == nil || di.Stub == nil {
			c.R.unk(rule, key, c.P.Pos(fn.Pos()), shortFn(fn), "dispatch loop not recognised")
			continue
		}
		ss := statesAt(c, fn, func(in ssa.Instruction) bool { return in == ssa.Instruction(di.Call) }, nil)
		bad := ""
		n := 0
		for _, st := range ss.Sites[di.Call] {
			n++
			// only the first iteration receives the stub; later ones receive a handler's result (CHAIN.RETNIL)
			if ns, _ := ss.Ex.NilState(st, di.Stub); ns != 0 {
				bad = fmt.Sprintf("the reply skeleton %s reaches the plugin chain without being shown non-nil (its constructor's error was not found nil on this path): handlers dereference it", shortName(stripAt(ss.Ex.Canon(st, di.Stub).S)))
			}
		}
		if bad != "" || n == 0 {
			if bad == "" {
				bad = "handler call not reached"
			}
			c.R.bad(rule, key, c.P.InstrPos(di.Call), shortFn(fn), bad)
		} else {
			c.R.ok(rule, key, c.P.InstrPos(di.Call), shortFn(fn), fmt.Sprintf("non-nil in all %d abstract states", n))
		}
	}
}
