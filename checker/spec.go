package main

import (
	"go/constant"
	"go/types"
	"regexp"
	"sort"
	"strconv"
	"strings"

	"golang.org/x/tools/go/ssa"
)

// three-valued logic: 1 true, 0 false, -1 unknown (atom not decided on the path)
func and3(xs ...int) int {
	unk := false
	for _, x := range xs {
		if x == 0 {
			return 0
		}
		if x < 0 {
			unk = true
		}
	}
	if unk {
		return -1
	}
	return 1
}

func or3(xs ...int) int {
	unk := false
	for _, x := range xs {
		if x == 1 {
			return 1
		}
		if x < 0 {
			unk = true
		}
	}
	if unk {
		return -1
	}
	return 0
}

func not3(x int) int {
	if x < 0 {
		return -1
	}
	return 1 - x
}

// histBool finds a decided boolean/nil/lt fact whose kind matches and whose X
// (and optional Y) match the regular expressions; returns its truth or -1.
func histFact(st *State, kind string, xre *regexp.Regexp) (int, *Fact) {
	for _, k := range sortedKeys(st.hist) {
		f := st.hist[k]
		if f.Kind == kind && xre.MatchString(f.X) {
			return b2i(f.Val), f
		}
	}
	return -1, nil
}

// histEq evaluates "X == c" for the eq-family whose subject matches xre.
func histEq(st *State, xre *regexp.Regexp, c string) (int, *Fact) {
	for _, k := range sortedKeys(st.hist) {
		f := st.hist[k]
		if f.Kind != "eq" || !xre.MatchString(f.X) {
			continue
		}
		if f.Eq != "" {
			return b2i(f.Eq == c), f
		}
		if len(f.In) > 0 {
			found := false
			for _, x := range f.In {
				if x == c {
					found = true
				}
			}
			if !found {
				return 0, f
			}
			if len(f.In) == 1 {
				return 1, f
			}
			return -1, f
		}
		for _, ne := range f.Ne {
			if ne == c {
				return 0, f
			}
		}
		return -1, f
	}
	return -1, nil
}

// histEqIn evaluates "X ∈ set".
func histEqIn(st *State, xre *regexp.Regexp, set []string) int {
	// a decided membership fact: X ∈ In with In ⊆ set is true
	for _, k := range sortedKeys(st.hist) {
		f := st.hist[k]
		if f.Kind == "eq" && xre.MatchString(f.X) && f.Eq == "" && len(f.In) > 0 {
			all := true
			for _, x := range f.In {
				ok := false
				for _, c := range set {
					if c == x {
						ok = true
					}
				}
				if !ok {
					all = false
				}
			}
			if all {
				return 1
			}
		}
	}
	res := 0
	for _, c := range set {
		v, _ := histEq(st, xre, c)
		if v == 1 {
			return 1
		}
		if v < 0 {
			res = -1
		}
	}
	return res
}

// histLenPos evaluates "len(X) > 0" for the length expression matching xre on
// the decided facts of the path (comparisons are kept in the normal forms
// `len == c` / `len ∉ {…}` / `len < c`).
func histLenPos(st *State, xre *regexp.Regexp) int {
	for _, k := range sortedKeys(st.hist) {
		f := st.hist[k]
		if !xre.MatchString(f.X) {
			continue
		}
		switch f.Kind {
		case "eq":
			if f.Eq != "" {
				return b2i(f.Eq != "0")
			}
			for _, ne := range f.Ne {
				if ne == "0" {
					return 1
				}
			}
		case "lt":
			if n, err := strconv.ParseInt(f.Y, 10, 64); err == nil && n >= 1 && !f.Val {
				return 1 // !(len < n), n ≥ 1
			}
		}
	}
	return -1
}

// histEqValue returns the constant the family is known to equal ("" if not known).
func histEqValue(st *State, xre *regexp.Regexp) (string, []string, bool) {
	for _, k := range sortedKeys(st.hist) {
		f := st.hist[k]
		if f.Kind == "eq" && xre.MatchString(f.X) {
			return f.Eq, f.Ne, true
		}
	}
	return "", nil, false
}

// constOf looks up a package-level constant of a dependency by value (P7).
func (p *Program) constOf(pkg, name string) (string, bool) {
	pk, ok := p.AllPkgs[pkg]
	if !ok || pk.Types == nil {
		return "", false
	}
	o := pk.Types.Scope().Lookup(name)
	c, ok := o.(*types.Const)
	if !ok {
		return "", false
	}
	return c.Val().ExactString(), true
}

func (p *Program) mustConst(r *Report, pkg, name string) string {
	v, ok := p.constOf(pkg, name)
	if !ok {
		r.Fatalf("ANCHOR-UNRESOLVED: constant %s.%s", pkg, name)
	}
	return v
}

func constString(v constant.Value) string { return v.ExactString() }

// statesAt explores fn once and records the abstract states reaching each
// instruction selected by pick, plus all exits.
type siteStates struct {
	Ex    *Explorer
	Sites map[ssa.Instruction][]*State
	Exits []exitState
}
type exitState struct {
	In ssa.Instruction
	St *State
}

func statesAt(c *Ctx, fn *ssa.Function, pick func(in ssa.Instruction) bool, label func(st *State, in ssa.Instruction) string) *siteStates {
	ex := NewExplorer(c.P, c.Pure, fn)
	ss := &siteStates{Ex: ex, Sites: map[ssa.Instruction][]*State{}}
	ex.Hooks.Instr = func(st *State, in ssa.Instruction) {
		if pick != nil && pick(in) {
			// snapshot: the state keeps being mutated by later instructions of the block
			ss.Sites[in] = append(ss.Sites[in], st.clone())
		}
	}
	ex.Hooks.Label = label
	ex.Hooks.Exit = func(st *State, in ssa.Instruction) {
		ss.Exits = append(ss.Exits, exitState{in, st.clone()})
	}
	ex.Run()
	return ss
}

func sortedInstrs(m map[ssa.Instruction][]*State) []ssa.Instruction {
	var out []ssa.Instruction
	for in := range m {
		out = append(out, in)
	}
	sort.Slice(out, func(i, j int) bool {
		if out[i].Block().Index != out[j].Block().Index {
			return out[i].Block().Index < out[j].Block().Index
		}
		return instrIndex(out[i]) < instrIndex(out[j])
	})
	return out
}

func reQ(s string) string { return regexp.QuoteMeta(s) }

// stripAt removes instruction identities from a canonical string for display / matching.
func stripAt(s string) string { return reTemp.ReplaceAllString(s, "") }

func hasAny(s string, subs ...string) bool {
	for _, x := range subs {
		if strings.Contains(s, x) {
			return true
		}
	}
	return false
}
