package main

import (
	"fmt"
	"go/token"
	"go/types"
	"os"
	"path/filepath"
	"sort"
	"strings"

	"golang.org/x/tools/go/callgraph"
	"golang.org/x/tools/go/callgraph/cha"
	"golang.org/x/tools/go/callgraph/vta"
	"golang.org/x/tools/go/packages"
	"golang.org/x/tools/go/ssa"
	"golang.org/x/tools/go/ssa/ssautil"
)

const modPath = "github.com/coredhcp/coredhcp"

// Program is the loaded, type-checked and SSA-built view of /repo's working tree.
type Program struct {
	Repo    string
	Fset    *token.FileSet
	Pkgs    []*packages.Package          // root (first-party) packages
	AllPkgs map[string]*packages.Package // by path, dependency closure
	Prog    *ssa.Program
	SSAPkg  map[string]*ssa.Package
	cg      *callgraph.Graph
	allFns  map[*ssa.Function]bool
	Env     []string
	Config  string // e.g. linux/amd64
}

// requiredPkgs are the first-party packages that must be present for the run
// to be meaningful; a missing one fails the check (never a vacuous pass).
var requiredPkgs = []string{
	"server", "config", "handler", "plugins", "logger",
	"plugins/allocators", "plugins/allocators/bitmap", "cmds/coredhcp",
	"plugins/autoconfigure", "plugins/dns", "plugins/file", "plugins/ipv6only",
	"plugins/leasetime", "plugins/mtu", "plugins/nbp", "plugins/netmask",
	"plugins/prefix", "plugins/range", "plugins/router", "plugins/searchdomains",
	"plugins/serverid", "plugins/sleep", "plugins/staticroute",
}

// LoadProgram loads ./... of repo with the given extra environment (for
// GOARCH variants) and overlay (fixtures, mutants). It fails on any type error
// in a first-party package.
func LoadProgram(repo string, extraEnv []string, overlay map[string][]byte) (*Program, error) {
	env := append(os.Environ(),
		"GOFLAGS=-mod=mod", "GOPROXY=off", "GOSUMDB=off", "GOTOOLCHAIN=local", "GOWORK=off")
	env = append(env, extraEnv...)
	fset := token.NewFileSet()
	cfg := &packages.Config{
		Mode:    packages.LoadAllSyntax,
		Dir:     repo,
		Fset:    fset,
		Env:     env,
		Tests:   false,
		Overlay: overlay,
	}
	pkgs, err := packages.Load(cfg, "./...")
	if err != nil {
		return nil, fmt.Errorf("packages.Load: %w", err)
	}
	if len(pkgs) == 0 {
		return nil, fmt.Errorf("no packages loaded from %s", repo)
	}
	p := &Program{Repo: repo, Fset: fset, Pkgs: pkgs, AllPkgs: map[string]*packages.Package{}, SSAPkg: map[string]*ssa.Package{}, Env: extraEnv}
	var errs []string
	packages.Visit(pkgs, nil, func(pk *packages.Package) {
		p.AllPkgs[pk.PkgPath] = pk
		if isFirstPartyPath(pk.PkgPath) {
			for _, e := range pk.Errors {
				errs = append(errs, e.Error())
			}
		}
	})
	if len(errs) > 0 {
		sort.Strings(errs)
		return nil, fmt.Errorf("type/load errors in first-party packages:\n  %s", strings.Join(errs, "\n  "))
	}
	for _, r := range requiredPkgs {
		if _, ok := p.AllPkgs[modPath+"/"+r]; !ok {
			return nil, fmt.Errorf("ANCHOR-UNRESOLVED: required package %s/%s not loaded", modPath, r)
		}
	}
	prog, _ := ssautil.AllPackages(pkgs, ssa.InstantiateGenerics)
	prog.Build()
	p.Prog = prog
	for _, sp := range prog.AllPackages() {
		p.SSAPkg[sp.Pkg.Path()] = sp
	}
	return p, nil
}

func isFirstPartyPath(path string) bool {
	return path == modPath || strings.HasPrefix(path, modPath+"/")
}

// FirstParty reports whether fn belongs to the module under analysis
// (fixtures are first-party too; rules filter them by isFixture).
func FirstParty(fn *ssa.Function) bool {
	if fn == nil {
		return false
	}
	if fn.Pkg != nil {
		return isFirstPartyPath(fn.Pkg.Pkg.Path())
	}
	if fn.Parent() != nil {
		return FirstParty(fn.Parent())
	}
	// wrappers/bound methods: look at the object
	if o := fn.Object(); o != nil && o.Pkg() != nil {
		return isFirstPartyPath(o.Pkg().Path())
	}
	return false
}

func fnPkgPath(fn *ssa.Function) string {
	for f := fn; f != nil; f = f.Parent() {
		if f.Pkg != nil {
			return f.Pkg.Pkg.Path()
		}
	}
	if o := fn.Object(); o != nil && o.Pkg() != nil {
		return o.Pkg().Path()
	}
	return ""
}

const fixturePkg = modPath + "/plugins/zzverif_fixture"

func isFixture(fn *ssa.Function) bool { return fnPkgPath(fn) == fixturePkg }

// AllFunctions returns every function of the program (cached).
func (p *Program) AllFunctions() map[*ssa.Function]bool {
	if p.allFns == nil {
		p.allFns = ssautil.AllFunctions(p.Prog)
	}
	return p.allFns
}

// SrcFuncs returns all first-party source functions (including anonymous
// ones), sorted by position for deterministic output.
func (p *Program) SrcFuncs() []*ssa.Function {
	var out []*ssa.Function
	for fn := range p.AllFunctions() {
		if !FirstParty(fn) || fn.Synthetic != "" || len(fn.Blocks) == 0 {
			continue
		}
		out = append(out, fn)
	}
	sort.Slice(out, func(i, j int) bool { return fnLess(p, out[i], out[j]) })
	return out
}

func fnLess(p *Program, a, b *ssa.Function) bool {
	pa, pb := p.Fset.Position(a.Pos()), p.Fset.Position(b.Pos())
	if pa.Filename != pb.Filename {
		return pa.Filename < pb.Filename
	}
	if pa.Line != pb.Line {
		return pa.Line < pb.Line
	}
	return a.String() < b.String()
}

// CallGraph builds (once) the VTA call graph seeded by CHA.
func (p *Program) CallGraph() *callgraph.Graph {
	if p.cg == nil {
		p.cg = vta.CallGraph(p.AllFunctions(), cha.CallGraph(p.Prog))
	}
	return p.cg
}

// Func looks up a package-level function or method by package path (relative
// to the module, or absolute for dependencies), optional receiver type name
// and name. It returns nil when the anchor does not exist.
func (p *Program) Func(pkg, recv, name string) *ssa.Function {
	sp := p.pkg(pkg)
	if sp == nil {
		return nil
	}
	if recv == "" {
		return sp.Func(name)
	}
	ptr := strings.HasPrefix(recv, "*")
	tn := strings.TrimPrefix(recv, "*")
	m := sp.Members[tn]
	t, ok := m.(*ssa.Type)
	if !ok {
		return nil
	}
	var typ types.Type = t.Type()
	if ptr {
		typ = types.NewPointer(typ)
	}
	sel := p.Prog.MethodSets.MethodSet(typ).Lookup(sp.Pkg, name)
	if sel == nil {
		return nil
	}
	return p.Prog.MethodValue(sel)
}

func (p *Program) pkg(path string) *ssa.Package {
	if sp, ok := p.SSAPkg[path]; ok {
		return sp
	}
	if sp, ok := p.SSAPkg[modPath+"/"+path]; ok {
		return sp
	}
	return nil
}

// Global returns the package-level variable pkg.name or nil.
func (p *Program) Global(pkg, name string) *ssa.Global {
	sp := p.pkg(pkg)
	if sp == nil {
		return nil
	}
	g, _ := sp.Members[name].(*ssa.Global)
	return g
}

// NamedType returns the named type pkg.name or nil.
func (p *Program) NamedType(pkg, name string) *types.Named {
	sp := p.pkg(pkg)
	if sp == nil {
		return nil
	}
	t, ok := sp.Members[name].(*ssa.Type)
	if !ok {
		return nil
	}
	n, _ := t.Type().(*types.Named)
	return n
}

// Pos renders a position relative to the repo root.
func (p *Program) Pos(pos token.Pos) string {
	if !pos.IsValid() {
		return "-"
	}
	ps := p.Fset.Position(pos)
	rel, err := filepath.Rel(p.Repo, ps.Filename)
	if err != nil || strings.HasPrefix(rel, "..") {
		rel = ps.Filename
	}
	return fmt.Sprintf("%s:%d", rel, ps.Line)
}

// InstrPos finds the best source position for an instruction (some SSA
// instructions carry NoPos; fall back to neighbours in the block).
func (p *Program) InstrPos(in ssa.Instruction) string {
	if in == nil {
		return "-"
	}
	if in.Pos().IsValid() {
		return p.Pos(in.Pos())
	}
	if v, ok := in.(ssa.Value); ok {
		_ = v
	}
	b := in.Block()
	if b != nil {
		idx := -1
		for i, x := range b.Instrs {
			if x == in {
				idx = i
			}
		}
		for d := 1; d < len(b.Instrs); d++ {
			for _, j := range []int{idx - d, idx + d} {
				if j >= 0 && j < len(b.Instrs) && b.Instrs[j].Pos().IsValid() {
					return p.Pos(b.Instrs[j].Pos())
				}
			}
		}
		if b.Parent() != nil {
			return p.Pos(b.Parent().Pos())
		}
	}
	return "-"
}

// shortFn renders a function name with the module prefix stripped.
func shortFn(fn *ssa.Function) string {
	if fn == nil {
		return "<nil>"
	}
	return strings.ReplaceAll(fn.String(), modPath+"/", "")
}

func shortName(s string) string {
	s = strings.ReplaceAll(s, modPath+"/", "")
	s = strings.ReplaceAll(s, "github.com/insomniacslk/dhcp/", "")
	s = strings.ReplaceAll(s, "github.com/bits-and-blooms/", "")
	s = strings.ReplaceAll(s, "golang.org/x/net/", "x/net/")
	return s
}
