package main

import (
	"go/types"
	"regexp"
	"strings"

	"golang.org/x/tools/go/ssa"
)

// Named anchors. The properties name a number of *unexported* helpers
// (toIndex, toOffset, saveIPAddress, getListenAddress, ...). Rules resolve
// them through this table: by name first, and - when a function of that name
// no longer exists in the package - by the unique function of the package that
// has the anchor's receiver kind and signature, so that renaming an unexported
// helper does not unhook the rules. Regular expressions over canonical
// strings use an(key) (the anchor's current name), never the literal name.
type anchorDef struct {
	key  string // the name on the pinned tree
	pkg  string // package path suffix
	recv string // receiver type name ("" = plain function)
	sig  string // signature without receiver and parameter names, package-name qualified
}

var anchorDefs = []anchorDef{
	{"toIndex", "plugins/allocators/bitmap", "Allocator", "func(net.IP) (uint, error)"},
	{"toPrefix", "plugins/allocators/bitmap", "Allocator", "func(uint) (net.IP, error)"},
	{"toOffset", "plugins/allocators/bitmap", "IPv4Allocator", "func(net.IP) (uint, error)"},
	{"toIP", "plugins/allocators/bitmap", "IPv4Allocator", "func(uint32) net.IP"},
	{"recordKey", "plugins/prefix", "", "func(dhcpv6.DUID) string"},
	{"samePrefix", "plugins/prefix", "", "func(*net.IPNet, *net.IPNet) bool"},
	{"addPrefix", "plugins/prefix", "", "func(*dhcpv6.OptIAPD, prefix.lease)"},
	{"dup", "plugins/prefix", "", "func(*net.IPNet) *net.IPNet"},
	{"saveIPAddress", "plugins/range", "PluginState", "func(net.HardwareAddr, *rangeplugin.Record) error"},
	{"loadRecords", "plugins/range", "", "func(*sql.DB) (map[string]*rangeplugin.Record, error)"},
	{"parseHWAddr", "plugins/range", "", "func(string) (net.HardwareAddr, error)"},
	{"setupRange", "plugins/range", "", "func(...string) (handler.Handler4, error)"},
	{"splitHostPort", "config", "", "func(string) (string, string, string, error)"},
	{"protoVersionCheck", "config", "", "func(config.protocolVersion) error"},
	{"defaultListen", "config", "", "func(config.protocolVersion) ([]net.UDPAddr, error)"},
	{"getListenAddress", "config", "*", "func(string, config.protocolVersion) (*net.UDPAddr, error)"},
	{"parseListen", "config", "Config", "func(config.protocolVersion) ([]net.UDPAddr, error)"},
	{"parsePlugins", "config", "", "func([]interface{}) ([]config.PluginConfig, error)"},
	{"getPlugins", "config", "Config", "func(config.protocolVersion) ([]config.PluginConfig, error)"},
	{"parseConfig", "config", "Config", "func(config.protocolVersion) error"},
	{"expandLLMulticast", "config", "", "func(*net.UDPAddr) ([]net.UDPAddr, error)"},
	{"loadFromFile", "plugins/file", "", "func(bool, string) error"},
	{"setupFile", "plugins/file", "", "func(bool, ...string) (handler.Handler6, handler.Handler4, error)"},
	{"sendEthernet", "server", "", "func(net.Interface, *dhcpv4.DHCPv4) error"},
	{"listen4", "server", "", "func(*net.UDPAddr) (*server.listener4, error)"},
	{"listen6", "server", "", "func(*net.UDPAddr) (*server.listener6, error)"},
}

var curProg *Program // the program being analysed (set by LoadProgram's callers)

var anchorMemo = map[*Program]map[string]*ssa.Function{}

func sigString(fn *ssa.Function) string {
	strip := func(t *types.Tuple) *types.Tuple {
		var vs []*types.Var
		for i := 0; i < t.Len(); i++ {
			vs = append(vs, types.NewVar(0, nil, "", t.At(i).Type()))
		}
		return types.NewTuple(vs...)
	}
	s := fn.Signature
	ns := types.NewSignatureType(nil, nil, nil, strip(s.Params()), strip(s.Results()), s.Variadic())
	return types.TypeString(ns, func(p *types.Package) string { return p.Name() })
}

func recvName(fn *ssa.Function) string {
	r := fn.Signature.Recv()
	if r == nil {
		return ""
	}
	t := r.Type()
	if p, ok := t.(*types.Pointer); ok {
		t = p.Elem()
	}
	if n, ok := t.(*types.Named); ok {
		return n.Obj().Name()
	}
	return "?"
}

// Anchor resolves a named anchor in p (nil when neither the name nor a unique
// signature match exists).
func (p *Program) Anchor(key string) *ssa.Function {
	m := anchorMemo[p]
	if m == nil {
		m = map[string]*ssa.Function{}
		anchorMemo[p] = m
	}
	if fn, ok := m[key]; ok {
		return fn
	}
	var def *anchorDef
	for i := range anchorDefs {
		if anchorDefs[i].key == key {
			def = &anchorDefs[i]
		}
	}
	if def == nil {
		m[key] = nil
		return nil
	}
	recvOK := func(fn *ssa.Function) bool {
		return def.recv == "*" || recvName(fn) == def.recv
	}
	var byName, bySig, byBareName []*ssa.Function
	for _, fn := range p.SrcFuncs() {
		if fn.Parent() != nil || !strings.HasSuffix(fnPkgPath(fn), "/"+def.pkg) {
			continue
		}
		if fn.Name() == key {
			byBareName = append(byBareName, fn)
		}
		if fn.Name() == key && recvOK(fn) {
			byName = append(byName, fn)
		}
		if recvOK(fn) && sigString(fn) == def.sig {
			bySig = append(bySig, fn)
		}
	}
	var res *ssa.Function
	switch {
	case len(byName) == 1:
		res = byName[0]
	case len(byName) == 0 && len(bySig) == 1:
		res = bySig[0] // renamed: the only function of the package with the anchor's shape
	case len(byName) == 0 && len(byBareName) == 1:
		res = byBareName[0] // same name, turned into (or from) a method
	}
	m[key] = res
	return res
}

// an: the current (regexp-quoted) name of a named anchor, for patterns over canonical strings.
func an(key string) string {
	if curProg != nil {
		if fn := curProg.Anchor(key); fn != nil {
			return regexp.QuoteMeta(fn.Name())
		}
	}
	return regexp.QuoteMeta(key)
}

// isAnchor: fn is the named anchor key of the program being analysed.
func isAnchor(fn *ssa.Function, key string) bool {
	return fn != nil && curProg != nil && curProg.Anchor(key) == fn
}

// anchorKeyOf: the anchor key fn resolves to ("" if none).
func anchorKeyOf(fn *ssa.Function) string {
	if curProg == nil || fn == nil {
		return ""
	}
	for i := range anchorDefs {
		if curProg.Anchor(anchorDefs[i].key) == fn {
			return anchorDefs[i].key
		}
	}
	return ""
}

// anRaw: the current name of a named anchor (not regexp-quoted).
func anRaw(key string) string {
	if curProg != nil {
		if fn := curProg.Anchor(key); fn != nil {
			return fn.Name()
		}
	}
	return key
}
