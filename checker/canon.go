package main

import (
	"fmt"
	"go/token"
	"go/types"
	"sort"
	"strings"

	"golang.org/x/tools/go/ssa"
)

// memRead describes memory a canonical expression depends on: a location path
// (string prefix semantics), the struct field object (if the last step was a
// field), or a global.
type memRead struct {
	Path   string
	Field  *types.Var
	Global *ssa.Global
	Elem   bool   // element of slice/array/map
	ElemT  string // element type (for Elem reads)
	Deep   bool   // reads everything reachable under Path (pure call argument)
}

// CE is a canonical expression: a rendering of an SSA value in which loads of
// the same location, pure calls with the same arguments, and the path-resolved
// values of phis/local variables render identically.
type CE struct {
	S     string
	Deps  map[ssa.Value]bool
	Reads []memRead
	V     ssa.Value // the value after resolution through phis / local stores / interface wrapping
	V0    ssa.Value // the value as written (before resolution)
	Atom  *Atom     // for a boolean stored into a tracked local: its decoded atom at store time
}

type canonCtx struct {
	ex    *Explorer
	st    *State
	deps  map[ssa.Value]bool
	reads []memRead
	depth int
	// single: resolve any index into a local array of length 1 to element 0
	// (only for dedicated queries: rule patterns rely on the symbolic index)
	single bool
}

// CanonSingleton is Canon with indices into length-1 local arrays resolved.
func (ex *Explorer) CanonSingleton(st *State, v ssa.Value) *CE {
	c := &canonCtx{ex: ex, st: st, deps: map[ssa.Value]bool{}, single: true}
	s := c.val(v)
	return &CE{S: s, Deps: c.deps, Reads: c.reads, V: ex.Resolve(st, v), V0: v}
}

func (ex *Explorer) Canon(st *State, v ssa.Value) *CE {
	c := &canonCtx{ex: ex, st: st, deps: map[ssa.Value]bool{}}
	s := c.val(v)
	return &CE{S: s, Deps: c.deps, Reads: c.reads, V: ex.Resolve(st, v), V0: v}
}

// CanonAddr renders the location an address value points to.
func (ex *Explorer) CanonAddr(st *State, v ssa.Value) *CE {
	c := &canonCtx{ex: ex, st: st, deps: map[ssa.Value]bool{}}
	s := c.loc(v)
	return &CE{S: s, Deps: c.deps, Reads: c.reads, V: v}
}

func constStr(c *ssa.Const) string {
	if c.Value == nil {
		return "nil"
	}
	s := c.Value.ExactString()
	if len(s) > 80 {
		s = s[:80] + "…"
	}
	return s
}

// nm names an SSA value; values of inlined callees are qualified by their function.
func (c *canonCtx) nm(v ssa.Value) string {
	return c.ex.vname(v)
}

func (ex *Explorer) vname(v ssa.Value) string {
	if ex != nil {
		if in, ok := v.(ssa.Instruction); ok && in.Parent() != nil && in.Parent() != ex.Fn {
			return in.Parent().Name() + "·" + v.Name()
		}
	}
	return v.Name()
}

func (c *canonCtx) param(p *ssa.Parameter) string {
	// parameter of an inlined callee: the caller's argument
	if c.st != nil {
		for i := len(c.st.frames) - 1; i >= 0; i-- {
			fr := c.st.frames[i]
			if fr.fn == p.Parent() {
				for j, q := range fr.fn.Params {
					if q == p && j < len(fr.params) {
						ce := fr.params[j]
						for d := range ce.Deps {
							c.deps[d] = true
						}
						c.reads = append(c.reads, ce.Reads...)
						return ce.S
					}
				}
			}
		}
	}
	for i, q := range p.Parent().Params {
		if q == p {
			return fmt.Sprintf("$%d", i)
		}
	}
	return "$?" + p.Name()
}

func fieldOf(t types.Type, idx int) *types.Var {
	if p, ok := t.Underlying().(*types.Pointer); ok {
		t = p.Elem()
	}
	st, ok := t.Underlying().(*types.Struct)
	if !ok || idx >= st.NumFields() {
		return nil
	}
	return st.Field(idx)
}

// loc renders the location designated by an address-typed value.
func (c *canonCtx) loc(v ssa.Value) string {
	c.depth++
	defer func() { c.depth-- }()
	if c.depth > 40 {
		return "…"
	}
	switch x := v.(type) {
	case *ssa.FieldAddr:
		f := fieldOf(x.X.Type(), x.Field)
		name := fmt.Sprintf("f%d", x.Field)
		if f != nil {
			name = f.Name()
		}
		return c.base(x.X) + "." + name
	case *ssa.IndexAddr:
		if al := c.singletonArray(x.X); al != nil && c.single {
			// any in-bounds index into an array of length 1 designates element 0
			c.deps[al] = true
			return "new@" + c.nm(al) + "[0]"
		}
		return c.base(x.X) + "[" + c.val(x.Index) + "]"
	case *ssa.Global:
		return x.String()
	case *ssa.Alloc:
		c.deps[x] = true
		return "new@" + c.nm(x)
	case *ssa.FreeVar:
		if c.st != nil {
			if b := c.st.boundFree(x); b != nil {
				return c.loc(b)
			}
		}
	case *ssa.Phi:
		if r, ok := c.resolvePhi(x); ok {
			return c.loc(r)
		}
	case *ssa.ChangeType:
		return c.loc(x.X)
	}
	// a pointer value computed some other way: the location is *that
	return c.base(v)
}

// base renders a pointer (or value) used as the base of a selection; the
// address-of marker is dropped so that (&x).f and x.f agree.
func (c *canonCtx) base(v ssa.Value) string {
	s := c.val(v)
	return strings.TrimPrefix(s, "&")
}

// singletonArray: v is (a whole-array slice of) a local array of length 1.
func (c *canonCtx) singletonArray(v ssa.Value) *ssa.Alloc {
	for i := 0; i < 8; i++ {
		switch x := v.(type) {
		case *ssa.Phi:
			r, ok := c.resolvePhi(x)
			if !ok {
				return nil
			}
			v = r
		case *ssa.ChangeType:
			v = x.X
		case *ssa.Slice:
			if x.Low != nil || x.High != nil || x.Max != nil {
				return nil
			}
			v = x.X
		case *ssa.Alloc:
			if pt, ok := x.Type().Underlying().(*types.Pointer); ok {
				if at, ok := pt.Elem().Underlying().(*types.Array); ok && at.Len() == 1 {
					return x
				}
			}
			return nil
		default:
			return nil
		}
	}
	return nil
}

func (c *canonCtx) resolvePhi(x *ssa.Phi) (ssa.Value, bool) {
	if c.st == nil {
		return nil, false
	}
	if i, ok := c.st.phis[x]; ok && i >= 0 && i < len(x.Edges) {
		return x.Edges[i], true
	}
	return nil, false
}

func (c *canonCtx) args(vs []ssa.Value) string {
	parts := make([]string, len(vs))
	for i, a := range vs {
		parts[i] = c.val(a)
	}
	return strings.Join(parts, ",")
}

func pointerLike(t types.Type) bool {
	switch t.Underlying().(type) {
	case *types.Pointer, *types.Slice, *types.Map, *types.Interface, *types.Chan, *types.Signature:
		return true
	}
	return false
}

func (c *canonCtx) val(v ssa.Value) string {
	c.depth++
	defer func() { c.depth-- }()
	if c.depth > 40 {
		return "…"
	}
	switch x := v.(type) {
	case nil:
		return "<nil>"
	case *ssa.Const:
		return constStr(x)
	case *ssa.Parameter:
		return c.param(x)
	case *ssa.FreeVar:
		if c.st != nil {
			if b := c.st.boundFree(x); b != nil {
				return c.val(b)
			}
		}
		return "free:" + x.Name()
	case *ssa.Global:
		return "&" + x.String()
	case *ssa.Function:
		return "fn:" + x.String()
	case *ssa.Builtin:
		return "builtin:" + x.Name()
	case *ssa.Alloc:
		c.deps[x] = true
		return "&new@" + c.nm(x)
	case *ssa.FieldAddr, *ssa.IndexAddr:
		return "&" + c.loc(v)
	case *ssa.Field:
		f := fieldOf(x.X.Type(), x.Field)
		name := fmt.Sprintf("f%d", x.Field)
		if f != nil {
			name = f.Name()
		}
		path := c.base(x.X) + "." + name
		// a field of a struct value that is (a copy of) a tracked local - e.g. the struct an
		// inlined helper built and returned by value: the value last stored into that field
		if c.st != nil && strings.HasPrefix(path, "new@") {
			if e, ok := c.st.lookupStore(path); ok && e.suffix == "" {
				for d := range e.ce.Deps {
					c.deps[d] = true
				}
				c.reads = append(c.reads, e.ce.Reads...)
				return e.ce.S
			}
			// never stored on this path: the field still has its zero value
			if _, found := c.st.lookupStore(path); !found && !c.st.killedAround(path) && rootAllocKnown(c.st, path) {
				switch t := x.Type().Underlying().(type) {
				case *types.Basic:
					switch {
					case t.Info()&types.IsBoolean != 0:
						return "false"
					case t.Info()&types.IsNumeric != 0:
						return "0"
					case t.Info()&types.IsString != 0:
						return `""`
					}
				case *types.Pointer, *types.Slice, *types.Map, *types.Interface, *types.Signature, *types.Chan:
					return "nil"
				}
			}
		}
		return path
	case *ssa.Index:
		return c.base(x.X) + "[" + c.val(x.Index) + "]"
	case *ssa.UnOp:
		switch x.Op {
		case token.MUL:
			return c.load(x)
		case token.NOT:
			return "!" + c.val(x.X)
		case token.SUB:
			return "-" + c.val(x.X)
		case token.XOR:
			return "^" + c.val(x.X)
		case token.ARROW:
			c.deps[x] = true
			return "<-@" + c.nm(x)
		}
	case *ssa.BinOp:
		a, b := c.val(x.X), c.val(x.Y)
		return "(" + a + " " + x.Op.String() + " " + b + ")"
	case *ssa.Phi:
		if r, ok := c.resolvePhi(x); ok {
			return c.val(r)
		}
		c.deps[x] = true
		return "φ" + c.nm(x)
	case *ssa.ChangeType:
		return c.val(x.X)
	case *ssa.ChangeInterface:
		return c.val(x.X)
	case *ssa.MakeInterface:
		return c.val(x.X)
	case *ssa.Convert:
		return "conv<" + shortType(x.Type()) + ">(" + c.val(x.X) + ")"
	case *ssa.Slice:
		lo, hi, mx := "", "", ""
		if x.Low != nil {
			lo = c.val(x.Low)
		}
		if x.High != nil {
			hi = c.val(x.High)
		}
		if x.Max != nil {
			mx = ":" + c.val(x.Max)
		}
		return c.base(x.X) + "[" + lo + ":" + hi + mx + "]"
	case *ssa.Extract:
		if call, ok := x.Tuple.(*ssa.Call); ok && c.st != nil {
			if res, ok := c.st.callres[call]; ok && x.Index < len(res) {
				ce := res[x.Index]
				for d := range ce.Deps {
					c.deps[d] = true
				}
				c.reads = append(c.reads, ce.Reads...)
				return ce.S
			}
		}
		return c.val(x.Tuple) + "#" + fmt.Sprint(x.Index)
	case *ssa.Lookup:
		c.deps[x] = true
		m := c.val(x.X)
		k := c.val(x.Index)
		c.reads = append(c.reads, memRead{Path: strings.TrimPrefix(m, "&"), Elem: true, ElemT: "map"})
		if x.CommaOk {
			return "lookup@" + c.nm(x) + "(" + m + "," + k + ")"
		}
		return m + "[" + k + "]"
	case *ssa.TypeAssert:
		s := c.val(x.X) + ".(" + shortType(x.AssertedType) + ")"
		if x.CommaOk {
			c.deps[x] = true
			return "assert@" + c.nm(x) + ":" + s
		}
		return s
	case *ssa.MakeSlice:
		c.deps[x] = true
		return "make@" + c.nm(x)
	case *ssa.MakeMap:
		c.deps[x] = true
		return "makemap@" + c.nm(x)
	case *ssa.MakeChan:
		c.deps[x] = true
		return "makechan@" + c.nm(x)
	case *ssa.MakeClosure:
		c.deps[x] = true
		return "closure:" + x.Fn.Name() + "@" + c.nm(x)
	case *ssa.Call:
		return c.call(x)
	case *ssa.Next:
		c.deps[x] = true
		return "next@" + c.nm(x)
	case *ssa.Range:
		c.deps[x] = true
		return "range@" + c.nm(x) + "(" + c.val(x.X) + ")"
	}
	c.deps[v] = true
	return fmt.Sprintf("%T@%s", v, c.nm(v))
}

func shortType(t types.Type) string {
	return types.TypeString(t, func(p *types.Package) string { return p.Path() })
}

func (c *canonCtx) call(x *ssa.Call) string {
	cc := &x.Call
	if c.st != nil {
		if res, ok := c.st.callres[x]; ok {
			for _, ce := range res {
				for d := range ce.Deps {
					c.deps[d] = true
				}
				c.reads = append(c.reads, ce.Reads...)
			}
			if len(res) == 1 {
				return res[0].S
			}
			parts := make([]string, len(res))
			for i, ce := range res {
				parts[i] = ce.S
			}
			return "tuple(" + strings.Join(parts, ";") + ")"
		}
	}
	if b, ok := cc.Value.(*ssa.Builtin); ok {
		switch b.Name() {
		case "len", "cap", "min", "max":
			return b.Name() + "(" + c.args(cc.Args) + ")"
		}
		c.deps[x] = true
		return b.Name() + "@" + c.nm(x) + "(" + c.args(cc.Args) + ")"
	}
	pure := c.ex != nil && c.ex.Pure != nil && c.ex.Pure.IsPureCall(cc)
	var name string
	var args []ssa.Value
	if cc.IsInvoke() {
		name = "invoke:" + invokeName(cc)
		args = append([]ssa.Value{cc.Value}, cc.Args...)
	} else if fn := cc.StaticCallee(); fn != nil {
		name = fn.String()
		args = cc.Args
		if mc, ok := cc.Value.(*ssa.MakeClosure); ok {
			_ = mc
			name = "closure:" + fn.Name()
		}
	} else if fn, ok := c.resolvedCallee(cc.Value); ok {
		// a function-typed parameter of an inlined helper bound to a named function (or method
		// expression) at the call site: the same call as if it were written out there
		name = fn.String()
		args = cc.Args
		pure = c.ex != nil && c.ex.Pure != nil && c.ex.Pure.pure[fn]
	} else {
		name = "dyn"
		args = append([]ssa.Value{cc.Value}, cc.Args...)
	}
	as := c.args(args)
	if pure {
		// a pure call reads (at most) the memory reachable from its arguments
		for i, a := range args {
			if pointerLike(a.Type()) {
				s := strings.TrimPrefix(c.val(a), "&")
				_ = i
				c.reads = append(c.reads, memRead{Path: s, Deep: true})
			}
		}
		return name + "(" + as + ")"
	}
	c.deps[x] = true
	return name + "@" + c.nm(x) + "(" + as + ")"
}

// resolvedCallee: the named function a dynamic callee value denotes on this path.
func (c *canonCtx) resolvedCallee(v ssa.Value) (*ssa.Function, bool) {
	if c.st == nil || c.ex == nil {
		return nil, false
	}
	fn, ok := c.ex.Resolve(c.st, v).(*ssa.Function)
	if !ok || fn == nil {
		return nil, false
	}
	// a method expression (T.m) is a synthetic thunk around the method: name the method itself
	if strings.HasPrefix(fn.Synthetic, "thunk") || strings.HasSuffix(fn.Name(), "$thunk") {
		var target *ssa.Function
		n := 0
		for _, b := range fn.Blocks {
			for _, in := range b.Instrs {
				if call, ok := in.(*ssa.Call); ok {
					if f := call.Call.StaticCallee(); f != nil {
						target = f
						n++
					}
				}
			}
		}
		if n == 1 {
			return target, true
		}
	}
	return fn, true
}

// load renders a memory read. Reads of tracked local variables resolve to the
// value last stored on the current abstract path.
func (c *canonCtx) load(x *ssa.UnOp) string {
	p := c.loc(x.X)
	if c.st != nil && strings.HasPrefix(p, "new@") {
		if e, ok := c.st.lookupStore(p); ok {
			for d := range e.ce.Deps {
				c.deps[d] = true
			}
			c.reads = append(c.reads, e.ce.Reads...)
			if e.suffix != "" && strings.HasPrefix(e.ce.S, "new@") {
				if s2, ok := c.st.ReadLocal(e.ce.S + e.suffix); ok {
					return s2
				}
			}
			return e.ce.S + e.suffix
		}
	}
	r := memRead{Path: p}
	switch a := x.X.(type) {
	case *ssa.FieldAddr:
		r.Field = fieldOf(a.X.Type(), a.Field)
	case *ssa.Global:
		r.Global = a
	case *ssa.IndexAddr:
		r.Elem = true
		r.ElemT = shortType(x.Type())
	}
	c.reads = append(c.reads, r)
	return p
}

// Resolve peels phis (by the path's resolution), loads of tracked locals and
// representation-preserving wrappers, returning the underlying SSA value.
func (ex *Explorer) Resolve(st *State, v ssa.Value) ssa.Value {
	for i := 0; i < 30; i++ {
		switch x := v.(type) {
		case *ssa.Phi:
			if st != nil {
				if k, ok := st.phis[x]; ok && k >= 0 && k < len(x.Edges) {
					v = x.Edges[k]
					continue
				}
			}
			return v
		case *ssa.Parameter:
			if st != nil {
				if a := st.boundArg(x); a != nil && a.V != nil && a.V != v {
					v = a.V
					continue
				}
			}
			return v
		case *ssa.Field:
			if st != nil {
				c := &canonCtx{ex: ex, st: st, deps: map[ssa.Value]bool{}}
				f := fieldOf(x.X.Type(), x.Field)
				if f != nil {
					path := c.base(x.X) + "." + f.Name()
					if strings.HasPrefix(path, "new@") {
						if e, ok := st.lookupStore(path); ok && e.suffix == "" && e.ce.V0 != nil && e.ce.V0 != v {
							v = e.ce.V0
							continue
						}
					}
				}
			}
			return v
		case *ssa.FreeVar:
			if st != nil {
				if b := st.boundFree(x); b != nil && b != v {
					v = b
					continue
				}
			}
			return v
		case *ssa.ChangeType:
			v = x.X
			continue
		case *ssa.ChangeInterface:
			v = x.X
			continue
		case *ssa.MakeInterface:
			v = x.X
			continue
		case *ssa.UnOp:
			if x.Op == token.MUL && st != nil {
				c := &canonCtx{ex: ex, st: st, deps: map[ssa.Value]bool{}}
				p := c.loc(x.X)
				if strings.HasPrefix(p, "new@") {
					if ce, _, _ := st.exactEntry(p); ce != nil && ce.V != nil {
						v = ce.V
						continue
					}
				}
			}
			return v
		}
		return v
	}
	return v
}

func definitelyNonNil(v ssa.Value) bool {
	switch x := v.(type) {
	case *ssa.Alloc, *ssa.FieldAddr, *ssa.IndexAddr, *ssa.MakeSlice, *ssa.MakeMap, *ssa.MakeClosure,
		*ssa.MakeInterface, *ssa.Function, *ssa.Global, *ssa.MakeChan:
		return true
	case *ssa.Const:
		return x.Value != nil
	case *ssa.Slice:
		return definitelyNonNil(x.X)
	case *ssa.Call:
		if b, ok := x.Call.Value.(*ssa.Builtin); ok && b.Name() == "append" && len(x.Call.Args) == 2 {
			// append(s, at least one element) is never nil
			if sl, ok := x.Call.Args[1].(*ssa.Slice); ok {
				if n, ok := arrayLen(sl.X.Type()); ok && n >= 1 && sl.Low == nil && sl.High == nil {
					return true
				}
			}
			return definitelyNonNil(x.Call.Args[0])
		}
		if fn := x.Call.StaticCallee(); fn != nil && fn.Signature.Results().Len() == 1 {
			return neverReturnsNil(fn, 0)
		}
	}
	return false
}

var neverNilMemo = map[*ssa.Function]int{}

// neverReturnsNil: every return of the single-result function is a freshly
// allocated / boxed value (fmt.Errorf, errors.New, ConfigErrorFromString, ...).
func neverReturnsNil(fn *ssa.Function, depth int) bool {
	if v, ok := neverNilMemo[fn]; ok {
		return v == 1
	}
	neverNilMemo[fn] = 0
	if len(fn.Blocks) == 0 || depth > 3 || !pointerLikeOrNilable(fn.Signature.Results().At(0).Type()) {
		return false
	}
	var ok func(v ssa.Value, d int) bool
	seen := map[ssa.Value]bool{}
	ok = func(v ssa.Value, d int) bool {
		if d > 8 {
			return false
		}
		if seen[v] {
			return true
		}
		seen[v] = true
		switch x := v.(type) {
		case *ssa.Alloc, *ssa.MakeInterface, *ssa.MakeSlice, *ssa.MakeMap, *ssa.MakeClosure, *ssa.FieldAddr, *ssa.Function:
			return true
		case *ssa.Const:
			return x.Value != nil
		case *ssa.Phi:
			for _, e := range x.Edges {
				if !ok(e, d+1) {
					return false
				}
			}
			return true
		case *ssa.ChangeInterface:
			return ok(x.X, d+1)
		case *ssa.ChangeType:
			return ok(x.X, d+1)
		case *ssa.Call:
			if g := x.Call.StaticCallee(); g != nil && g.Signature.Results().Len() == 1 {
				return neverReturnsNil(g, depth+1)
			}
		}
		return false
	}
	n := 0
	for _, b := range fn.Blocks {
		if ret, isRet := b.Instrs[len(b.Instrs)-1].(*ssa.Return); isRet {
			n++
			if len(ret.Results) != 1 || !ok(ret.Results[0], 0) {
				return false
			}
		}
	}
	if n == 0 {
		return false
	}
	neverNilMemo[fn] = 1
	return true
}

func isNilConst(v ssa.Value) bool {
	c, ok := v.(*ssa.Const)
	return ok && c.Value == nil && pointerLikeOrNilable(c.Type())
}

func pointerLikeOrNilable(t types.Type) bool {
	switch t.Underlying().(type) {
	case *types.Pointer, *types.Slice, *types.Map, *types.Interface, *types.Chan, *types.Signature:
		return true
	case *types.Basic:
		return t.Underlying().(*types.Basic).Kind() == types.UntypedNil || t.Underlying().(*types.Basic).Kind() == types.UnsafePointer
	}
	return false
}

func sortedKeys[M ~map[string]V, V any](m M) []string {
	ks := make([]string, 0, len(m))
	for k := range m {
		ks = append(ks, k)
	}
	sort.Strings(ks)
	return ks
}

// rootAllocKnown: some field of the same local struct is tracked in the store
// map (so the struct is a literal built on this path, and an absent entry
// means "never assigned", not "unknown").
func rootAllocKnown(st *State, path string) bool {
	i := strings.LastIndex(path, ".")
	if i < 0 {
		return false
	}
	root := path[:i]
	for k := range st.store {
		if strings.HasPrefix(k, root+".") || k == root {
			return true
		}
	}
	return false
}
