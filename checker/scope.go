package main

import (
	"go/types"
	"sort"

	"golang.org/x/tools/go/callgraph"
	"golang.org/x/tools/go/ssa"
)

// sigOf returns the signature type of handler.Handler4 / Handler6 /
// plugins.SetupFunc4 / SetupFunc6.
func (p *Program) sigOf(pkg, name string) *types.Signature {
	n := p.NamedType(pkg, name)
	if n == nil {
		return nil
	}
	s, _ := n.Underlying().(*types.Signature)
	return s
}

func sameSig(a, b *types.Signature) bool {
	if a == nil || b == nil {
		return false
	}
	return types.Identical(a, b)
}

// sigNoRecv strips the receiver so that methods compare with func types.
func sigNoRecv(s *types.Signature) *types.Signature {
	return types.NewSignatureType(nil, nil, nil, s.Params(), s.Results(), s.Variadic())
}

type Roots struct {
	Handle4, Handle6 *ssa.Function
	Handlers4        []*ssa.Function
	Handlers6        []*ssa.Function
	Setups4          []*ssa.Function
	Setups6          []*ssa.Function
}

// FindRoots enumerates entry points by type, so a new plugin is covered
// without touching the checker.
func FindRoots(p *Program, r *Report) *Roots {
	ro := &Roots{}
	ro.Handle4 = p.Func("server", "*listener4", "HandleMsg4")
	ro.Handle6 = p.Func("server", "*listener6", "HandleMsg6")
	if ro.Handle4 == nil || ro.Handle6 == nil {
		r.Fatalf("ANCHOR-UNRESOLVED: server.(*listener4).HandleMsg4 / (*listener6).HandleMsg6")
	}
	h4, h6 := p.sigOf("handler", "Handler4"), p.sigOf("handler", "Handler6")
	s4, s6 := p.sigOf("plugins", "SetupFunc4"), p.sigOf("plugins", "SetupFunc6")
	if h4 == nil || h6 == nil || s4 == nil || s6 == nil {
		r.Fatalf("ANCHOR-UNRESOLVED: handler.Handler4/6 or plugins.SetupFunc4/6")
		return ro
	}
	// a plain function is a handler/setup only if it is used as a value somewhere
	// (returned by a setup function, stored in a Plugin literal, ...): a helper that
	// merely happens to have the handler signature is only ever called directly
	asValue := usedAsValue(p)
	for _, fn := range p.SrcFuncs() {
		sg := sigNoRecv(fn.Signature)
		if fn.Signature.Recv() == nil && fn.Parent() == nil && !asValue[fn] {
			continue
		}
		switch {
		case sameSig(sg, h4):
			ro.Handlers4 = append(ro.Handlers4, fn)
		case sameSig(sg, h6):
			ro.Handlers6 = append(ro.Handlers6, fn)
		case sameSig(sg, s4):
			ro.Setups4 = append(ro.Setups4, fn)
		case sameSig(sg, s6):
			ro.Setups6 = append(ro.Setups6, fn)
		}
	}
	return ro
}

var usedAsValueMemo = map[*Program]map[*ssa.Function]bool{}

// usedAsValue: the first-party functions that occur as a value (returned,
// stored in a Plugin literal, passed as an argument, ...), i.e. not merely as
// the callee of a direct call.
func usedAsValue(p *Program) map[*ssa.Function]bool {
	if m, ok := usedAsValueMemo[p]; ok {
		return m
	}
	asValue := map[*ssa.Function]bool{}
	usedAsValueMemo[p] = asValue
	var scan []*ssa.Function
	for fn := range p.AllFunctions() {
		if FirstParty(fn) && len(fn.Blocks) > 0 { // package initialisers (Plugin literals) included
			scan = append(scan, fn)
		}
	}
	for _, fn := range scan {
		for _, b := range fn.Blocks {
			for _, in := range b.Instrs {
				var callee ssa.Value
				if ci, ok := in.(ssa.CallInstruction); ok {
					callee = ci.Common().Value
				}
				for _, op := range in.Operands(nil) {
					if op == nil || *op == nil {
						continue
					}
					if f, ok := (*op).(*ssa.Function); ok {
						if f == callee {
							// also an argument of its own call? count only non-callee positions
							n := 0
							for _, op2 := range in.Operands(nil) {
								if op2 != nil && *op2 == ssa.Value(f) {
									n++
								}
							}
							if n < 2 {
								continue
							}
						}
						asValue[f] = true
					}
				}
			}
		}
	}
	return asValue
}

func (ro *Roots) AllHandlers() []*ssa.Function {
	return append(append([]*ssa.Function{}, ro.Handlers4...), ro.Handlers6...)
}
func (ro *Roots) AllSetups() []*ssa.Function {
	return append(append([]*ssa.Function{}, ro.Setups4...), ro.Setups6...)
}

// ReachFirstParty returns the first-party source functions reachable from
// roots in the VTA call graph (library callees are leaves), with one
// predecessor per function for path witnesses.
func ReachFirstParty(p *Program, roots []*ssa.Function) (map[*ssa.Function]*ssa.Function, []*ssa.Function) {
	cg := p.CallGraph()
	pred := map[*ssa.Function]*ssa.Function{}
	var order []*ssa.Function
	var q []*ssa.Function
	for _, r := range roots {
		if r == nil {
			continue
		}
		if _, ok := pred[r]; !ok {
			pred[r] = nil
			q = append(q, r)
		}
	}
	for len(q) > 0 {
		f := q[0]
		q = q[1:]
		order = append(order, f)
		n := cg.Nodes[f]
		if n == nil {
			continue
		}
		outs := append([]*callgraph.Edge{}, n.Out...)
		sort.Slice(outs, func(i, j int) bool { return outs[i].Callee.Func.String() < outs[j].Callee.Func.String() })
		for _, e := range outs {
			g := e.Callee.Func
			if !FirstParty(g) {
				continue
			}
			if _, ok := pred[g]; ok {
				continue
			}
			pred[g] = f
			q = append(q, g)
		}
	}
	// keep only functions with bodies; synthetic wrappers are traversed but not analysed
	var out []*ssa.Function
	for _, f := range order {
		if len(f.Blocks) > 0 && f.Synthetic == "" {
			out = append(out, f)
		}
	}
	sort.Slice(out, func(i, j int) bool { return fnLess(p, out[i], out[j]) })
	return pred, out
}

func witnessPath(pred map[*ssa.Function]*ssa.Function, f *ssa.Function) string {
	var parts []string
	for x := f; x != nil; x = pred[x] {
		parts = append(parts, shortFn(x))
		if len(parts) > 12 {
			break
		}
	}
	s := ""
	for i := len(parts) - 1; i >= 0; i-- {
		if s != "" {
			s += " → "
		}
		s += parts[i]
	}
	return s
}

// CalleesOf returns the possible callees of a call instruction according to
// the call graph (static callee when there is one).
func (p *Program) CalleesOf(in ssa.CallInstruction) []*ssa.Function {
	if f := in.Common().StaticCallee(); f != nil {
		return []*ssa.Function{f}
	}
	n := p.CallGraph().Nodes[in.Parent()]
	if n == nil {
		return nil
	}
	var out []*ssa.Function
	for _, e := range n.Out {
		if e.Site == in {
			out = append(out, e.Callee.Func)
		}
	}
	return out
}

// CallersOf returns the first-party call sites of fn.
func (p *Program) CallersOf(fn *ssa.Function) []ssa.CallInstruction {
	n := p.CallGraph().Nodes[fn]
	if n == nil {
		return nil
	}
	var out []ssa.CallInstruction
	for _, e := range n.In {
		if e.Site != nil && FirstParty(e.Caller.Func) {
			out = append(out, e.Site)
		}
	}
	return out
}
