package main

func init() {
	register(&propDef{
		ID: "C04",
		Explain: "For every implementation of allocators.Allocator (enumerated from the program): every BitSet operation on the allocator's bitmap executes with the allocator mutex held exclusively in every abstract state, and pool geometry fields are written only on the fresh literal in a constructor (ALLOC.LOCK); every Set(i) is justified in its own abstract state by Test(i)==false on the same canonical index, or by i being NextClear's result on its ok edge, established inside the current critical section and not invalidated since — phi-merged indices are proved per incoming path (ALLOC.TESTSET); every Clear in Allocate undoes a Set of the same index (ALLOC.ROLLBACK); every successful return hands out the index→address conversion of exactly the one bit set on the path and error returns leave no bit set (ALLOC.SAME-INDEX); rule instances exist for both implementations (ALLOC.SIBLINGS). Test-and-set atomicity under one exclusive section is the structural necessary condition for 'never returned by two Allocate calls'.",
		Trusted: trustedBase,
		Assume:  []string{"injectivity of index→address (toPrefix arithmetic: C20; toIP: C05.LINMAP)", "bitset's own correctness"},
		Run: func(c *Ctx) {
			ruleAlloc(c, "C04.", map[string]bool{"LOCK": true, "TESTSET": true, "SAMEINDEX": true, "SIBLINGS": true})
			c.R.Floor("C04.ALLOC.LOCK", 14)
			c.R.Floor("C04.ALLOC.TESTSET", 3)
			c.R.Floor("C04.ALLOC.ROLLBACK", 1)
			c.R.Floor("C04.ALLOC.SAME-INDEX", 2)
			c.R.Floor("C04.ALLOC.SIBLINGS", 3)
		},
	})
	register(&propDef{
		ID: "C06",
		Explain: "For both allocator implementations' Free: every bitmap index used is the pool's address→index conversion of an address shown (by a dominating branch fact on the same canonical address) to lie inside the pool — Contains(addr) for the absolute-distance toIndex, a successful range test for toOffset (FREE.CONTAIN); every Clear(i) is justified by Test(i)==true on the same index in the same critical section (FREE.TESTCLEAR); success returns clear exactly one bit, every error return — including the *ErrDoubleFree exits on the Test==false edge — leaves the bitmap untouched, and no other mutation occurs (FREE.ERR-NOEFFECT); lock discipline as in C04.",
		Trusted: trustedBase,
		Assume:  []string{"that index i is *the* block containing the prefix (C20 arithmetic)"},
		Run: func(c *Ctx) {
			ruleAlloc(c, "C06.", map[string]bool{"FREE": true, "LOCK": true})
			c.R.Floor("C06.FREE.TESTCLEAR", 2)
			c.R.Floor("C06.FREE.CONTAIN", 4)
			c.R.Floor("C06.FREE.ERR-NOEFFECT", 2)
		},
	})
	register(&propDef{
		ID: "C07",
		Explain: "For both Allocate implementations: the first-free search (NextClear) is reached only in abstract states where the hint is definitely not usable (three-valued: hint outside the pool / conversion failed / its bit is set), and on every abstract success return where the hint is usable the bit set is the hint's index and no search ran (HINT.FIRST); the callers that rely on hints pass the stored address and check the answer (HINT.CALLERS, shared with C02.RANGE.RESTART).",
		Trusted: trustedBase,
		Assume:  []string{"that the hint's index is the index of the hinted block (arithmetic, C05/C20)"},
		Run: func(c *Ctx) {
			ruleAlloc(c, "C07.", map[string]bool{"HINT": true})
			ruleHintCallers(c, "C07.HINT.CALLERS")
			c.R.Floor("C07.HINT.FIRST", 4)
			c.R.Floor("C07.HINT.CALLERS", 2)
		},
	})
}
