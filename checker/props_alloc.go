package main

import "golang.org/x/tools/go/ssa"

func init() {
	register(&propDef{
		ID:      "C04",
		Explain: "For every implementation of allocators.Allocator (enumerated from the program): every BitSet operation on the allocator's bitmap executes with the allocator mutex held exclusively in every abstract state, and pool geometry fields are written only on the fresh literal in a constructor (ALLOC.LOCK); every Set(i) is justified in its own abstract state by Test(i)==false on the same canonical index, or by i being NextClear's result on its ok edge, established inside the current critical section and not invalidated since — phi-merged indices are proved per incoming path (ALLOC.TESTSET); every Clear in Allocate undoes a Set of the same index (ALLOC.ROLLBACK); every successful return hands out the index→address conversion of exactly the one bit set on the path and error returns leave no bit set (ALLOC.SAME-INDEX); rule instances exist for both implementations (ALLOC.SIBLINGS). Test-and-set atomicity under one exclusive section is the structural necessary condition for 'never returned by two Allocate calls'.",
		Trusted: trustedBase,
		Assume:  []string{"injectivity of index→address (toPrefix arithmetic: C20; toIP: C05.LINMAP)", "bitset's own correctness"},
		Run: func(c *Ctx) {
			ruleAlloc(c, "C04.", map[string]bool{"LOCK": true, "TESTSET": true, "SAMEINDEX": true, "SIBLINGS": true})
			ruleSizeCap(c, "C04.")  // the block handed out must not extend beyond the one bit reserved for it
			ruleConvPair(c, "C04.") // disjointness: two blocks never share an index (the IPv4 sibling of this rule is LINMAP)
			ruleGeomAlias(c, "C04.")
			c.R.Floor("C04.CONV-PAIR", 3)
			c.R.Floor("C04.ALLOC.GEOM-ALIAS", 3)
			c.R.Floor("C04.ALLOC.LOCK", 14)
			c.R.Floor("C04.ALLOC.TESTSET", 3)
			c.R.Floor("C04.ALLOC.ROLLBACK", 1)
			c.R.Floor("C04.ALLOC.SAME-INDEX", 2)
			c.R.Floor("C04.ALLOC.SIBLINGS", 3)
		},
	})
	register(&propDef{
		ID:      "C06",
		Explain: "For both allocator implementations' Free: every bitmap index used is the pool's address→index conversion of an address shown (by a dominating branch fact on the same canonical address) to lie inside the pool — Contains(addr) for the absolute-distance toIndex, a successful range test for toOffset (FREE.CONTAIN); every Clear(i) is justified by Test(i)==true on the same index in the same critical section (FREE.TESTCLEAR); success returns clear exactly one bit, every error return — including the *ErrDoubleFree exits on the Test==false edge — leaves the bitmap untouched, and no other mutation occurs (FREE.ERR-NOEFFECT); lock discipline as in C04.",
		Trusted: trustedBase,
		Assume:  []string{"that index i is *the* block containing the prefix (C20 arithmetic)"},
		Run: func(c *Ctx) {
			ruleAlloc(c, "C06.", map[string]bool{"FREE": true, "LOCK": true})
			ruleArith(c, "C06.") // the index of the block: limb arithmetic of Offset must at least be well-formed
			ruleLinMap(c, "C06.")
			ruleGeomAlias(c, "C06.")
			c.R.Floor("C06.ALLOC.GEOM-ALIAS", 3)
			c.R.Floor("C06.FREE.TESTCLEAR", 2)
			c.R.Floor("C06.FREE.CONTAIN", 4)
			c.R.Floor("C06.FREE.ERR-NOEFFECT", 2)
		},
	})
	register(&propDef{
		ID:      "C07",
		Explain: "For both Allocate implementations: the first-free search (NextClear) is reached only in abstract states where the hint is definitely not usable (three-valued: hint outside the pool / conversion failed / its bit is set), and on every abstract success return where the hint is usable the bit set is the hint's index and no search ran (HINT.FIRST); the callers that rely on hints pass the stored address and check the answer (HINT.CALLERS, shared with C02.RANGE.RESTART).",
		Trusted: trustedBase,
		Assume:  []string{"that the hint's index is the index of the hinted block (arithmetic, C05/C20)"},
		Run: func(c *Ctx) {
			ruleAlloc(c, "C07.", map[string]bool{"HINT": true, "SAMEINDEX": true, "LOCK": true, "FULL": true}) // "no address" only when none is free, whatever the hint
			ruleConvPair(c, "C07.")                                                                            // the block returned is the conversion of the hinted index
			ruleLinMap(c, "C07.")                                                                              // a hint at either end of the range must convert to its own index
			ruleHintCallers(c, "C07.HINT.CALLERS")
			ruleArith(c, "C07.") // the hinted index converts back to the hinted block only if AddPrefixes neither wraps nor reports a spurious overflow
			ruleGeomAlias(c, "C07.")
			c.R.Floor("C07.CONV-PAIR", 3)
			c.R.Floor("C07.FULL-IFF-FAIL", 4)
			c.R.Floor("C07.ALLOC.GEOM-ALIAS", 3)
			c.R.Floor("C07.HINT.FIRST", 4)
			c.R.Floor("C07.HINT.CALLERS", 2)
		},
	})
}

func init() {
	register(&propDef{
		ID:      "C16",
		Explain: "Lock-discipline rules over all code reachable from the datagram handlers and from every `go` statement: every access to state in the frozen GUARDED-BY table (range Recordsv4 and its records, prefix Records and its leases, the allocator bitmaps, file.StaticRecords) happens with the guarding mutex held in the required mode in every abstract state — helpers are analysed with the locks held at all their call sites, globals shared between plugin instances are checked in setup code too (GUARDED-BY, ALLOC.LOCK); no write to guarded state depends, on its abstract path, on a fact about guarded state established in another critical section — lookup/allocate/insert is one section (ATOMIC-RMW); every other package-level variable read by handlers has no store reachable from a handler or goroutine (GLOBAL-RO); the receive buffer is returned to the pool exactly once, after parsing, never read afterwards, and each handler goroutine gets a buffer taken from the pool in its own iteration (BUF.RELEASE); all locks are released on all paths and the lock graph is acyclic (LOCKPAIR, LOCKORDER). Lock discipline implies data-race freedom of the guarded state and serialisability of each lease decision.",
		Trusted: trustedBase,
		Assume:  []string{"the codec copies out of the receive buffer (read and confirmed; heap aliasing of the codec is not analysed)", "races inside dependencies (logrus, sqlite)", "aliasing of shared option objects across replies (read-only today)", "multi-IA_PD messages take one critical section per IA_PD by design"},
		Run: func(c *Ctx) {
			ruleGuardedBy(c, "C16.")
			ruleGlobalRO(c, "C16.GLOBAL-RO")
			ruleBufRelease(c, "C16.BUF.RELEASE")
			ruleFreshPublish(c, "C16.PUBLISH-FRESH")
			ruleFileWatch(c, "C16.") // refreshes of the served table are serialised: one watcher goroutine reloads on each event, nothing else does
			rulePoolRetain(c, "C16.POOL.NO-RETAIN")
			ruleCallbackSharedWrites(c, "C16.CALLBACK-SHARED")
			for _, ai := range findAllocImpls(c) {
				ruleAllocLock(c, "C16.", ai)
			}
			// lock pairing for every first-party function that locks
			var lockers []*ssa.Function
			for _, fn := range c.P.SrcFuncs() {
				if isFixture(fn) {
					continue
				}
				for _, b := range fn.Blocks {
					for _, in := range b.Instrs {
						if call, ok := in.(*ssa.Call); ok {
							if op, _ := mutexOp(&call.Call); op == "lock" {
								lockers = appendUniqueFn(lockers, fn)
							}
						}
					}
				}
			}
			runSafety(c, "C16.", lockers, nil, "LOCKPAIR")
			ruleLockOrder(c, "C16.")
			c.R.Floor("C16.FILE.WATCH", 1)
			c.R.Floor("C16.PUBLISH-FRESH", 1)
			c.R.Floor("C16.POOL.NO-RETAIN", 2)
			c.R.Floor("C16.GUARDED-BY", 25)
			c.R.Floor("C16.ATOMIC-RMW", 3)
			c.R.Floor("C16.GLOBAL-RO", 20)
			c.R.Floor("C16.BUF.RELEASE", 4)
			c.R.Floor("C16.LOCKPAIR", 10)
			c.R.Floor("C16.LOCKORDER", 5)
			c.R.Floor("C16.ALLOC.LOCK", 14)
		},
	})
}

func init() {
	register(&propDef{
		ID:      "C02",
		Explain: "Rules on the range plugin anchored on its state (Recordsv4, the allocator, yiaddr): allocation and insertion happen only on the not-found edge of the lookup of this client's key and existing records' addresses are never overwritten (RANGE.LOOKUP-FIRST); every reply to a new client is preceded by inserting under the same key a record carrying the allocator's answer (RANGE.INSERT); allocation failure returns (nil, true) with nothing bound, persisted or answered (RANGE.EXHAUST); yiaddr is the stored binding or the address just allocated (RANGE.PROVENANCE); every reply carries option 51 built from the configured lease time (RANGE.LEASETIME); start-up re-marks every stored lease with its address as hint and refuses to start on error or mismatch (RANGE.RESTART); the whole decision is one exclusive critical section (GUARDED-BY / ATOMIC-RMW restricted to the range plugin). In-range and uniqueness of the numbers are C04/C05's allocator clauses.",
		Trusted: trustedBase,
		Assume:  []string{"numeric in-range and distinctness (C04/C05 + allocator arithmetic)", "sqlite durability"},
		Run: func(c *Ctx) {
			ruleRangeHandler(c, "C02.", map[string]bool{"C02": true})
			ruleRangeRestart(c, "C02.RANGE.RESTART")
			ruleDBLoad(c, "C02.") // "with restarts in between": the restored map must be keyed like the handler's lookups
			ruleGuardedBy(c, "C02.", "range.")
			ruleLinMap(c, "C02.")                                                // "in range": the IPv4 allocator's index↔address maps and bitmap size are exact
			ruleAlloc(c, "C02.", map[string]bool{"TESTSET": true, "FULL": true}) // "never bound to two clients": the allocator hands out only clear bits and fails exactly when none is left
			ruleDBSaveSync(c, "C02.DB.SAVE-SYNC")                                // a restart right after a reply finds the lease
			ruleDBSchema(c, "C02.")                                              // "restarts in between": what was saved for a client is what is restored for it
			c.R.Floor("C02.DB.SAVE-SYNC", 1)
			c.R.Floor("C02.ALLOC.TESTSET", 3)
			c.R.Floor("C02.FULL-IFF-FAIL", 4)
			c.R.Floor("C02.DB.SCHEMA-AGREE", 5)
			c.R.Floor("C02.RANGE.LOOKUP-FIRST", 1)
			c.R.Floor("C02.RANGE.INSERT", 1)
			c.R.Floor("C02.RANGE.EXHAUST", 1)
			c.R.Floor("C02.RANGE.PROVENANCE", 1)
			c.R.Floor("C02.RANGE.LEASETIME", 1)
			c.R.Floor("C02.RANGE.RESTART", 1)
			c.R.Floor("C02.GUARDED-BY", 10)
		},
	})
	register(&propDef{
		ID:      "C03",
		Explain: "Writer/reader agreement for the lease database, decided from the program's constants and SSA: the create/insert/select statements agree on columns, the key and all NOT NULL columns are written, the conflict policy replaces the row, the n-th Exec argument and n-th Scan target have the same Go type (DB.SCHEMA-AGREE); per column the writer expression and the loader's parser are an inverse pair whose domain covers everything the writer can produce — HardwareAddr.String needs a parser total on all lengths, IP.String ↔ ParseIP (DB.CODEC); the loader keys the restored map with the same canonical function of the address as the handler (DB.KEY-AGREE); loadRecords returns a nil map with every error and succeeds only after rows.Err() == nil (DB.LOAD-ALL-OR-ERROR); in the handler every new allocation and every expiry change is persisted under the client's hardware address before any reply is returned (DB.PERSIST-BEFORE-REPLY) and every stored expiry is now + lease time, the lease promised in option 51 (DB.EXPIRY).",
		Trusted: trustedBase,
		Assume:  []string{"sqlite type affinity of the `string` columns beyond the MAC column's one-byte case handled by the loader", "crash-atomicity of the sqlite write", "a failing saveIPAddress is logged and the reply still sent (storage faults are outside the property's quantifier)"},
		Run: func(c *Ctx) {
			ruleDBSchema(c, "C03.")
			ruleDBSaveSync(c, "C03.DB.SAVE-SYNC")
			ruleRangeHandler(c, "C03.", map[string]bool{"C03": true})
			ruleDBLoad(c, "C03.")
			ruleRangeRestart(c, "C03.RANGE.RESTART")                             // "none lost": every loaded binding is kept and re-marked, or start-up aborts
			ruleAlloc(c, "C03.", map[string]bool{"TESTSET": true, "FULL": true}) // an address handed out twice puts one ip in two rows: such a database is refused at restart
			c.R.Floor("C03.RANGE.LEASETIME", 1)
			c.R.Floor("C03.DB.SAVE-SYNC", 1)
			c.R.Floor("C03.ALLOC.TESTSET", 3)
			c.R.Floor("C03.FULL-IFF-FAIL", 4)
			c.R.Floor("C03.DB.SCHEMA-AGREE", 5)
			c.R.Floor("C03.DB.CODEC", 4)
			c.R.Floor("C03.DB.PERSIST-BEFORE-REPLY", 1)
			c.R.Floor("C03.DB.EXPIRY", 1)
			c.R.Floor("C03.DB.EXPIRY-GUARD", 1)
			c.R.Floor("C03.DB.LOAD-ALL-OR-ERROR", 1)
			c.R.Floor("C03.DB.KEY-AGREE", 1)
		},
	})
}

func init() {
	register(&propDef{
		ID:      "C08",
		Explain: "Rules on prefix.(*Handler).Handle anchored on its state (Records, the allocator, the OptIAPD/OptIAPrefix literals), evaluated in every abstract state and per loop iteration: every prefix added to a reply is one of this client's recorded leases or the success result of Allocate (PD.PROVENANCE); the record map is read/written only under recordKey(client id of the inner message) (PD.OWN-KEY); each iteration over the request's IA_PDs adds exactly one response IA_PD carrying the request's IAID, early exits stop the chain (PD.ONE-PER-IAPD); an empty response IA_PD carries NoPrefixAvail (PD.NOPREFIX); preferred = valid = time until expiry and every expiry is now + a constant ≤ 1h (PD.LIFETIME); a known lease is handed back only after the extension diamond on the same element, and the value sent is read after it (PD.FRESH); allocator and records are used inside the critical section (PD.LOCK + GUARDED-BY). Disjointness across clients then rests on C04's allocator rules.",
		Trusted: trustedBase,
		Assume:  []string{"in-pool / alignment / size of the allocator's answers (C05/C20)", "lifetimes > 0 after codec rounding"},
		Run: func(c *Ctx) {
			rulePrefix(c, "C08.", map[string]bool{"C08": true})
			ruleAlloc(c, "C08.", map[string]bool{"TESTSET": true, "SAMEINDEX": true, "LOCK": true}) // disjointness across clients rests on the allocator
			ruleGuardedBy(c, "C08.", "prefix.")
			rulePrefixHelpers(c, "C08.")
			rulePoolIsParsedNetwork(c, "C08.PD.POOL-ALIGNED")
			ruleGeomAlias(c, "C08.") // what a client was told it holds stays what is recorded: no answer shares storage with a later one
			ruleConvPair(c, "C08.")  // disjoint blocks: index and prefix conversions are the library's inverse pair
			for _, r := range []string{"PD.PROVENANCE", "PD.OWN-KEY", "PD.ONE-PER-IAPD", "PD.NOPREFIX", "PD.LIFETIME", "PD.FRESH", "PD.LOCK"} {
				c.R.Floor("C08.PD.OWN-KEY", 2)
				c.R.Floor("C08.PD.POOL-ALIGNED", 2)
				c.R.Floor("C08.PD.PROVENANCE", 2)
				c.R.Floor("C08.PD.POOL-ALIGNED", 1)
				c.R.Floor("C08.CONV-PAIR", 3)
				c.R.Floor("C08.ALLOC.GEOM-ALIAS", 3)
				c.R.Floor("C08."+r, 1)
			}
		},
	})
	register(&propDef{
		ID:      "C09",
		Explain: "Rules on prefix.(*Handler).Handle for lease stickiness: the value recorded for the client is built by appends onto a running accumulator seeded with the known leases, so every prefix delegated in a reply is remembered (KEEP.RECORD-ALL, an SSA phi/append shape check); a new block is allocated only in states where satisfied.Test(hint) == false was established (KEEP.REUSE-FIRST); handing back a known lease marks both the hint and the lease in the same iteration (KEEP.MARK); a known lease is reused only under samePrefix(hint, lease) or as a not-yet-given lease for an empty hint (KEEP.EXACT); plus C01's NILPATH/NILSRC on the hint prefix.",
		Trusted: trustedBase,
		Assume:  []string{"that a repeated request returns the same prefix *value* (needs run-time content of Records)", "lifetime not shorter than what remained (timing)", "recognition of the hint-less placeholder by the empty-hint filter is a value property (len/Equal of a zero-length IP) that the armed rules do not decide"},
		Run: func(c *Ctx) {
			rulePrefix(c, "C09.", map[string]bool{"C09": true})
			rulePrefixHelpers(c, "C09.")
			ruleGuardedBy(c, "C09.", "prefix.") // remembering a lease is a read-modify-write of Records: one critical section
			fn := c.P.Func("plugins/prefix", "*Handler", "Handle")
			sp := c.P.Anchor("samePrefix")
			if fn != nil {
				runSafety(c, "C09.", []*ssa.Function{fn}, nil, "NILPATH", "NILSRC")
			}
			ruleSamePrefix(c, "C09.KEEP.EXACT", sp)
			for _, r := range []string{"KEEP.RECORD-ALL", "KEEP.REUSE-FIRST", "KEEP.MARK", "KEEP.EXACT"} {
				c.R.Floor("C09.PD.OWN-KEY", 2)
				c.R.Floor("C09.PD.PROVENANCE", 1)
				c.R.Floor("C09.KEEP.WRITERS", 1)
				c.R.Floor("C09.PD.OWN-KEY", 1)
				c.R.Floor("C09."+r, 1)
			}
		},
	})
}

func init() {
	register(&propDef{
		ID:      "C10",
		Explain: "Rules on the file plugin: which loaders feed the table each handler reads (FILE.PER-PROTOCOL — the pinned tree shares one global table between both protocols: recorded known finding); every store to the served table is a whole-map swap under the write lock on the loader's err == nil edge, never an in-place edit (FILE.SWAP); both loaders return a nil map with every error and the map only after all lines (FILE.ALL-OR-NOTHING); per loop iteration a record is stored exactly for non-empty, non-comment lines with two fields, a valid MAC and an address of the loader's family, keyed by HardwareAddr.String() of the parsed MAC, and any other non-skipped line is an error (FILE.LINE-GRAMMAR, both sibling loaders); handlers look up under the same canonical key of chaddr / ExtractMAC(received packet), listed clients get exactly the listed address (v4: yiaddr + stop; v6: one IA_NA with the request's IAID, only if requested), others get nothing (FILE.LOOKUP); the watcher goroutine reloads on every event and never leaves its loop (FILE.WATCH); lock discipline of the table (GUARDED-BY).",
		Trusted: trustedBase,
		Assume:  []string{"net.ParseMAC / net.ParseIP grammars (stdlib)", "fsnotify event delivery ('eventually')", "last occurrence wins = Go map overwrite semantics"},
		Run: func(c *Ctx) {
			ruleFilePlugin(c, "C10.")
			ruleGuardedBy(c, "C10.", "file.")
			c.R.Floor("C10.FILE.NAME", 3)
			c.R.Floor("C10.FILE.PER-PROTOCOL", 1)
			c.R.Floor("C10.FILE.SWAP", 1)
			c.R.Floor("C10.FILE.RELOAD-COMPLETE", 1)
			c.R.Floor("C10.FILE.ALL-OR-NOTHING", 2)
			c.R.Floor("C10.FILE.LINE-GRAMMAR", 2)
			c.R.Floor("C10.FILE.LOOKUP", 2)
			c.R.Floor("C10.FILE.WATCH", 1)
		},
	})
}

func init() {
	register(&propDef{
		ID:      "C05",
		Explain: "IPv4: the index↔address maps are linear in (ip, start, end) and guarded only by comparisons; the rule extracts result terms and the exact branch facts of every abstract exit: toOffset succeeds iff ¬(ip < start) ∧ ¬(end < ip) (both inclusive, nothing else) and returns ip − start; toIP returns start + o exactly under o ≤ end − start, so toIP∘toOffset is the identity; the constructor enforces start ≤ end and sizes the bitmap end − start + 1 (LINMAP). IPv6: the mask length is the block size unless the hint is a longer 128-bit mask (SIZE); the constructor sizes the bitmap 2^(size − pool length) under 0 ≤ order < word size (CAP, re-run under GOARCH=386 in the thorough tier). Both: ErrNoAddrAvail is returned exactly on the failed edge of NextClear(0) with no bitmap mutation; every success return converts exactly the bit it set (FULL-IFF-FAIL, SAME-INDEX).",
		Trusted: trustedBase,
		Assume:  []string{"IPv6 alignment / in-pool of toPrefix(i) needs AddPrefixes' exactness (C20, not decided numerically)", "bitset.NextClear's contract (< length)", "ranges are not 0.0.0.0–255.255.255.255 (end − start + 1 wraps only there)"},
		Run: func(c *Ctx) {
			ruleLinMap(c, "C05.")
			ruleSizeCap(c, "C05.")
			ruleAlloc(c, "C05.", map[string]bool{"FULL": true, "SAMEINDEX": true, "TESTSET": true, "LOCK": true}) // "exactly N": no block is handed out twice, none is lost
			ruleArith(c, "C05.")                                                                                  // every index of the pool must convert to an address (no spurious overflow)
			ruleGeomAlias(c, "C05.")
			c.R.Floor("C05.ALLOC.GEOM-ALIAS", 3)
			c.R.Floor("C05.LINMAP", 3)
			c.R.Floor("C05.SIZE", 1)
			c.R.Floor("C05.CAP", 1)
			c.R.Floor("C05.FULL-IFF-FAIL", 4)
			c.R.Floor("C05.ALLOC.SAME-INDEX", 2)
		},
	})
	register(&propDef{
		ID:      "C20",
		Explain: "Overflow *discipline* of allocators.Offset / AddPrefixes, not their numbers: every math/bits Add64/Sub64/Mul64 has its carry/borrow/high result fed to the next limb or compared with zero; every left shift of a variable is justified in its abstract state by a guard x < 2^k (or x >> k == 0) whose exponent and the shift count sum to ≤ 64 as linear terms over the prefix length; every shift of a constant has its count bounded below 64; raw +,−,× of two variable limbs are violations unless a table exception cites the ordering/guard fact that excludes wrap-around (3 exceptions in Offset, each tied to the fact it cites) (ARITH.GUARDED); every ErrOverflow return carries the zero value (ARITH.ERR-ZERO); the only callers are the bitmap allocator's toIndex/toPrefix with the pool base (ARITH.CALLERS); slices are length-checked (C01.BOUNDS). Numerical correctness, the inverse law and argument-order symmetry are NOT decided — they need a big-integer reference, which is a different technique family.",
		Trusted: trustedBase,
		Assume:  []string{"prefix length ≤ 128 (the functions' stated domain; callers pass the allocator's page size)", "numerical correctness of the 128-bit results is not decided"},
		Run: func(c *Ctx) {
			ruleArith(c, "C20.")
			fn1 := c.P.Func("plugins/allocators", "", "Offset")
			fn2 := c.P.Func("plugins/allocators", "", "AddPrefixes")
			if fn1 != nil && fn2 != nil {
				// the two functions and whatever same-package helpers their body was split into
				_, reach := ReachFirstParty(c.P, []*ssa.Function{fn1, fn2})
				var fns []*ssa.Function
				for _, f := range reach {
					if f.Pkg == fn1.Pkg {
						fns = append(fns, f)
					}
				}
				runSafety(c, "C20.", fns, nil, "BOUNDS")
			}
			c.R.Floor("C20.ARITH.GUARDED", 9)
			c.R.Floor("C20.ARITH.ERR-ZERO", 2)
			c.R.Floor("C20.ARITH.CALLERS", 2)
			c.R.Floor("C20.BOUNDS", 8)
		},
	})
}
