package main

import (
	"fmt"
	"go/constant"
	"go/token"
	"go/types"
	"os"
	"regexp"
	"strconv"
	"strings"

	"golang.org/x/tools/go/ssa"
)

// ---- tables (frozen; one named symbol + one reason each) -------------------

// nilableFields: struct fields that the wire parsers (or the registry) leave nil.
var nilableFields = map[string]string{
	"github.com/insomniacslk/dhcp/dhcpv6.OptIAPrefix.Prefix": "FromBytes leaves Prefix nil when the wire prefix length is 0 (read: dhcpv6/option_iaprefix.go)",
	"github.com/coredhcp/coredhcp/plugins.Plugin.Setup4":     "documented: both setup functions can be nil",
	"github.com/coredhcp/coredhcp/plugins.Plugin.Setup6":     "documented: both setup functions can be nil",
}

// nilableParams: parameters that callers pass nil for.
var nilableParams = map[string]string{
	"(*github.com/coredhcp/coredhcp/server.listener4).HandleMsg4#2": "x/net ReadFrom returns a nil *ControlMessage when no control flags are set on the socket",
	"(*github.com/coredhcp/coredhcp/server.listener6).HandleMsg6#2": "x/net ReadFrom returns a nil *ControlMessage when no control flags are set on the socket",
}

// nilableInvokes: interface accessors documented to return nil when absent.
var nilableInvokes = map[string]string{
	"github.com/insomniacslk/dhcp/dhcpv6.DHCPv6.GetOneOption": "returns nil when the option is absent",
}

// assertExceptions: single-result type assertions accepted by reading.
var assertExceptions = map[string]string{
	"(*github.com/coredhcp/coredhcp/server.listener4).Serve net.Addr->*net.UDPAddr": "ipv4.PacketConn.ReadFrom over a *net.UDPConn returns *net.UDPAddr when err == nil (x/net payload_cmsg.go); reached only on the err == nil path",
	"(*github.com/coredhcp/coredhcp/server.listener6).Serve net.Addr->*net.UDPAddr": "ipv6.PacketConn.ReadFrom over a *net.UDPConn returns *net.UDPAddr when err == nil (x/net payload_cmsg.go); reached only on the err == nil path",
}

// boundsExceptions: slice expressions accepted by reading.
var boundsExceptions = map[string]string{
	"(*github.com/coredhcp/coredhcp/server.listener4).Serve (*sync.Pool).Get(&server.bufpool).(*[]byte)[:65536]":                                                                                                                              "pool buffers are made with len = cap = MaxDatagram by bufpool.New and only ever resliced shorter; reslicing to MaxDatagram is within capacity",
	"(*github.com/coredhcp/coredhcp/server.listener6).Serve (*sync.Pool).Get(&server.bufpool).(*[]byte)[:65536]":                                                                                                                              "pool buffers are made with len = cap = MaxDatagram by bufpool.New and only ever resliced shorter; reslicing to MaxDatagram is within capacity",
	"(*github.com/coredhcp/coredhcp/server.listener4).Serve (*sync.Pool).Get(&server.bufpool).(*[]byte)[:65536][:(*x/net/ipv4.payloadHandler).ReadFrom(&$0.PacketConn.payloadHandler,(*sync.Pool).Get(&server.bufpool).(*[]byte)[:65536])#0]": "ReadFrom returns n ≤ len(b) (io contract of x/net)",
	"(*github.com/coredhcp/coredhcp/server.listener6).Serve (*sync.Pool).Get(&server.bufpool).(*[]byte)[:65536][:(*x/net/ipv6.payloadHandler).ReadFrom(&$0.PacketConn.payloadHandler,(*sync.Pool).Get(&server.bufpool).(*[]byte)[:65536])#0]": "ReadFrom returns n ≤ len(b) (io contract of x/net)",
	"github.com/coredhcp/coredhcp/server.sendEthernet $1.ClientHWAddr[0:6]":                                                                                                                                                                   "dhcpv4.FromBytes/New build ClientHWAddr by reslicing a 16-byte buffer; a slice expression within capacity cannot panic (fact re-derived: see C01.FACT-CHADDR16)",
}

// needsLen: library functions that index their slice argument unconditionally.
var needsLen = map[string][2]int{ // callee -> (arg index, min length)
	"(encoding/binary.bigEndian).Uint16":    {1, 2},
	"(encoding/binary.bigEndian).Uint32":    {1, 4},
	"(encoding/binary.bigEndian).Uint64":    {1, 8},
	"(encoding/binary.bigEndian).PutUint16": {1, 2},
	"(encoding/binary.bigEndian).PutUint32": {1, 4},
	"(encoding/binary.bigEndian).PutUint64": {1, 8},
}

// needsPositive: library functions that panic unless the argument is > 0.
var needsPositive = map[string]int{ // callee -> arg index
	"math/rand.Intn": 0, "math/rand.Int31n": 0, "math/rand.Int63n": 0,
	"(*math/rand.Rand).Intn": 1, "(*math/rand.Rand).Int31n": 1, "(*math/rand.Rand).Int63n": 1,
	"math/rand/v2.IntN": 0, "math/rand/v2.Int32N": 0, "math/rand/v2.Int64N": 0, "math/rand/v2.N": 0,
	"time.NewTicker": 0, "time.Tick": -1, // Tick tolerates d <= 0 (returns nil): listed for documentation only
}

// fixedLenResults: library functions whose non-nil result has a known length.
var fixedLenResults = map[string]int{
	"(net.IP).To4":  4,
	"(net.IP).To16": 16,
	"net.IPv4Mask":  4,
	"net.IPv4":      16,
}

var reTemp = regexp.MustCompile(`@(?:[\w$]+·)?t\d+`)
var rePhi = regexp.MustCompile(`φ(?:[\w$]+·)?t\d+`)

func stableKey(s string) string {
	s = reTemp.ReplaceAllString(s, "")
	s = rePhi.ReplaceAllString(s, "φ")
	return shortName(s)
}

// ---- the per-function safety pass ------------------------------------------

type safetyPass struct {
	c        *Ctx
	prefix   string // rule prefix, e.g. "C01."
	pred     map[*ssa.Function]*ssa.Function
	on       map[string]bool
	ex       *Explorer
	fn       *ssa.Function
	ordinal  map[string]int
	mayNil   map[string]bool
	sendSeen map[ssa.Instruction]bool
}

func (sp *safetyPass) rule(name string) string { return sp.prefix + name }

func (sp *safetyPass) key(kind string, desc string) string {
	return shortFn(sp.fn) + " " + kind + " " + stableKey(desc)
}

// runSafety explores every function in fns once and evaluates the enabled
// rule set at every instruction in every abstract state.
func runSafety(c *Ctx, prefix string, fns []*ssa.Function, pred map[*ssa.Function]*ssa.Function, rules ...string) {
	on := map[string]bool{}
	for _, r := range rules {
		on[r] = true
	}
	inScope := map[*ssa.Function]bool{}
	for _, fn := range fns {
		inScope[fn] = true
	}
	// A helper with exactly one call site (the typical product of an "extract function"
	// clean-up) is explored inline at that site, with the caller's facts, and not on its
	// own; every other function in scope is analysed on its own.
	single := func(caller, callee *ssa.Function) bool {
		return singleSiteHelper(c, callee) && inScope[callee]
	}
	for _, fn := range fns {
		if singleSiteHelper(c, fn) {
			all := true
			for _, site := range c.P.CallersOf(fn) {
				if !inScope[site.Parent()] {
					all = false
				}
			}
			if all {
				c.R.Functions[shortFn(fn)] = true
				continue
			}
		}
		sp := &safetyPass{c: c, prefix: prefix, pred: pred, on: on, fn: fn, ordinal: map[string]int{}, mayNil: map[string]bool{}}
		c.R.Functions[shortFn(fn)] = true
		ex := NewExplorer(c.P, c.Pure, fn)
		ex.Inline = single
		sp.ex = ex
		ex.Hooks.Instr = sp.instr
		ex.Run()
		if ex.Exceeded {
			c.R.unk(sp.rule("EXPLORE"), shortFn(fn), c.P.Pos(fn.Pos()), shortFn(fn), fmt.Sprintf("state budget exceeded (%d nodes)", ex.Nodes))
		}
		if on["LOCKPAIR"] {
			sp.lockpair()
		}
	}
}

func (sp *safetyPass) add(rule, kind, desc string, in ssa.Instruction, v Verdict, detail string, st *State, facts ...string) {
	o := &Obl{Rule: sp.rule(rule), Key: sp.key(kind, desc), Pos: sp.c.P.InstrPos(in), Fn: shortFn(sp.fn), Verdict: v, Detail: detail, Fixture: isFixture(sp.fn)}
	if v != Discharged && st != nil {
		o.Facts = append(o.Facts, fmt.Sprintf("abstract path (blocks): %v", st.Trail()))
		for _, h := range st.HistStrings() {
			if len(o.Facts) < 14 {
				o.Facts = append(o.Facts, "decided: "+shortName(h))
			}
		}
		if sp.pred != nil {
			o.Facts = append(o.Facts, "reached via: "+witnessPath(sp.pred, sp.fn))
		}
	}
	o.Facts = append(o.Facts, facts...)
	sp.c.R.Add(o)
}

func derefType(t types.Type) bool {
	switch t.Underlying().(type) {
	case *types.Pointer, *types.Interface, *types.Signature:
		return true
	}
	return false
}

func (sp *safetyPass) instr(st *State, in ssa.Instruction) {
	switch x := in.(type) {
	case *ssa.FieldAddr:
		sp.deref(st, in, x.X, "field "+fieldName(x))
	case *ssa.UnOp:
		if x.Op == token.MUL {
			switch x.X.(type) {
			case *ssa.FieldAddr, *ssa.IndexAddr, *ssa.Alloc, *ssa.Global:
			default:
				sp.deref(st, in, x.X, "load")
			}
		}
	case *ssa.Store:
		switch x.Addr.(type) {
		case *ssa.FieldAddr, *ssa.IndexAddr, *ssa.Alloc, *ssa.Global:
		default:
			sp.deref(st, in, x.Addr, "store")
		}
	case *ssa.IndexAddr:
		if _, ok := x.X.Type().Underlying().(*types.Pointer); ok {
			sp.deref(st, in, x.X, "index")
		}
		sp.bounds(st, in, x.X, x.Index, nil, nil, "index")
	case *ssa.Index:
		sp.bounds(st, in, x.X, x.Index, nil, nil, "index")
	case *ssa.Slice:
		sp.bounds(st, in, x.X, nil, x.Low, x.High, "slice")
	case *ssa.MapUpdate:
		if sp.on["MAPWRITE"] {
			sp.mapwrite(st, x)
		}
	case *ssa.TypeAssert:
		if sp.on["ASSERT"] && !x.CommaOk {
			sp.assert(st, x)
		}
	case *ssa.Call:
		sp.call(st, x, &x.Call)
	case *ssa.Go:
		sp.call(st, x, &x.Call)
	case *ssa.Defer:
		sp.call(st, x, &x.Call)
	case *ssa.BinOp:
		if sp.on["ARITH"] {
			sp.arith(st, x)
		}
	case *ssa.MakeInterface:
		if sp.on["NILSRC"] {
			sp.typedNil(st, x)
		}
	case *ssa.Panic:
		// handled by PANIC rule (site-based)
	}
}

// typedNil: a pointer that may be nil (result of a first-party function with a
// nil-returning path) is boxed into an interface without a guard: later
// `iface != nil` tests are true for it and the first method call dereferences nil.
func (sp *safetyPass) typedNil(st *State, x *ssa.MakeInterface) {
	if _, ok := x.X.Type().Underlying().(*types.Pointer); !ok {
		return
	}
	r := sp.ex.Resolve(st, x.X)
	call, ok := r.(*ssa.Call)
	if !ok {
		return
	}
	fn := call.Call.StaticCallee()
	if fn == nil || !FirstParty(fn) || fn.Signature.Results().Len() != 1 || !sp.mayReturnNil(fn, 0, 0) {
		return
	}
	desc := "box " + sp.ex.Canon(nil, x.X).S + " into " + shortType(x.Type())
	if n, _ := sp.ex.NilState(st, x.X); n == 0 {
		sp.add("NILSRC", "typednil", desc, x, Discharged, "pointer is shown non-nil before it is converted to an interface", st)
		return
	}
	sp.add("NILSRC", "typednil", desc, x, Violated, fmt.Sprintf("%s can return a nil pointer, which is converted to the interface type %s without a guard: the interface is then non-nil (typed nil) and every later `!= nil` test passes", shortFn(fn), shortType(x.Type())), st)
}

func fieldName(x *ssa.FieldAddr) string {
	if f := fieldOf(x.X.Type(), x.Field); f != nil {
		return f.Name()
	}
	return fmt.Sprint(x.Field)
}

func (sp *safetyPass) call(st *State, in ssa.Instruction, cc *ssa.CallCommon) {
	if cc.IsInvoke() {
		sp.deref(st, in, cc.Value, "invoke "+cc.Method.Name())
		return
	}
	if _, isB := cc.Value.(*ssa.Builtin); isB {
		return
	}
	fn := cc.StaticCallee()
	if fn == nil {
		// call through a func value
		if sp.on["FUNCNIL"] {
			sp.deref(st, in, cc.Value, "call func value")
		}
		return
	}
	// a nilable source handed, unguarded, to a first-party function that dereferences that parameter
	// without ever testing it (the dereference happens in the callee, the missing guard is here)
	if sp.on["NILSRC"] && FirstParty(fn) && len(fn.Blocks) > 0 {
		for i, a := range cc.Args {
			if i >= len(fn.Params) || !derefType(a.Type()) {
				continue
			}
			src, guard, ok := sp.nilSource(st, a)
			if !ok || guard {
				continue
			}
			if n, _ := sp.ex.NilState(st, a); n == 0 {
				continue
			}
			if !derefsParamUnguarded(fn, i, 0) {
				continue
			}
			desc := "argument " + strconv.Itoa(i) + " of " + fn.Name() + ": " + sp.ex.Canon(nil, a).S
			sp.add("NILSRC", "call", desc, in, Violated, fmt.Sprintf("nilable source (%s) is passed with no dominating non-nil fact to %s, which dereferences that parameter without testing it", src, shortFn(fn)), st)
		}
	}
	// library routines that panic on a non-positive argument
	if i, ok := needsPositive[fn.String()]; ok && i >= 0 && sp.on["ARITH"] && i < len(cc.Args) {
		a := cc.Args[i]
		desc := fn.Name() + " argument " + sp.ex.Canon(nil, a).S
		if k, isC := constInt(a); isC {
			if k > 0 {
				sp.add("ARGPOS", "call", desc, in, Discharged, "positive constant", st)
			} else {
				sp.add("ARGPOS", "call", desc, in, Violated, fmt.Sprintf("%s panics on a non-positive argument; it is called with the constant %d", shortFn(fn), k), st)
			}
		} else {
			as := sp.ex.Canon(st, a).S
			proved := false
			for _, f := range st.live {
				if f.Kind == "lt" && f.X == as && !f.Val {
					if k, err := strconv.ParseInt(f.Y, 10, 64); err == nil && k >= 1 {
						proved = true // not (a < k), k >= 1
					}
				}
				if f.Kind == "lt" && f.Y == as && f.Val {
					if k, err := strconv.ParseInt(f.X, 10, 64); err == nil && k >= 0 {
						proved = true // k < a, k >= 0
					}
				}
			}
			if !proved {
				proved = sp.capturedPositive(a)
			}
			if proved {
				sp.add("ARGPOS", "call", desc, in, Discharged, "argument > 0 established on this path", st)
			} else {
				sp.add("ARGPOS", "call", desc, in, Violated, fmt.Sprintf("%s panics on a non-positive argument; no fact on this path establishes %s > 0", shortFn(fn), shortName(as)), st)
			}
		}
	}
	// library routines that index their argument
	if nl, ok := needsLen[fn.String()]; ok && sp.on["BOUNDS"] && nl[0] < len(cc.Args) {
		sp.needLen(st, in, cc.Args[nl[0]], nl[1], fn.String())
	}
	// pointer-receiver methods on a receiver that is nil on this path
	if fn.Signature.Recv() != nil && len(cc.Args) > 0 && sp.on["NILPATH"] {
		if _, ok := cc.Args[0].Type().Underlying().(*types.Pointer); ok {
			if n, _ := sp.ex.NilState(st, cc.Args[0]); n == 1 && derefsParam0(fn) {
				sp.add("NILPATH", "call", fn.Name()+" on "+sp.ex.Canon(nil, cc.Args[0]).S, in, Violated,
					fmt.Sprintf("method %s dereferences its receiver, which is nil on this path", fn.Name()), st)
			}
		}
	}
}

// derefsParam0: the method body selects a field of / loads through its receiver.
func derefsParam0(fn *ssa.Function) bool {
	if len(fn.Params) == 0 || len(fn.Blocks) == 0 {
		return true
	}
	p := fn.Params[0]
	for _, r := range *p.Referrers() {
		switch x := r.(type) {
		case *ssa.FieldAddr:
			if x.X == p {
				return true
			}
		case *ssa.UnOp:
			if x.X == p && x.Op == token.MUL {
				return true
			}
		}
	}
	return false
}

// deref evaluates NILPATH (belief contradiction) and NILSRC (nilable source
// needs a guard) for a dereferenced operand.
func (sp *safetyPass) deref(st *State, in ssa.Instruction, v ssa.Value, what string) {
	if !derefType(v.Type()) {
		return
	}
	ex := sp.ex
	desc := what + " of " + ex.Canon(nil, v).S
	n, fact := ex.NilState(st, v)
	if sp.on["NILPATH"] {
		if n == 1 {
			why := "operand is the nil constant on this path (never assigned / assigned nil)"
			if fact != nil {
				why = fmt.Sprintf("the code established `%s` at %s and dereferences it afterwards", shortName(fact.String()), sp.c.P.InstrPos(fact.At))
			}
			sp.add("NILPATH", "deref", desc, in, Violated, why, st)
		}
	}
	if sp.on["NILSRC"] {
		src, guard, ok := sp.nilSource(st, v)
		if ok {
			if n == 0 || guard {
				sp.add("NILSRC", "deref", desc, in, Discharged, "nilable source ("+src+") is guarded on every abstract path", st)
			} else if n == 1 {
				sp.add("NILSRC", "deref", desc, in, Violated, "nilable source ("+src+") is nil on this path", st)
			} else {
				sp.add("NILSRC", "deref", desc, in, Violated, "nilable source ("+src+") dereferenced with no dominating non-nil fact on this path", st)
			}
		}
	}
}

// nilSource classifies the resolved operand; guard reports whether the
// source-specific guard (err == nil, ok == true) holds in st.
func (sp *safetyPass) nilSource(st *State, v ssa.Value) (string, bool, bool) {
	ex := sp.ex
	r := ex.Resolve(st, v)
	switch x := r.(type) {
	case *ssa.Extract:
		switch t := x.Tuple.(type) {
		case *ssa.Call:
			res := t.Call.Signature().Results()
			last := res.Len() - 1
			if last >= 1 && isErrorType(res.At(last).Type()) && x.Index < last {
				k := "nil:" + ex.Canon(st, t).S + "#" + strconv.Itoa(last)
				f, ok := st.live[k]
				g := ok && f.Val
				if !g {
					// killed from live? consult hist: the error value itself is immutable
					if f, ok := st.hist[k]; ok && f.Val {
						g = true
					}
				}
				return "result of " + calleeName(&t.Call) + " valid only when its error is nil", g, true
			}
			if last >= 1 && isBoolType(res.At(last).Type()) && x.Index < last && derefType(x.Type()) && t.Call.StaticCallee() != nil && !FirstParty(t.Call.StaticCallee()) {
				k := "b:" + ex.Canon(st, t).S + "#" + strconv.Itoa(last)
				f, ok := st.hist[k]
				return "result of " + calleeName(&t.Call) + " valid only when ok", ok && f.Val, true
			}
		case *ssa.Lookup:
			if x.Index == 0 {
				k := "b:" + ex.Canon(st, t).S + "#1"
				f, ok := st.hist[k]
				return "map lookup result (zero value when the key is absent)", ok && f.Val, true
			}
		case *ssa.TypeAssert:
			if x.Index == 0 {
				k := "b:" + ex.Canon(st, t).S + "#1"
				f, ok := st.hist[k]
				return "comma-ok type assertion result", ok && f.Val, true
			}
		}
	case *ssa.Call:
		if x.Call.IsInvoke() {
			if why, ok := nilableInvokes[invokeName(&x.Call)]; ok {
				return invokeName(&x.Call) + ": " + why, false, true
			}
			return "", false, false
		}
		if fn := x.Call.StaticCallee(); fn != nil && fn.Signature.Results().Len() == 1 {
			if sp.mayReturnNil(fn, 0, 0) {
				return "accessor " + shortFn(fn) + " has a path returning nil", false, true
			}
		}
	case *ssa.Lookup:
		if !x.CommaOk {
			return "map lookup result (zero value when the key is absent)", false, true
		}
	case *ssa.UnOp:
		if x.Op == token.MUL {
			// a variable captured by a closure analysed on its own: nilable if anything its
			// enclosing function stores into it is (a guard there is not visible from here)
			if fv, ok := x.X.(*ssa.FreeVar); ok && fv.Parent().Parent() != nil {
				for _, b := range fv.Parent().Parent().Blocks {
					for _, in := range b.Instrs {
						mc, ok := in.(*ssa.MakeClosure)
						if !ok || mc.Fn != ssa.Value(fv.Parent()) {
							continue
						}
						for j, q := range fv.Parent().FreeVars {
							if q != fv || j >= len(mc.Bindings) {
								continue
							}
							if al, ok := mc.Bindings[j].(*ssa.Alloc); ok {
								for _, r := range *al.Referrers() {
									if sto, ok := r.(*ssa.Store); ok && sto.Addr == ssa.Value(al) {
										if _, guarded := sto.Val.(*ssa.Extract); guarded {
											continue // (value, err) / (value, ok) results: their guard sits in the enclosing function, out of sight here
										}
										if src, _, ok := sp.nilSource(st, sto.Val); ok {
											return "captured variable " + fv.Name() + " holding " + src, false, true
										}
									}
								}
							}
						}
					}
				}
			}
			if fa, ok := x.X.(*ssa.FieldAddr); ok {
				if f := fieldOf(fa.X.Type(), fa.Field); f != nil && f.Pkg() != nil {
					if n := namedOf(fa.X.Type()); n != "" {
						if why, ok := nilableFields[n+"."+f.Name()]; ok {
							return "field " + shortName(n) + "." + f.Name() + ": " + why, false, true
						}
					}
				}
			}
		}
	case *ssa.Parameter:
		for i, p := range x.Parent().Params {
			if p == x {
				if why, ok := nilableParams[x.Parent().String()+"#"+strconv.Itoa(i)]; ok {
					return "parameter " + x.Name() + ": " + why, false, true
				}
			}
		}
	}
	return "", false, false
}

func namedOf(t types.Type) string {
	if p, ok := t.Underlying().(*types.Pointer); ok {
		t = p.Elem()
	}
	if p, ok := t.(*types.Pointer); ok {
		t = p.Elem()
	}
	if n, ok := t.(*types.Named); ok && n.Obj().Pkg() != nil {
		return n.Obj().Pkg().Path() + "." + n.Obj().Name()
	}
	return ""
}

func isErrorType(t types.Type) bool {
	return types.Identical(t, types.Universe.Lookup("error").Type())
}
func isBoolType(t types.Type) bool {
	b, ok := t.Underlying().(*types.Basic)
	return ok && b.Kind() == types.Bool
}

func calleeName(cc *ssa.CallCommon) string {
	if cc.IsInvoke() {
		return shortName(invokeName(cc))
	}
	if fn := cc.StaticCallee(); fn != nil {
		return shortFn(fn)
	}
	return "func value"
}

var mayNilMemo = map[string]int{}

// mayReturnNil: the function has a return whose idx-th result is the nil
// constant (through phis), or the result of another such function.
func (sp *safetyPass) mayReturnNil(fn *ssa.Function, idx, depth int) bool {
	if !derefType(fn.Signature.Results().At(idx).Type()) {
		return false
	}
	k := fn.String() + "#" + strconv.Itoa(idx)
	if v, ok := mayNilMemo[k]; ok {
		return v == 1
	}
	mayNilMemo[k] = 0
	res := false
	var visit func(v ssa.Value, d int) bool
	seen := map[ssa.Value]bool{}
	visit = func(v ssa.Value, d int) bool {
		if d > 8 || seen[v] {
			return false
		}
		seen[v] = true
		switch x := v.(type) {
		case *ssa.Const:
			return x.Value == nil
		case *ssa.Phi:
			for _, e := range x.Edges {
				if visit(e, d+1) {
					return true
				}
			}
		case *ssa.ChangeInterface:
			return visit(x.X, d+1)
		case *ssa.ChangeType:
			return visit(x.X, d+1)
		case *ssa.Call:
			if g := x.Call.StaticCallee(); g != nil && depth < 4 && g.Signature.Results().Len() == 1 {
				return sp.mayReturnNil(g, 0, depth+1)
			}
		}
		return false
	}
	for _, b := range fn.Blocks {
		if ret, ok := b.Instrs[len(b.Instrs)-1].(*ssa.Return); ok && idx < len(ret.Results) {
			if visit(ret.Results[idx], 0) {
				res = true
			}
		}
	}
	if res {
		mayNilMemo[k] = 1
	}
	return res
}

// ---- MAPWRITE ---------------------------------------------------------------

func (sp *safetyPass) mapwrite(st *State, x *ssa.MapUpdate) {
	ex := sp.ex
	desc := "map " + ex.Canon(nil, x.Map).S
	n, _ := ex.NilState(st, x.Map)
	if n == 1 {
		sp.add("MAPWRITE", "mapupdate", desc, x, Violated, "write to a map that is nil on this path", st)
		return
	}
	r := ex.Resolve(st, x.Map)
	if definitelyNonNil(r) || n == 0 {
		sp.add("MAPWRITE", "mapupdate", desc, x, Discharged, "map is made in this function", st)
		return
	}
	// a field/global: every store to it must be a made map or the success result of a constructor
	if ok, why := sp.mapOriginMade(r, 0); ok {
		sp.add("MAPWRITE", "mapupdate", desc, x, Discharged, why, st)
	} else {
		sp.add("MAPWRITE", "mapupdate", desc, x, Undecided, "cannot show the map is non-nil: "+why, st)
	}
}

// mapOriginMade: v is a load of a field/global all of whose first-party stores
// are made maps (or results of first-party functions returning a made map on
// the err == nil path).
func (sp *safetyPass) mapOriginMade(v ssa.Value, depth int) (bool, string) {
	if depth > 3 {
		return false, "too deep"
	}
	switch x := v.(type) {
	case *ssa.MakeMap:
		return true, "made map"
	case *ssa.UnOp:
		if x.Op != token.MUL {
			return false, "not a load"
		}
		var field *types.Var
		var glob *ssa.Global
		switch a := x.X.(type) {
		case *ssa.FieldAddr:
			field = fieldOf(a.X.Type(), a.Field)
		case *ssa.Global:
			glob = a
		default:
			return false, "map loaded from an untracked location"
		}
		stores := findStores(sp.c.P, field, glob)
		if len(stores) == 0 {
			return false, "no store to the field/global found"
		}
		for _, s := range stores {
			val := s.Val
			ok := false
			switch y := val.(type) {
			case *ssa.MakeMap:
				ok = true
			case *ssa.Extract:
				if call, isCall := y.Tuple.(*ssa.Call); isCall {
					if g := call.Call.StaticCallee(); g != nil && FirstParty(g) && returnsMadeMapOnSuccess(sp.c, g, y.Index) {
						ok = true
					}
				}
			}
			if !ok {
				return false, fmt.Sprintf("store at %s is not a made map", sp.c.P.InstrPos(s))
			}
		}
		return true, fmt.Sprintf("all %d stores to the location are made maps / constructor results", len(stores))
	}
	return false, "unrecognised map origin"
}

func returnsMadeMapOnSuccess(c *Ctx, fn *ssa.Function, idx int) bool {
	exits, exceeded := ExitsOf(c, fn)
	if exceeded {
		return false
	}
	okAny := false
	for _, e := range exits {
		if !e.isSuccessExit() || idx >= len(e.Results) {
			continue
		}
		if _, isMake := e.Results[idx].(*ssa.MakeMap); !isMake {
			return false
		}
		okAny = true
	}
	return okAny
}

// findStores returns all first-party stores to a struct field or global
// (including composite-literal initialisation, which SSA lowers to stores).
func findStores(p *Program, field *types.Var, glob *ssa.Global) []*ssa.Store {
	var out []*ssa.Store
	for _, fn := range p.SrcFuncs() {
		if isFixture(fn) {
			continue
		}
		for _, b := range fn.Blocks {
			for _, in := range b.Instrs {
				s, ok := in.(*ssa.Store)
				if !ok {
					continue
				}
				switch a := s.Addr.(type) {
				case *ssa.FieldAddr:
					if field != nil && fieldOf(a.X.Type(), a.Field) == field {
						out = append(out, s)
					}
				case *ssa.Global:
					if glob != nil && a == glob {
						out = append(out, s)
					}
				}
			}
		}
	}
	// package initialisers
	if glob != nil {
		if init := glob.Pkg.Func("init"); init != nil {
			for _, b := range init.Blocks {
				for _, in := range b.Instrs {
					if s, ok := in.(*ssa.Store); ok && s.Addr == glob {
						out = append(out, s)
					}
				}
			}
		}
	}
	return out
}

// ---- ASSERT -----------------------------------------------------------------

func (sp *safetyPass) assert(st *State, x *ssa.TypeAssert) {
	ex := sp.ex
	desc := shortType(x.X.Type()) + "->" + shortType(x.AssertedType)
	// (c) table exception
	if why, ok := assertExceptions[sp.fn.String()+" "+desc]; ok {
		sp.add("ASSERT", "assert", desc, x, Discharged, "table exception: "+why, st)
		return
	}
	// (b) sync.Pool typed
	if call, ok := ex.Resolve(st, x.X).(*ssa.Call); ok {
		if fn := call.Call.StaticCallee(); fn != nil && fn.String() == "(*sync.Pool).Get" {
			if ok, why := poolTyped(sp.c.P, call.Call.Args[0], x.AssertedType); ok {
				sp.add("ASSERT", "assert", desc, x, Discharged, why, st)
			} else {
				sp.add("ASSERT", "assert", desc, x, Violated, why, st)
			}
			return
		}
	}
	// (a) unique implementer under a discriminating interface method
	op := ex.Canon(st, x.X).S
	if iface, ok := x.X.Type().Underlying().(*types.Interface); ok {
		for _, k := range sortedKeys(st.hist) {
			f := st.hist[k]
			if f.Kind != "bool" || !strings.HasPrefix(f.X, "invoke:") || !strings.HasSuffix(f.X, "("+op+")") {
				continue
			}
			m := f.X[strings.LastIndex(f.X[:strings.Index(f.X, "(")], ".")+1 : strings.Index(f.X, "(")]
			impl := implementersReturning(sp.c.P, iface, x.X.Type(), m, f.Val)
			if len(impl) == 1 && types.Identical(impl[0], x.AssertedType) {
				sp.add("ASSERT", "assert", desc, x, Discharged, fmt.Sprintf("dominated by %s()==%v whose only implementer returning that constant is %s", m, f.Val, shortType(impl[0])), st)
				return
			}
		}
	}
	sp.add("ASSERT", "assert", desc, x, Violated, "single-result type assertion not justified (no discriminating method fact, not pool-typed, no table exception)", st)
}

// implementersReturning enumerates the concrete types of the program that
// implement iface and whose method m returns the boolean constant want.
func implementersReturning(p *Program, iface *types.Interface, ifaceT types.Type, m string, want bool) []types.Type {
	var out []types.Type
	seen := map[string]bool{}
	for _, pk := range p.Prog.AllPackages() {
		for _, mem := range pk.Members {
			tn, ok := mem.(*ssa.Type)
			if !ok {
				continue
			}
			for _, t := range []types.Type{tn.Type(), types.NewPointer(tn.Type())} {
				if types.IsInterface(t) || !types.Implements(t, iface) {
					continue
				}
				// prefer the value type if it implements; pointer otherwise
				sel := p.Prog.MethodSets.MethodSet(t).Lookup(pk.Pkg, m)
				if sel == nil {
					sel = p.Prog.MethodSets.MethodSet(t).Lookup(nil, m)
				}
				if sel == nil {
					continue
				}
				fn := p.Prog.MethodValue(sel)
				if fn == nil {
					continue
				}
				c, ok := constBoolReturn(fn)
				key := tn.Type().String()
				if ok && c == want && !seen[key] {
					seen[key] = true
					out = append(out, t)
				} else if !ok && !seen[key] {
					seen[key] = true
					out = append(out, t) // unknown behaviour counts as a possible implementer
				}
				break
			}
		}
	}
	return out
}

func constBoolReturn(fn *ssa.Function) (bool, bool) {
	// unwrap synthetic wrappers
	var val *bool
	for _, b := range fn.Blocks {
		ret, ok := b.Instrs[len(b.Instrs)-1].(*ssa.Return)
		if !ok {
			continue
		}
		if len(ret.Results) != 1 {
			return false, false
		}
		switch r := ret.Results[0].(type) {
		case *ssa.Const:
			if r.Value == nil || r.Value.Kind() != constant.Bool {
				return false, false
			}
			v := constant.BoolVal(r.Value)
			if val != nil && *val != v {
				return false, false
			}
			val = &v
		case *ssa.Call:
			if g := r.Call.StaticCallee(); g != nil && g != fn {
				v, ok := constBoolReturn(g)
				if !ok {
					return false, false
				}
				if val != nil && *val != v {
					return false, false
				}
				val = &v
			} else {
				return false, false
			}
		default:
			return false, false
		}
	}
	if val == nil {
		return false, false
	}
	return *val, true
}

// boxedAs: the interface value v holds a value of concrete type T, or - when T
// is itself an interface - a value whose static type implements T (a
// constructor's result; that the constructor does not return nil is assumed).
func boxedAs(v ssa.Value, T types.Type) bool {
	for {
		switch x := v.(type) {
		case *ssa.MakeInterface:
			if _, isIface := T.Underlying().(*types.Interface); isIface {
				return types.AssignableTo(x.X.Type(), T)
			}
			return types.Identical(x.X.Type(), T)
		case *ssa.ChangeInterface:
			v = x.X
			continue
		}
		if _, isIface := T.Underlying().(*types.Interface); isIface {
			if _, isConst := v.(*ssa.Const); isConst {
				return false
			}
			return types.AssignableTo(v.Type(), T)
		}
		return false
	}
}

// poolTyped: every value put into the pool and the pool's New result have type T.
func poolTyped(p *Program, pool ssa.Value, T types.Type) (bool, string) {
	g, ok := pool.(*ssa.Global)
	if !ok {
		return false, "pool is not a package-level variable"
	}
	n := 0
	for _, fn := range p.SrcFuncs() {
		for _, b := range fn.Blocks {
			for _, in := range b.Instrs {
				call, ok := in.(*ssa.Call)
				if !ok {
					continue
				}
				if f := call.Call.StaticCallee(); f != nil && f.String() == "(*sync.Pool).Put" && call.Call.Args[0] == g {
					if !boxedAs(call.Call.Args[1], T) {
						return false, fmt.Sprintf("Put at %s stores a value that is not %s", p.InstrPos(in), shortType(T))
					}
					n++
				}
			}
		}
	}
	// New function: stored in the package initialiser
	newOK := false
	if init := g.Pkg.Func("init"); init != nil {
		for _, b := range init.Blocks {
			for _, in := range b.Instrs {
				s, ok := in.(*ssa.Store)
				if !ok {
					continue
				}
				fa, ok := s.Addr.(*ssa.FieldAddr)
				if !ok || fa.X != g {
					continue
				}
				if f := fieldOf(fa.X.Type(), fa.Field); f == nil || f.Name() != "New" {
					continue
				}
				var nf *ssa.Function
				switch v := s.Val.(type) {
				case *ssa.Function:
					nf = v
				case *ssa.MakeClosure:
					nf, _ = v.Fn.(*ssa.Function)
				}
				if nf == nil {
					return false, "pool New is not a function literal"
				}
				for _, b2 := range nf.Blocks {
					if ret, ok := b2.Instrs[len(b2.Instrs)-1].(*ssa.Return); ok {
						if !boxedAs(ret.Results[0], T) {
							return false, "pool New returns a value that is not " + shortType(T)
						}
						newOK = true
					}
				}
			}
		}
	}
	if !newOK {
		return false, "pool New function not found"
	}
	return true, fmt.Sprintf("pool-typed: New and all %d Put sites use %s", n, shortType(T))
}

// ---- BOUNDS -----------------------------------------------------------------

func isSliceOrString(t types.Type) bool {
	switch u := t.Underlying().(type) {
	case *types.Slice:
		return true
	case *types.Basic:
		return u.Info()&types.IsString != 0
	}
	return false
}

func arrayLen(t types.Type) (int64, bool) {
	if p, ok := t.Underlying().(*types.Pointer); ok {
		t = p.Elem()
	}
	if a, ok := t.Underlying().(*types.Array); ok {
		return a.Len(), true
	}
	return 0, false
}

func constInt(v ssa.Value) (int64, bool) {
	c, ok := v.(*ssa.Const)
	if !ok || c.Value == nil || c.Value.Kind() != constant.Int {
		return 0, false
	}
	return c.Int64(), true
}

// lenLowerBound returns a proven lower bound for len(v) in state st and
// whether the bound is exact.
func (sp *safetyPass) lenLowerBound(st *State, v ssa.Value, depth int) (int64, bool) {
	ex := sp.ex
	if depth > 6 {
		return 0, false
	}
	best, exact := int64(0), false
	upd := func(n int64, ex bool) {
		if n > best || (n == best && ex) {
			best, exact = n, ex
		}
	}
	if n, ok := arrayLen(v.Type()); ok {
		return n, true
	}
	r := ex.Resolve(st, v)
	switch x := r.(type) {
	case *ssa.MakeSlice:
		if n, ok := constInt(x.Len); ok {
			upd(n, true)
		}
	case *ssa.Const:
		if x.Value != nil && x.Value.Kind() == constant.String {
			upd(int64(len(constant.StringVal(x.Value))), true)
		}
	case *ssa.Slice:
		if n, ok := arrayLen(x.X.Type()); ok && x.Low == nil && x.High == nil {
			upd(n, true)
		} else {
			lo := int64(0)
			if x.Low != nil {
				if n, ok := constInt(x.Low); ok {
					lo = n
				} else {
					lo = -1
				}
			}
			if x.High != nil && lo >= 0 {
				if h, ok := constInt(x.High); ok {
					upd(h-lo, true)
				}
			} else if x.High == nil && lo >= 0 {
				if n, ex2 := sp.lenLowerBound(st, x.X, depth+1); n-lo > 0 {
					upd(n-lo, ex2)
				}
			}
		}
	case *ssa.Call:
		if fn := x.Call.StaticCallee(); fn != nil {
			if n, ok := fixedLenResults[fn.String()]; ok {
				// result is nil or has length n
				if ns, _ := ex.NilState(st, r); ns == 0 || fn.String() == "net.IPv4Mask" || fn.String() == "net.IPv4" {
					upd(int64(n), true)
				}
			}
		}
	case *ssa.Parameter:
		// interprocedural: every first-party caller passes a long-enough value
		if lb, ok := sp.paramLenFromCallers(x); ok {
			upd(lb, false)
		}
	}
	// the value may be the result of an inlined helper: decide on its canonical form
	if cs := ex.Canon(st, r).S; strings.HasSuffix(cs, ")") {
		for k, n := range fixedLenResults {
			if strings.HasPrefix(cs, k+"(") && balancedCall(cs[len(k):]) {
				if ns, _ := ex.NilState(st, v); ns == 0 || k == "net.IPv4Mask" || k == "net.IPv4" {
					upd(int64(n), true)
				}
			}
		}
	}
	// branch facts on len(<canon>)
	ls := "len(" + ex.Canon(st, r).S + ")"
	for _, f := range st.live {
		switch f.Kind {
		case "eq":
			if f.X == ls {
				if f.Eq != "" {
					if n, err := strconv.ParseInt(f.Eq, 10, 64); err == nil {
						upd(n, true)
					}
				} else {
					for _, ne := range f.Ne {
						if ne == "0" {
							upd(1, false)
						}
					}
				}
			}
		case "lt":
			if f.X == ls && !f.Val { // len >= Y
				if n, err := strconv.ParseInt(f.Y, 10, 64); err == nil {
					upd(n, false)
				}
			}
			if f.Y == ls && f.Val { // X < len
				if n, err := strconv.ParseInt(f.X, 10, 64); err == nil {
					upd(n+1, false)
				}
			}
		}
	}
	return best, exact
}

var paramLenMemo = map[*ssa.Parameter]int64{}

func (sp *safetyPass) paramLenFromCallers(p *ssa.Parameter) (int64, bool) {
	if v, ok := paramLenMemo[p]; ok {
		return v, v > 0
	}
	paramLenMemo[p] = 0
	fn := p.Parent()
	if fn.Object() != nil && fn.Object().Exported() {
		return 0, false // exported: callers outside the module are unknown
	}
	idx := -1
	for i, q := range fn.Params {
		if q == p {
			idx = i
		}
	}
	sites := sp.c.P.CallersOf(fn)
	if len(sites) == 0 || idx < 0 {
		return 0, false
	}
	min := int64(1 << 40)
	for _, s := range sites {
		cc := s.Common()
		if cc.StaticCallee() != fn || idx >= len(cc.Args) {
			return 0, false
		}
		caller := s.Parent()
		// evaluate the argument's length in every abstract state of the caller reaching the site
		lb := int64(1 << 40)
		sub := &safetyPass{c: sp.c, prefix: sp.prefix, on: map[string]bool{}, fn: caller, ordinal: map[string]int{}}
		ex := NewExplorer(sp.c.P, sp.c.Pure, caller)
		sub.ex = ex
		hit := false
		ex.Hooks.Instr = func(st *State, in ssa.Instruction) {
			if in == s.(ssa.Instruction) {
				hit = true
				n, _ := sub.lenLowerBound(st, cc.Args[idx], 3)
				if n < lb {
					lb = n
				}
			}
		}
		ex.Run()
		if !hit || ex.Exceeded {
			return 0, false
		}
		if lb < min {
			min = lb
		}
	}
	paramLenMemo[p] = min
	return min, min > 0
}

func isRangeIndex(v ssa.Value) bool {
	b, ok := v.(*ssa.BinOp)
	if !ok || b.Op != token.ADD {
		return false
	}
	ph, ok := b.X.(*ssa.Phi)
	if !ok || ph.Comment != "rangeindex" {
		return false
	}
	c, ok := constInt(b.Y)
	return ok && c == 1
}

func (sp *safetyPass) needLen(st *State, in ssa.Instruction, arg ssa.Value, n int, callee string) {
	desc := callee + " arg " + sp.ex.Canon(nil, arg).S
	lb, _ := sp.lenLowerBound(st, arg, 0)
	if lb >= int64(n) {
		sp.add("BOUNDS", "needlen", desc, in, Discharged, fmt.Sprintf("len ≥ %d proven (needs %d)", lb, n), st)
	} else {
		sp.add("BOUNDS", "needlen", desc, in, Violated, fmt.Sprintf("%s indexes its argument up to %d but only len ≥ %d is established on this path", callee, n, lb), st)
	}
}

func (sp *safetyPass) bounds(st *State, in ssa.Instruction, base, index, lo, hi ssa.Value, kind string) {
	if !sp.on["BOUNDS"] {
		return
	}
	ex := sp.ex
	bt := base.Type()
	if _, ok := arrayLen(bt); ok {
		// arrays: constant indices are compiler-checked; variable indices need a fact
		if index != nil {
			if _, isC := constInt(index); isC {
				return
			}
		} else {
			cl, ch := lo == nil, hi == nil
			if lo != nil {
				_, cl = constInt(lo)
			}
			if hi != nil {
				_, ch = constInt(hi)
			}
			if cl && ch {
				return
			}
		}
	} else if !isSliceOrString(bt) {
		return
	}
	bcan := ex.Canon(nil, base).S
	var desc string
	if index != nil {
		desc = bcan + "[" + ex.Canon(nil, index).S + "]"
	} else {
		l, h := "", ""
		if lo != nil {
			l = ex.Canon(nil, lo).S
		}
		if hi != nil {
			h = ex.Canon(nil, hi).S
		}
		desc = bcan + "[" + l + ":" + h + "]"
	}
	if why, ok := boundsException(sp.fn.String() + " " + stableKey(desc)); ok {
		sp.add("BOUNDS", kind, desc, in, Discharged, "table exception: "+why, st)
		return
	}
	// the same construct reached through an inlined helper: rendered in the root's terms
	{
		var d2 string
		b2 := ex.Canon(st, base).S
		if index != nil {
			d2 = b2 + "[" + ex.Canon(st, index).S + "]"
		} else {
			l, h := "", ""
			if lo != nil {
				l = ex.Canon(st, lo).S
			}
			if hi != nil {
				h = ex.Canon(st, hi).S
			}
			d2 = b2 + "[" + l + ":" + h + "]"
		}
		if why, ok := boundsException(sp.fn.String() + " " + stableKey(d2)); ok && d2 != desc {
			sp.add("BOUNDS", kind, desc, in, Discharged, "table exception: "+why, st)
			return
		}
	}
	lb, _ := sp.lenLowerBound(st, base, 0)
	lenStr := "len(" + ex.Canon(st, ex.Resolve(st, base)).S + ")"
	// proves 0 <= v and v (<|<=) len(base)
	inRange := func(v ssa.Value, inclusive bool) (bool, string) {
		if c, ok := constInt(v); ok {
			if c < 0 {
				return false, "negative constant"
			}
			if (inclusive && c <= lb) || (!inclusive && c < lb) {
				return true, fmt.Sprintf("constant %d within proven len ≥ %d", c, lb)
			}
			return false, fmt.Sprintf("constant %d not covered by proven len ≥ %d", c, lb)
		}
		vs := ex.Canon(st, v).S
		// strings denoting len(base): len(make(T, n)) is n
		lenIs := map[string]bool{lenStr: true}
		if mk, ok := ex.Resolve(st, base).(*ssa.MakeSlice); ok {
			lenIs[ex.Canon(st, mk.Len).S] = true
		}
		if rangeElemOfSameValue(v, base, in) {
			return true, "index of a range loop over this very value (the loop's own i < len test dominates the access)"
		}
		if isRangeIndex(ex.Resolve(st, v)) || isRangeIndex(v) {
			// range-loop index: 0 <= i, and i < len on the body edge
			for _, f := range st.live {
				if f.Kind == "lt" && f.X == vs && f.Val && lenIs[f.Y] {
					return true, "range-loop index (i < " + f.Y + ")"
				}
				if k, err := strconv.ParseInt(f.Y, 10, 64); err == nil && f.Kind == "lt" && f.X == vs && f.Val && k <= lb {
					return true, "range-loop index (i < " + f.Y + " ≤ length)"
				}
			}
		}
		nonneg := false
		upper := false
		if countedIndexPhi(ex.Resolve(st, v)) != nil || countedIndexPhi(v) != nil {
			nonneg = true // for i := c (≥ 0); …; i += k (k > 0)
		}
		for _, f := range st.live {
			if f.Kind != "lt" {
				continue
			}
			if f.X == vs && f.Y == "0" && !f.Val {
				nonneg = true
			}
			if f.X == vs && lenIs[f.Y] && f.Val {
				upper = true
			}
			if k, err := strconv.ParseInt(f.Y, 10, 64); err == nil && f.X == vs && f.Val && k <= lb {
				upper = true // index < k with k ≤ the proven length
			}
			if f.X == "-1" && f.Y == vs && f.Val {
				nonneg = true
			}
		}
		// results of strings.(Last)IndexByte etc. are < len(s) of the same string
		if call, ok := ex.Resolve(st, v).(*ssa.Call); ok {
			if fn := call.Call.StaticCallee(); fn != nil {
				switch fn.String() {
				case "strings.LastIndexByte", "strings.IndexByte", "strings.Index", "strings.LastIndex", "strings.IndexRune", "bytes.IndexByte":
					if ex.Canon(st, call.Call.Args[0]).S == ex.Canon(st, ex.Resolve(st, base)).S {
						upper = true
					}
				}
			}
		}
		// v = w + 1 with w an index result of the same string and w >= 0
		if b, ok := ex.Resolve(st, v).(*ssa.BinOp); ok && b.Op == token.ADD {
			if c, ok := constInt(b.Y); ok && c == 1 && inclusive {
				if okw, _ := func() (bool, string) {
					ws := ex.Canon(st, b.X).S
					nn, up := false, false
					for _, f := range st.live {
						if f.Kind == "lt" && f.X == ws && f.Y == "0" && !f.Val {
							nn = true
						}
					}
					if call, ok := ex.Resolve(st, b.X).(*ssa.Call); ok {
						if fn := call.Call.StaticCallee(); fn != nil && strings.HasPrefix(fn.String(), "strings.") && strings.Contains(fn.Name(), "Index") {
							if ex.Canon(st, call.Call.Args[0]).S == ex.Canon(st, ex.Resolve(st, base)).S {
								up = true
							}
						}
					}
					return nn && up, ""
				}(); okw {
					return true, "index+1 of a found position in the same string"
				}
			}
		}
		if nonneg && upper {
			return true, "0 ≤ index < len established by branch facts"
		}
		return false, fmt.Sprintf("no fact bounds %s against %s", shortName(vs), shortName(lenStr))
	}
	ok, why := true, ""
	if index != nil {
		ok, why = inRange(index, false)
	} else {
		// s[lo:hi]: need 0<=lo<=hi<=len (cap for slices; len is a sound under-approximation)
		if hi != nil {
			ok, why = inRange(hi, true)
		}
		if ok && lo != nil {
			if hi == nil {
				ok, why = inRange(lo, true)
			} else {
				lc, lok := constInt(lo)
				hc, hok := constInt(hi)
				if lok && hok {
					if lc > hc {
						ok, why = false, "low > high"
					}
				} else if lok && lc == 0 {
				} else {
					ok2, why2 := inRange(lo, true)
					if !ok2 {
						ok, why = ok2, why2
					}
				}
			}
		}
		if hi == nil && lo == nil {
			ok, why = true, "full slice"
		}
	}
	if ok {
		sp.add("BOUNDS", kind, desc, in, Discharged, why, st)
	} else {
		sp.add("BOUNDS", kind, desc, in, Violated, "index/slice not proven in range: "+why, st)
	}
}

// ---- SHIFT / DIVZERO ---------------------------------------------------------

func (sp *safetyPass) arith(st *State, x *ssa.BinOp) {
	switch x.Op {
	case token.QUO, token.REM:
		b, ok := x.Y.Type().Underlying().(*types.Basic)
		if !ok || b.Info()&types.IsInteger == 0 {
			return
		}
		desc := sp.ex.Canon(nil, x).S
		if c, ok := constInt(x.Y); ok {
			if c == 0 {
				sp.add("DIVZERO", "div", desc, x, Violated, "division by constant zero", st)
			}
			return
		}
		ys := sp.ex.Canon(st, x.Y).S
		if f, ok := st.live["eq:"+ys]; ok {
			for _, ne := range f.Ne {
				if ne == "0" {
					sp.add("DIVZERO", "div", desc, x, Discharged, "divisor ≠ 0 on this path", st)
					return
				}
			}
			if f.Eq != "" && f.Eq != "0" {
				sp.add("DIVZERO", "div", desc, x, Discharged, "divisor is a non-zero constant on this path", st)
				return
			}
		}
		sp.add("DIVZERO", "div", desc, x, Violated, "integer division by a value not proven non-zero", st)
	case token.SHL, token.SHR:
		b, ok := x.Y.Type().Underlying().(*types.Basic)
		if !ok || b.Info()&types.IsUnsigned != 0 {
			return
		}
		if c, ok := constInt(x.Y); ok && c >= 0 {
			return
		}
		desc := sp.ex.Canon(nil, x).S
		ys := sp.ex.Canon(st, x.Y).S
		for _, f := range st.live {
			if f.Kind == "lt" && f.X == ys && f.Y == "0" && !f.Val {
				sp.add("SHIFT", "shift", desc, x, Discharged, "signed shift count ≥ 0 on this path", st)
				return
			}
		}
		sp.add("SHIFT", "shift", desc, x, Violated, "signed shift count not proven non-negative (negative count panics)", st)
	}
}

// ---- LOCKPAIR -----------------------------------------------------------------

func (sp *safetyPass) lockpair() {
	// every lock call in the function is an obligation
	n := 0
	probs := map[ssa.Instruction][]LockProblem{}
	for _, lp := range sp.ex.LockProblems {
		// attribute to the acquiring call when known
		var at ssa.Instruction = lp.At
		probs[at] = append(probs[at], lp)
	}
	var instrs []ssa.Instruction
	for _, g := range inlineFuncsBy(sp.fn, sp.ex.Inline) {
		for _, b := range g.Blocks {
			instrs = append(instrs, b.Instrs...)
		}
	}
	for _, in := range instrs {
		{
			var cc *ssa.CallCommon
			switch x := in.(type) {
			case *ssa.Call:
				cc = &x.Call
			case *ssa.Defer:
				cc = &x.Call
			}
			if cc == nil {
				continue
			}
			op, mode := mutexOp(cc)
			if op != "lock" {
				continue
			}
			n++
			key := strings.TrimPrefix(sp.ex.Canon(nil, cc.Args[0]).S, "&")
			desc := fmt.Sprintf("%s(%c) #%d", key, mode, n)
			bad := false
			for _, lp := range sp.ex.LockProblems {
				if lp.Lock != key {
					continue
				}
				bad = true
				detail := ""
				switch lp.Kind {
				case "held-at-exit":
					detail = fmt.Sprintf("mutex %s is still held at the exit %s on abstract path %v", shortName(key), sp.c.P.InstrPos(lp.At), lp.St.Trail())
				case "relock":
					detail = fmt.Sprintf("mutex %s locked again while held at %s", shortName(key), sp.c.P.InstrPos(lp.At))
				case "unlock-unheld":
					detail = fmt.Sprintf("mutex %s unlocked while not held at %s on abstract path %v", shortName(key), sp.c.P.InstrPos(lp.At), lp.St.Trail())
				}
				sp.add("LOCKPAIR", "lock", desc, in, Violated, detail, lp.St)
			}
			if !bad {
				sp.add("LOCKPAIR", "lock", desc, in, Discharged, "every abstract path from this acquisition releases the mutex exactly once before every exit (deferred releases cover panics)", nil)
			}
		}
	}
}

// balancedCall: s is exactly one parenthesised argument list "( ... )".
func balancedCall(s string) bool {
	if len(s) < 2 || s[0] != '(' {
		return false
	}
	d := 0
	for i, ch := range s {
		switch ch {
		case '(':
			d++
		case ')':
			d--
			if d == 0 {
				return i == len(s)-1
			}
		}
	}
	return false
}

// singleSiteHelper: a same-package helper (not an entry point or named anchor)
// with exactly one first-party call site, which is a plain static call.
func singleSiteHelper(c *Ctx, fn *ssa.Function) bool {
	sites := c.P.CallersOf(fn)
	if len(sites) == 0 || !inlinedEverywhere(c, fn) {
		return false
	}
	if len(sites) > 1 {
		// a tiny straight-line helper shared by a few callers is cheap to duplicate
		if len(sites) > 3 || len(fn.Blocks) > 6 || len(InfoOf(fn).LoopOf) > 0 {
			return false
		}
	}
	if fn.Signature.Recv() == nil && fn.Parent() != nil {
		return false // closures
	}
	return len(fn.Blocks) <= 80
}

// rangeElemOfSameValue: idx is the index of a `range` loop whose header tests
// idx < len(B) for the very SSA value B that is indexed here (SSA values are
// immutable: no store or call can change B's length), and the access sits in
// the loop body.
func rangeElemOfSameValue(idx, base ssa.Value, at ssa.Instruction) bool {
	b, ok := idx.(*ssa.BinOp)
	if !ok || !isRangeIndex(idx) {
		return false
	}
	ph := b.X.(*ssa.Phi)
	hb := ph.Block()
	iff, ok := hb.Instrs[len(hb.Instrs)-1].(*ssa.If)
	if !ok {
		return false
	}
	cmp, ok := iff.Cond.(*ssa.BinOp)
	if !ok || cmp.Op != token.LSS || cmp.X != idx {
		return false
	}
	call, ok := cmp.Y.(*ssa.Call)
	if !ok {
		return false
	}
	if bi, ok := call.Call.Value.(*ssa.Builtin); !ok || bi.Name() != "len" || call.Call.Args[0] != base {
		return false
	}
	return hb.Succs[0].Dominates(at.Block())
}

var derefsParamMemo = map[string]int{}

// derefsParamUnguarded: fn dereferences its i-th parameter (field selection,
// load, method call on an interface value, or handing it to a first-party
// function that does) and never compares it with nil.
func derefsParamUnguarded(fn *ssa.Function, i int, depth int) bool {
	if i >= len(fn.Params) || len(fn.Blocks) == 0 || depth > 3 {
		return false
	}
	k := fn.String() + "#" + strconv.Itoa(i)
	if v, ok := derefsParamMemo[k]; ok {
		return v == 1
	}
	derefsParamMemo[k] = 0
	p := fn.Params[i]
	refs := p.Referrers()
	if refs == nil {
		return false
	}
	for _, r := range *refs {
		if b, ok := r.(*ssa.BinOp); ok && (b.Op == token.EQL || b.Op == token.NEQ) {
			if isNilConst(b.X) || isNilConst(b.Y) {
				return false // tested somewhere: the callee takes care of nil itself
			}
		}
	}
	res := false
	for _, r := range *refs {
		switch x := r.(type) {
		case *ssa.FieldAddr:
			res = res || x.X == ssa.Value(p)
		case *ssa.UnOp:
			res = res || (x.Op == token.MUL && x.X == ssa.Value(p))
		case *ssa.IndexAddr:
			if _, isPtr := p.Type().Underlying().(*types.Pointer); isPtr {
				res = res || x.X == ssa.Value(p)
			}
		case ssa.CallInstruction:
			cc := x.Common()
			if cc.IsInvoke() && cc.Value == ssa.Value(p) {
				res = true
			}
			if g := cc.StaticCallee(); g != nil && FirstParty(g) {
				for j, a := range cc.Args {
					if a == ssa.Value(p) && derefsParamUnguarded(g, j, depth+1) {
						res = true
					}
				}
			}
		}
	}
	if res {
		derefsParamMemo[k] = 1
	}
	return res
}

// boundsException looks a construct up in the exception table; `x[:n]` and
// `x[0:n]` are the same construct.
func boundsException(key string) (string, bool) {
	// the table names anchors by their pinned names
	if curProg != nil {
		if fn := curProg.Anchor("sendEthernet"); fn != nil && strings.HasPrefix(key, fn.String()+" ") {
			key = "github.com/coredhcp/coredhcp/server.sendEthernet" + key[len(fn.String()):]
		}
	}
	if why, ok := boundsExceptions[key]; ok {
		return why, true
	}
	norm := func(k string) string { return strings.ReplaceAll(k, "[:", "[0:") }
	for k, why := range boundsExceptions {
		if norm(k) == norm(key) {
			return why, true
		}
	}
	return "", false
}

// positiveIn: a fact of the state establishes canonical value xs > 0.
func positiveIn(st *State, xs string) bool {
	for _, f := range st.live {
		if f.Kind == "lt" && f.X == xs && !f.Val {
			if k, err := strconv.ParseInt(f.Y, 10, 64); err == nil && k >= 1 {
				return true
			}
		}
		if f.Kind == "lt" && f.Y == xs && f.Val {
			if k, err := strconv.ParseInt(f.X, 10, 64); err == nil && k >= 0 {
				return true
			}
		}
	}
	return false
}

// capturedPositive: v is (a load of) a variable captured by the closure under
// analysis, and the enclosing function has established that it is > 0 in
// every abstract state in which it creates the closure, and never assigns it
// afterwards.
func (sp *safetyPass) capturedPositive(v ssa.Value) bool {
	ld, ok := v.(*ssa.UnOp)
	if !ok || ld.Op != token.MUL {
		return false
	}
	fv, ok := ld.X.(*ssa.FreeVar)
	if !ok || fv.Parent().Parent() == nil {
		return false
	}
	cl, parent := fv.Parent(), fv.Parent().Parent()
	idx := -1
	for j, q := range cl.FreeVars {
		if q == fv {
			idx = j
		}
	}
	ss := statesAt(sp.c, parent, func(in ssa.Instruction) bool {
		mc, ok := in.(*ssa.MakeClosure)
		return ok && mc.Fn == ssa.Value(cl)
	}, nil)
	n := 0
	for in, sts := range ss.Sites {
		mc := in.(*ssa.MakeClosure)
		if idx < 0 || idx >= len(mc.Bindings) {
			return false
		}
		al, ok := mc.Bindings[idx].(*ssa.Alloc)
		if !ok {
			return false
		}
		// single assignment before the closure exists: every store precedes the MakeClosure in its block order
		for _, r := range *al.Referrers() {
			if sto, ok := r.(*ssa.Store); ok && sto.Addr == ssa.Value(al) {
				if sto.Parent() != parent {
					return false // the closure (or another one) writes it
				}
			}
		}
		for _, st := range sts {
			n++
			val, ok := st.ReadLocal("new@" + ss.Ex.vname(al))
			if os.Getenv("CDLINT_DEBUG_ARGPOS") != "" {
				fmt.Fprintf(os.Stderr, "ARGPOS captured %s val=%q ok=%v\n", al.Comment, val, ok)
				for _, f := range st.live {
					if f.Kind == "lt" {
						fmt.Fprintf(os.Stderr, "   lt %q < %q = %v\n", f.X, f.Y, f.Val)
					}
				}
			}
			if !(ok && positiveIn(st, val)) && !positiveIn(st, "new@"+ss.Ex.vname(al)) {
				return false
			}
		}
	}
	return n > 0
}
