package main

import (
	"golang.org/x/tools/go/ssa"
)

// ExitInfo describes one abstract path to a Return: the results resolved
// through phis and spilled named results, and the state at the return.
type ExitInfo struct {
	Ret     *ssa.Return
	Results []ssa.Value // resolved
	Canon   []string
	St      *State
	Ex      *Explorer
}

type exitSummary struct {
	exits    []ExitInfo
	exceeded bool
}

var exitCache = map[*ssa.Function]*exitSummary{}

// ExitsOf explores fn and returns every (abstract path, return) pair.
func ExitsOf(c *Ctx, fn *ssa.Function) ([]ExitInfo, bool) {
	if s, ok := exitCache[fn]; ok {
		return s.exits, s.exceeded
	}
	ex := NewExplorer(c.P, c.Pure, fn)
	s := &exitSummary{}
	ex.Hooks.Exit = func(st *State, in ssa.Instruction) {
		ret, ok := in.(*ssa.Return)
		if !ok {
			return
		}
		ei := ExitInfo{Ret: ret, St: st, Ex: ex}
		for _, r := range ret.Results {
			ei.Results = append(ei.Results, ex.ResolveDeep(st, r))
			ei.Canon = append(ei.Canon, ex.Canon(st, r).S)
		}
		s.exits = append(s.exits, ei)
	}
	ex.Run()
	s.exceeded = ex.Exceeded
	exitCache[fn] = s
	return s.exits, s.exceeded
}

// isSuccessExit: the last result is an error and resolves to the nil constant.
func (e *ExitInfo) isSuccessExit() bool {
	if len(e.Results) == 0 {
		return false
	}
	last := e.Results[len(e.Results)-1]
	return isErrorType(e.Ret.Results[len(e.Results)-1].Type()) && isNilConst(last)
}

// isErrorExit: the last result is an error and is definitely non-nil, or is
// known non-nil on the path.
func (e *ExitInfo) isErrorExit() bool {
	if len(e.Results) == 0 {
		return false
	}
	i := len(e.Results) - 1
	if !isErrorType(e.Ret.Results[i].Type()) {
		return false
	}
	n, _ := e.Ex.NilState(e.St, e.Ret.Results[i])
	return n == 0
}
