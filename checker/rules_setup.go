package main

import (
	"fmt"
	"os"
	"regexp"
	"strings"

	"golang.org/x/tools/go/ssa"
)

// ---- SETUP.HANDLER-OR-ERROR ----------------------------------------------------

func ruleSetupHandlerOrError(c *Ctx, rule string, ro *Roots) {
	for _, fn := range ro.AllSetups() {
		c.R.Functions[shortFn(fn)] = true
		exits, exceeded := ExitsOf(c, fn)
		key := shortFn(fn) + " success ⇒ handler"
		if exceeded {
			c.R.unk(rule, key, c.P.Pos(fn.Pos()), shortFn(fn), "state budget exceeded")
			continue
		}
		nS, nE := 0, 0
		bad := ""
		for _, e := range exits {
			if len(e.Results) != 2 {
				continue
			}
			errN, _ := e.Ex.NilState(e.St, e.Ret.Results[1])
			hN, _ := e.Ex.NilState(e.St, e.Ret.Results[0])
			if errN == -1 {
				// (h, err) forwarded from a first-party helper: look at the helper's exits
				if ok, s, f, why := forwardedExits(c, e.Results[0], e.Results[1]); ok {
					nS += s
					nE += f
					if why != "" {
						bad = why
					}
					continue
				}
			}
			switch errN {
			case 1:
				nS++
				if hN != 0 {
					bad = fmt.Sprintf("return at %s has a nil error but the handler is not shown non-nil (%s)", c.P.InstrPos(e.Ret), shortName(e.Canon[0]))
				}
			case 0:
				nE++
			default:
				// error value of a callee passed on: the handler must then be non-nil too, or LoadPlugins'
				// own check (error first) decides. Accept when either the handler is non-nil or nil constant
				// (LoadPlugins tests the error before the handler).
				nE++
			}
		}
		if bad != "" {
			c.R.Add(&Obl{Rule: rule, Key: key, Pos: c.P.Pos(fn.Pos()), Fn: shortFn(fn), Verdict: Violated, Detail: bad, Fixture: isFixture(fn)})
		} else if nS == 0 {
			c.R.Add(&Obl{Rule: rule, Key: key, Pos: c.P.Pos(fn.Pos()), Fn: shortFn(fn), Verdict: Violated, Detail: "setup has no successful return", Fixture: isFixture(fn)})
		} else {
			c.R.Add(&Obl{Rule: rule, Key: key, Pos: c.P.Pos(fn.Pos()), Fn: shortFn(fn), Verdict: Discharged, Detail: fmt.Sprintf("%d abstract success returns all carry a non-nil handler; %d error returns", nS, nE), Fixture: isFixture(fn)})
		}
	}
}

// ---- SETUP.FAMILY ----------------------------------------------------------------

// addressParsers: results that are addresses of either family.
var addressParsers = map[string][]int{ // callee -> result indices that are net.IP / *net.IPNet
	"net.ParseIP":   {0},
	"net.ParseCIDR": {0, 1},
}

// ruleSetupFamily: every address parsed from configuration text on a path
// that ends in success (or in the next loop iteration) has had its family
// examined: a decided fact over To4/To16/len of the parsed value. For parsed
// networks kept by a DHCPv4 setup the mask width must be examined as well.
func ruleSetupFamily(c *Ctx, rule string, fns []*ssa.Function, v4 map[*ssa.Function]bool) {
	for _, fn := range fns {
		has := false
		eachInstr(fn, func(in ssa.Instruction) { // parses made in helpers explored inline count for their caller
			if call, ok := in.(*ssa.Call); ok {
				if f := call.Call.StaticCallee(); f != nil {
					if _, ok := addressParsers[f.String()]; ok {
						has = true
					}
				}
			}
		})
		if !has || inlinedEverywhere(c, fn) {
			continue // helpers explored inline are judged in their callers, where the checks may follow the call
		}
		c.R.Functions[shortFn(fn)] = true
		ex := NewExplorer(c.P, c.Pure, fn)
		type res struct {
			n   int
			bad string
		}
		sites := map[ssa.Instruction]*res{}
		labelSite := map[string]ssa.Instruction{}
		labelRoot := map[string][]ssa.Instruction{} // the parse and the calls (of inlined helpers) leading to it
		ex.Hooks.Label = func(st *State, in ssa.Instruction) string {
			if call, ok := in.(*ssa.Call); ok {
				if f := call.Call.StaticCallee(); f != nil {
					if _, ok := addressParsers[f.String()]; ok {
						l := "parse:" + ex.Canon(st, call).S
						labelSite[l] = in
						// where this parse happens in terms of the function being explored
						// (the call that leads into the helper, when the parse is in one)
						chain := []ssa.Instruction{in}
						for _, fr := range st.frames {
							chain = append(chain, fr.call)
						}
						labelRoot[l] = chain
						if sites[in] == nil {
							sites[in] = &res{}
						}
						return l
					}
				}
			}
			return ""
		}
		check := func(st *State, where string) {
			for l := range st.seen {
				if !strings.HasPrefix(l, "parse:") {
					continue
				}
				in := labelSite[l]
				call := in.(*ssa.Call)
				callee := call.Call.StaticCallee().String()
				cs := strings.TrimPrefix(l, "parse:")
				r := sites[in]
				r.n++
				// is the parsed value only examined and discarded? (e.g. a validity check) - still must be examined
				ipFact, maskFact := false, false
				for _, k := range sortedKeys(st.hist) {
					f := st.hist[k]
					xs := f.X + " " + f.Y
					if !strings.Contains(xs, cs) {
						continue
					}
					if regexp.MustCompile(`\(net\.IP\)\.To(4|16)\(`+reQ(cs)+`(#0|#1\.IP)?\)`).MatchString(xs) && f.Kind == "nil" {
						ipFact = true
					}
					if regexp.MustCompile(`len\(` + reQ(cs) + `(#0|#1\.IP)?\)`).MatchString(xs) {
						ipFact = true
					}
					if regexp.MustCompile(`len\(` + reQ(cs) + `#1\.Mask\)|\(net\.IPMask\)\.Size\(` + reQ(cs) + `#1\.Mask\)#1`).MatchString(xs) {
						maskFact = true
					}
				}
				// values derived by To4() and then nil-checked count as examined
				for _, k := range sortedKeys(st.hist) {
					f := st.hist[k]
					if f.Kind == "nil" && strings.HasPrefix(f.X, "(net.IP).To4("+cs) || f.Kind == "nil" && strings.HasPrefix(f.X, "(net.IP).To16("+cs) {
						ipFact = true
					}
				}
				needMask := callee == "net.ParseCIDR" && v4[fn]
				// net.ParseIP reports failure by a nil result only: an accepted value must be
				// proved non-nil (x != nil, or To4(x)/To16(x) != nil, or a positive length)
				nonNil := callee != "net.ParseIP"
				for _, k := range sortedKeys(st.hist) {
					f := st.hist[k]
					if f.Kind == "nil" && !f.Val && (f.X == cs || f.X == "(net.IP).To4("+cs+")" || f.X == "(net.IP).To16("+cs+")") {
						nonNil = true
					}
					if (f.Kind == "eq" || f.Kind == "lt") && strings.Contains(f.X+" "+f.Y, "len("+cs+")") {
						if f.Kind == "eq" && f.Eq != "" && f.Eq != "0" {
							nonNil = true
						}
					}
				}
				isV4 := callee != "net.ParseIP" || !v4[fn]
				for _, k := range sortedKeys(st.hist) {
					f := st.hist[k]
					if f.Kind == "nil" && !f.Val && f.X == "(net.IP).To4("+cs+")" {
						isV4 = true
					}
					if f.Kind == "eq" && f.Eq == "4" && f.X == "len("+cs+")" {
						isV4 = true
					}
				}
				if ipFact && nonNil && !isV4 {
					r.bad = fmt.Sprintf("a DHCPv4 setup accepts (%s) the result of net.ParseIP without having proved it an IPv4 address (To4 != nil or len == 4)", where)
					continue
				}
				if ipFact && !nonNil {
					r.bad = fmt.Sprintf("the result of net.ParseIP is accepted (%s) without having been proved non-nil: an unparsable token yields a nil address that reaches the handler", where)
					continue
				}
				if os.Getenv("CDLINT_DEBUG_FAMILY") != "" && (!ipFact || (needMask && !maskFact)) {
					fmt.Fprintf(os.Stderr, "FAMDBG %s cs=%s hist=%v\n", shortFn(fn), cs, st.HistStrings())
				}
				if !ipFact {
					r.bad = fmt.Sprintf("an address parsed by %s is accepted (%s) without its family (To4/To16/len) having been examined: a value of the other family reaches an encoder that slices it", callee, where)
				} else if needMask && !maskFact {
					r.bad = fmt.Sprintf("a network parsed by %s is accepted (%s) by a DHCPv4 setup without its mask width having been examined (an IPv4-mapped IPv6 network has a 128-bit mask)", callee, where)
				}
			}
		}
		ex.Hooks.BackEdge = func(st *State, from, header *ssa.BasicBlock) {
			check(st, "next loop iteration")
			for l := range st.seen {
				if strings.HasPrefix(l, "parse:") {
					// only drop parses made inside this loop
					for _, in := range labelRoot[l] {
						if in.Parent() == header.Parent() && InfoOf(header.Parent()).LoopOf[header.Index][in.Block().Index] {
							delete(st.seen, l)
						}
					}
				}
			}
		}
		ex.Hooks.Exit = func(st *State, in ssa.Instruction) {
			ret, ok := in.(*ssa.Return)
			if !ok || len(ret.Results) == 0 {
				return
			}
			last := ret.Results[len(ret.Results)-1]
			if isErrorType(last.Type()) {
				if n, _ := ex.NilState(st, last); n != 1 {
					return // error (or possibly-error) return: nothing is accepted
				}
			}
			check(st, "successful return at "+c.P.InstrPos(in))
		}
		ex.Run()
		n := 0
		for _, in := range viewInstrs(fn) {
			{
				r, ok := sites[in]
				if !ok {
					continue
				}
				n++
				key := fmt.Sprintf("%s %s#%d", shortFn(fn), in.(*ssa.Call).Call.StaticCallee().Name(), n)
				o := &Obl{Rule: rule, Key: key, Pos: c.P.InstrPos(in), Fn: shortFn(fn), Fixture: isFixture(fn)}
				if r.bad != "" {
					o.Verdict, o.Detail = Violated, r.bad
				} else {
					o.Verdict, o.Detail = Discharged, fmt.Sprintf("family examined on every accepting path (%d abstract states)", r.n)
				}
				c.R.Add(o)
			}
		}
		if ex.Exceeded {
			c.R.unk(rule, shortFn(fn)+" explore", c.P.Pos(fn.Pos()), shortFn(fn), "state budget exceeded")
		}
	}
}

// forwardedExits: h and err are results #i and #j of the same call to a
// first-party function g; classify g's exits instead.
func forwardedExits(c *Ctx, h, err ssa.Value) (bool, int, int, string) {
	eh, ok1 := h.(*ssa.Extract)
	ee, ok2 := err.(*ssa.Extract)
	if !ok1 || !ok2 || eh.Tuple != ee.Tuple {
		return false, 0, 0, ""
	}
	call, ok := eh.Tuple.(*ssa.Call)
	if !ok {
		return false, 0, 0, ""
	}
	g := call.Call.StaticCallee()
	if g == nil || !FirstParty(g) {
		return false, 0, 0, ""
	}
	exits, exceeded := ExitsOf(c, g)
	if exceeded {
		return false, 0, 0, ""
	}
	nS, nE := 0, 0
	why := ""
	for _, e := range exits {
		if eh.Index >= len(e.Results) || ee.Index >= len(e.Results) {
			continue
		}
		errN, _ := e.Ex.NilState(e.St, e.Ret.Results[ee.Index])
		hN, _ := e.Ex.NilState(e.St, e.Ret.Results[eh.Index])
		if errN == 1 {
			nS++
			if hN != 0 {
				why = fmt.Sprintf("helper %s returns a nil error at %s but result #%d is not shown non-nil", shortFn(g), c.P.InstrPos(e.Ret), eh.Index)
			}
		} else {
			nE++
		}
	}
	return true, nS, nE, why
}
