package main

import (
	"encoding/json"
	"fmt"
	"os"
	"path/filepath"
	"sort"
	"strings"
)

type Verdict string

const (
	Discharged Verdict = "discharged"
	Violated   Verdict = "violated"
	Undecided  Verdict = "undecided"
)

// Obl is one obligation: a construct of the program that a rule had to justify.
// Key identifies it by rule + construct (never by line).
type Obl struct {
	Rule    string   `json:"rule"`
	Key     string   `json:"key"`
	Pos     string   `json:"pos"`
	Fn      string   `json:"function"`
	Verdict Verdict  `json:"verdict"`
	Detail  string   `json:"detail,omitempty"`
	Facts   []string `json:"facts,omitempty"`
	Fixture bool     `json:"-"`
	Known   bool     `json:"known_finding,omitempty"`
}

type RuleStat struct {
	Sites      int `json:"sites"`
	Floor      int `json:"floor"`
	Discharged int `json:"discharged"`
	Violated   int `json:"violated"`
	Undecided  int `json:"undecided"`
}

// Report accumulates the obligations of one property run.
type Report struct {
	Prop      string
	Obls      []*Obl
	floors    map[string]int
	Notes     []string
	Functions map[string]bool
	Fatal     []string // anchor-unresolved, floor failures, checker errors
	seenKeys  map[string]int
}

func NewReport(prop string) *Report {
	return &Report{Prop: prop, floors: map[string]int{}, Functions: map[string]bool{}, seenKeys: map[string]int{}}
}

// Add records an obligation. If the same (rule,key) is added again the worst
// verdict wins and details are merged: obligations are keyed by construct.
func (r *Report) Add(o *Obl) *Obl {
	k := o.Rule + " " + o.Key
	if i, ok := r.seenKeys[k]; ok {
		old := r.Obls[i]
		if rank(o.Verdict) > rank(old.Verdict) {
			old.Verdict = o.Verdict
			old.Detail = o.Detail
			old.Pos = o.Pos
		} else if rank(o.Verdict) == rank(old.Verdict) && o.Verdict != Discharged && o.Detail != "" && !strings.Contains(old.Detail, o.Detail) && len(old.Detail) < 1500 {
			old.Detail += " | " + o.Detail
		}
		for _, f := range o.Facts {
			if len(old.Facts) < 12 {
				old.Facts = append(old.Facts, f)
			}
		}
		return old
	}
	r.seenKeys[k] = len(r.Obls)
	r.Obls = append(r.Obls, o)
	return o
}

func rank(v Verdict) int {
	switch v {
	case Discharged:
		return 0
	case Undecided:
		return 1
	}
	return 2
}

func (r *Report) ok(rule, key, pos, fn, detail string, facts ...string) {
	r.Add(&Obl{Rule: rule, Key: key, Pos: pos, Fn: fn, Verdict: Discharged, Detail: detail, Facts: facts})
}
func (r *Report) bad(rule, key, pos, fn, detail string, facts ...string) {
	r.Add(&Obl{Rule: rule, Key: key, Pos: pos, Fn: fn, Verdict: Violated, Detail: detail, Facts: facts})
}
func (r *Report) unk(rule, key, pos, fn, detail string, facts ...string) {
	r.Add(&Obl{Rule: rule, Key: key, Pos: pos, Fn: fn, Verdict: Undecided, Detail: detail, Facts: facts})
}

// Floor declares the minimum number of real (non-fixture) sites rule must match.
func (r *Report) Floor(rule string, n int) { r.floors[rule] = n }

func (r *Report) Fatalf(format string, a ...interface{}) {
	r.Fatal = append(r.Fatal, fmt.Sprintf(format, a...))
}

func (r *Report) Note(format string, a ...interface{}) {
	r.Notes = append(r.Notes, fmt.Sprintf(format, a...))
}

// ---- known findings -------------------------------------------------------

type KnownFinding struct {
	Property     string `json:"property"`
	Rule         string `json:"rule"`
	Key          string `json:"key"`
	Status       string `json:"status"` // "known" | "fixed"
	Commit       string `json:"commit,omitempty"`
	What         string `json:"what"`
	FailingInput string `json:"failing_input,omitempty"`
}

func loadKnown(path string) ([]KnownFinding, error) {
	b, err := os.ReadFile(path)
	if err != nil {
		if os.IsNotExist(err) {
			return nil, nil
		}
		return nil, err
	}
	var f struct {
		Findings []KnownFinding `json:"findings"`
	}
	if err := json.Unmarshal(b, &f); err != nil {
		return nil, err
	}
	return f.Findings, nil
}

// ---- finishing a run ------------------------------------------------------

type runInfo struct {
	Tier       string
	Seed       int
	WallS      float64
	Evidence   string
	ReplayDir  string
	Explain    string
	Trusted    []string
	Assume     []string
	Configs    []string
	Packages   int
	Extra      map[string]interface{}
	CheckerCmd string
	Only       string
}

// Finish prints the report, writes replay files and evidence, and returns the
// process exit code.
func (r *Report) Finish(known []KnownFinding, ri runInfo) int {
	stats := map[string]*RuleStat{}
	rules := []string{}
	get := func(rule string) *RuleStat {
		s, ok := stats[rule]
		if !ok {
			s = &RuleStat{Floor: r.floors[rule]}
			stats[rule] = s
			rules = append(rules, rule)
		}
		return s
	}
	for rule := range r.floors {
		get(rule)
	}
	knownSet := map[string]KnownFinding{}
	for _, k := range known {
		if k.Property == r.Prop && k.Status == "known" {
			knownSet[k.Rule+" "+k.Key] = k
		}
	}
	var viol, knownHit []*Obl
	nObl, nDis, nUnd := 0, 0, 0
	distinct := map[string]bool{}
	for _, o := range r.Obls {
		if o.Fixture {
			continue
		}
		if ri.Only != "" && !strings.Contains(o.Rule+" "+o.Key, ri.Only) {
			continue
		}
		s := get(o.Rule)
		s.Sites++
		nObl++
		distinct[o.Rule+" "+o.Key] = true
		switch o.Verdict {
		case Discharged:
			s.Discharged++
			nDis++
		case Violated, Undecided:
			if o.Verdict == Violated {
				s.Violated++
			} else {
				s.Undecided++
				nUnd++
			}
			if _, ok := knownSet[o.Rule+" "+strings.TrimPrefix(o.Key, "[386] ")]; ok {
				o.Known = true
				knownHit = append(knownHit, o)
			} else {
				viol = append(viol, o)
			}
		}
	}
	sort.Strings(rules)
	if ri.Only == "" {
		for _, rule := range rules {
			s := stats[rule]
			if s.Sites < s.Floor {
				r.Fatalf("FLOOR rule=%s matched %d sites, floor is %d (rule no longer matches the constructs confirmed by hand)", rule, s.Sites, s.Floor)
			}
		}
	}
	for _, rule := range rules {
		s := stats[rule]
		fmt.Printf("ANALYSED  prop=%s rule=%s sites=%d floor=%d discharged=%d violated=%d undecided=%d\n",
			r.Prop, rule, s.Sites, s.Floor, s.Discharged, s.Violated, s.Undecided)
	}
	for _, n := range r.Notes {
		fmt.Printf("NOTE      %s\n", n)
	}
	if os.Getenv("CDLINT_LIST") != "" {
		for _, o := range r.Obls {
			fmt.Printf("OBL %-11s %-24s %s | %s | %s\n", o.Verdict, o.Rule, o.Key, o.Pos, oneLine(o.Detail))
		}
	}
	for _, o := range knownHit {
		k := knownSet[o.Rule+" "+strings.TrimPrefix(o.Key, "[386] ")]
		fmt.Printf("KNOWN-FINDING: property=%s %s [%s %s] at %s: %s\n", r.Prop, k.What, o.Rule, o.Key, o.Pos, oneLine(o.Detail))
	}
	exit := 0
	os.MkdirAll(ri.ReplayDir, 0o755)
	// remove stale replay files of this property
	if old, _ := filepath.Glob(filepath.Join(ri.ReplayDir, r.Prop+"-*.json")); ri.Only == "" {
		for _, f := range old {
			os.Remove(f)
		}
	}
	for i, o := range viol {
		exit = 1
		rp := filepath.Join(ri.ReplayDir, fmt.Sprintf("%s-%d.json", r.Prop, i+1))
		b, _ := json.MarshalIndent(map[string]interface{}{
			"property": r.Prop, "rule": o.Rule, "key": o.Key, "pos": o.Pos, "function": o.Fn,
			"verdict": o.Verdict, "detail": o.Detail, "facts": o.Facts,
			"replay_cmd": fmt.Sprintf("bin/cdlint -prop %s -only %q", r.Prop, o.Rule+" "+o.Key),
		}, "", " ")
		os.WriteFile(rp, b, 0o644)
		kind := ""
		if o.Verdict == Undecided {
			kind = " kind=undecided"
		}
		fmt.Printf("VIOLATION property=%s replay=%s%s\n  %s %s %s: %s\n  key: %s\n", r.Prop, rp, kind, o.Rule, o.Pos, o.Fn, o.Detail, o.Key)
		for _, f := range o.Facts {
			fmt.Printf("    fact: %s\n", f)
		}
	}
	for i, f := range r.Fatal {
		exit = 1
		rp := filepath.Join(ri.ReplayDir, fmt.Sprintf("%s-F%d.json", r.Prop, i+1))
		b, _ := json.MarshalIndent(map[string]interface{}{"property": r.Prop, "fatal": f}, "", " ")
		os.WriteFile(rp, b, 0o644)
		fmt.Printf("VIOLATION property=%s replay=%s kind=checker\n  %s\n", r.Prop, rp, f)
	}

	// evidence
	samples := []interface{}{}
	perRuleSample := map[string]int{}
	for _, o := range r.Obls {
		if o.Fixture {
			continue
		}
		if perRuleSample[o.Rule] >= 3 && o.Verdict == Discharged {
			continue
		}
		perRuleSample[o.Rule]++
		samples = append(samples, o)
		if len(samples) >= 60 {
			break
		}
	}
	fns := make([]string, 0, len(r.Functions))
	for f := range r.Functions {
		fns = append(fns, f)
	}
	sort.Strings(fns)
	kf := []string{}
	for _, o := range knownHit {
		kf = append(kf, o.Rule+" "+o.Key)
	}
	cov := map[string]interface{}{
		"explanation":         ri.Explain,
		"rule":                "obligations are enumerated from the SSA of /repo's working tree: one per construct a rule must justify (call site, store, return, branch, table row). distinct_nontrivial counts distinct (rule,construct) keys that matched a real first-party site (fixtures excluded).",
		"obligations":         nObl,
		"discharged":          nDis,
		"undecided":           nUnd,
		"violated":            len(viol) + len(knownHit) - nUndKnown(knownHit),
		"evaluations":         nObl,
		"distinct_nontrivial": len(distinct),
		"checker_cmd":         ri.CheckerCmd,
		"trusted_base":        ri.Trusted,
		"exhaustive":          true,
		"build_configs":       ri.Configs,
		"packages":            ri.Packages,
		"functions_analysed":  fns,
		"per_rule":            stats,
		"samples":             samples,
		"known_findings":      kf,
		"notes":               r.Notes,
		"fatal":               r.Fatal,
	}
	for k, v := range ri.Extra {
		cov[k] = v
	}
	ev := map[string]interface{}{
		"property_id": r.Prop,
		"tier":        ri.Tier,
		"seed":        ri.Seed,
		"level":       "other",
		"coverage":    cov,
		"assumptions": ri.Assume,
		"wall_s":      ri.WallS,
		"violations":  len(viol) + len(r.Fatal),
	}
	if ri.Evidence != "" && ri.Only == "" {
		os.MkdirAll(filepath.Dir(ri.Evidence), 0o755)
		b, _ := json.MarshalIndent(ev, "", " ")
		if err := os.WriteFile(ri.Evidence, b, 0o644); err != nil {
			fmt.Printf("VIOLATION property=%s replay=- kind=checker\n  cannot write evidence: %v\n", r.Prop, err)
			exit = 1
		}
	}
	fmt.Printf("RESULT    prop=%s tier=%s obligations=%d discharged=%d violations=%d known=%d fatal=%d wall=%.1fs exit=%d\n",
		r.Prop, ri.Tier, nObl, nDis, len(viol), len(knownHit), len(r.Fatal), ri.WallS, exit)
	return exit
}

func nUndKnown(os []*Obl) int {
	n := 0
	for _, o := range os {
		if o.Verdict == Undecided {
			n++
		}
	}
	return n
}

func oneLine(s string) string {
	s = strings.ReplaceAll(s, "\n", " ")
	if len(s) > 300 {
		s = s[:300] + "…"
	}
	return s
}
