package main

// addFixtures injects the positive-control package into the overlay.
func addFixtures(repo string, overlay map[string][]byte) {}

// runFixtureControls asserts that the fixture obligations behave as expected.
func runFixtureControls(c *Ctx) {}
