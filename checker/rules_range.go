package main

import (
	"fmt"
	"go/constant"
	"go/token"
	"go/types"
	"regexp"
	"strings"

	"golang.org/x/tools/go/ssa"
)

// varargElems returns the values stored into the elements of the variadic
// argument slice of a call (args... built by the compiler as a local array).
func varargElems(v ssa.Value) []ssa.Value {
	sl, ok := v.(*ssa.Slice)
	if !ok {
		return nil
	}
	arr, ok := sl.X.(*ssa.Alloc)
	if !ok {
		return nil
	}
	n, ok := arrayLen(arr.Type())
	if !ok {
		return nil
	}
	out := make([]ssa.Value, n)
	for _, r := range *arr.Referrers() {
		ia, ok := r.(*ssa.IndexAddr)
		if !ok {
			continue
		}
		idx, ok := constInt(ia.Index)
		if !ok || idx < 0 || idx >= n {
			continue
		}
		for _, r2 := range *ia.Referrers() {
			if s, ok := r2.(*ssa.Store); ok {
				out[idx] = s.Val
			}
		}
	}
	return out
}

func unbox(v ssa.Value) ssa.Value {
	for {
		switch x := v.(type) {
		case *ssa.MakeInterface:
			v = x.X
		case *ssa.ChangeInterface:
			v = x.X
		default:
			return v
		}
	}
}

type sqlStmt struct {
	Text string
	Call *ssa.Call
	Kind string // create | select | insert
	Cols []string
}

var (
	reCreate = regexp.MustCompile(`(?is)^\s*create\s+table\s+(if\s+not\s+exists\s+)?(\w+)\s*\((.*)\)\s*$`)
	reSelect = regexp.MustCompile(`(?is)^\s*select\s+(.*?)\s+from\s+(\w+)`)
	reInsert = regexp.MustCompile(`(?is)^\s*(insert(\s+or\s+(\w+))?|replace)\s+into\s+(\w+)\s*\(([^)]*)\)\s*values\s*\(([^)]*)\)(.*)$`)
)

func splitCols(s string) []string {
	var out []string
	for _, p := range strings.Split(s, ",") {
		p = strings.TrimSpace(p)
		if p != "" {
			out = append(out, p)
		}
	}
	return out
}

func ruleDBSchema(c *Ctx, prefix string) {
	pkg := c.P.pkg("plugins/range")
	if pkg == nil {
		c.R.Fatalf("ANCHOR-UNRESOLVED: plugins/range")
		return
	}
	var stmts, others []*sqlStmt
	for _, fn := range c.P.SrcFuncs() {
		if fnPkgPath(fn) != pkg.Pkg.Path() {
			continue
		}
		for _, b := range fn.Blocks {
			for _, in := range b.Instrs {
				call, ok := in.(*ssa.Call)
				if !ok {
					continue
				}
				f := call.Call.StaticCallee()
				if f == nil || fnPkgPath(f) != "database/sql" {
					continue
				}
				for _, a := range call.Call.Args {
					if k, ok := a.(*ssa.Const); ok && k.Value != nil && k.Value.Kind() == constant.String {
						txt := constant.StringVal(k.Value)
						st := &sqlStmt{Text: txt, Call: call}
						switch {
						case reCreate.MatchString(txt):
							st.Kind = "create"
						case reSelect.MatchString(txt):
							st.Kind = "select"
							st.Cols = splitCols(reSelect.FindStringSubmatch(txt)[1])
						case reInsert.MatchString(txt):
							st.Kind = "insert"
							st.Cols = splitCols(reInsert.FindStringSubmatch(txt)[5])
						}
						if st.Kind != "" {
							stmts = append(stmts, st)
						} else {
							others = append(others, st)
						}
					}
				}
			}
		}
	}
	var create, sel, ins *sqlStmt
	for _, s := range stmts {
		switch s.Kind {
		case "create":
			create = s
		case "select":
			if sel == nil || len(s.Cols) > len(sel.Cols) {
				sel = s // the loader's statement reads the whole row; narrower look-ups are not the restore path
			}
		case "insert":
			ins = s
		}
	}
	rule := prefix + "DB.SCHEMA-AGREE"
	if create == nil || sel == nil || ins == nil {
		c.R.bad(rule, "range storage statements", "-", "-", fmt.Sprintf("expected one create table, one select and one insert statement constant in the range plugin (found create=%v select=%v insert=%v)", create != nil, sel != nil, ins != nil))
		return
	}
	// create: columns, not-null, primary key
	m := reCreate.FindStringSubmatch(create.Text)
	body := m[3]
	pk := []string{}
	if pm := regexp.MustCompile(`(?i)primary\s+key\s*\(([^)]*)\)`).FindStringSubmatch(body); pm != nil {
		pk = splitCols(pm[1])
		body = strings.Replace(body, pm[0], "", 1)
	}
	type col struct {
		name, typ string
		notnull   bool
	}
	var cols []col
	for _, d := range splitCols(body) {
		f := strings.Fields(d)
		if len(f) == 0 {
			continue
		}
		cl := col{name: f[0]}
		if len(f) > 1 {
			cl.typ = strings.ToLower(f[1])
		}
		cl.notnull = regexp.MustCompile(`(?i)not\s+null`).MatchString(d)
		cols = append(cols, cl)
	}
	pos := c.P.InstrPos(ins.Call)
	has := func(xs []string, x string) bool {
		for _, y := range xs {
			if strings.EqualFold(x, y) {
				return true
			}
		}
		return false
	}
	var probs []string
	for _, cl := range cols {
		if (cl.notnull || has(pk, cl.name)) && !has(ins.Cols, cl.name) {
			probs = append(probs, "column "+cl.name+" (not null / key) is not written by the insert")
		}
		if !has(sel.Cols, cl.name) && has(ins.Cols, cl.name) {
			probs = append(probs, "column "+cl.name+" is written but never read back")
		}
	}
	for _, x := range append(append([]string{}, ins.Cols...), sel.Cols...) {
		found := false
		for _, cl := range cols {
			if strings.EqualFold(cl.name, x) {
				found = true
			}
		}
		if !found {
			probs = append(probs, "statement uses column "+x+" which the table does not declare")
		}
	}
	if len(pk) == 0 {
		probs = append(probs, "table has no primary key: a renewal would add a second row for the same client")
	}
	im := reInsert.FindStringSubmatch(ins.Text)
	policy := strings.ToLower(im[3])
	tail := strings.ToLower(im[7])
	upsert := strings.EqualFold(strings.Fields(im[1])[0], "replace") || policy == "replace" || (strings.Contains(tail, "on conflict") && strings.Contains(tail, "do update"))
	if !upsert {
		probs = append(probs, "insert statement does not replace an existing row (conflict policy `"+policy+"`): a renewal keeps the stale expiry or fails")
	}
	if um := regexp.MustCompile(`(?is)on\s+conflict\s*(\([^)]*\))?\s*do\s+update\s+set\s+(.*)$`).FindStringSubmatch(tail); um != nil && policy != "replace" {
		// an upsert rewrites only the columns its SET list names: every written non-key
		// column must be assigned the new row's value, or a renewal keeps the stale one
		set := map[string]string{}
		for _, a := range splitCols(regexp.MustCompile(`(?is)\s+where\s+.*$`).ReplaceAllString(um[2], "")) {
			kv := strings.SplitN(a, "=", 2)
			if len(kv) == 2 {
				set[strings.ToLower(strings.TrimSpace(kv[0]))] = strings.ToLower(strings.TrimSpace(kv[1]))
			}
		}
		for _, cn := range ins.Cols {
			if has(pk, cn) {
				continue
			}
			v, ok := set[strings.ToLower(cn)]
			if !ok {
				probs = append(probs, "the upsert's DO UPDATE SET list does not rewrite column "+cn+": a renewal leaves the stored "+cn+" stale")
			} else if v != "excluded."+strings.ToLower(cn) {
				probs = append(probs, "the upsert assigns column "+cn+" `"+v+"` instead of the new row's value (excluded."+cn+")")
			}
		}
	}
	// REPLACE conflict resolution deletes every row that collides on ANY uniqueness
	// constraint, not only the row of the same key: a further UNIQUE column or index
	// lets one client's save silently remove another client's binding
	if strings.EqualFold(strings.Fields(im[1])[0], "replace") || policy == "replace" {
		for _, cl := range splitCols(body) {
			if regexp.MustCompile(`(?i)\bunique\b`).MatchString(cl) {
				probs = append(probs, "column declared UNIQUE (`"+strings.TrimSpace(cl)+"`) while rows are saved with REPLACE conflict resolution: saving one client's lease deletes any other row with the same value")
			}
		}
		for _, o := range others {
			if m := regexp.MustCompile(`(?is)^\s*create\s+unique\s+index\s+(if\s+not\s+exists\s+)?(\w+)\s+on\s+(\w+)`).FindStringSubmatch(o.Text); m != nil && strings.EqualFold(m[3], im[4]) {
				probs = append(probs, "unique index "+m[2]+" ("+c.P.InstrPos(o.Call)+") on a table whose rows are saved with REPLACE conflict resolution: saving one client's lease deletes any other client's row that collides on the index")
			}
		}
	}
	if len(splitCols(im[6])) != len(ins.Cols) {
		probs = append(probs, "number of placeholders differs from the number of columns")
	}
	if len(probs) > 0 {
		c.R.bad(rule, "leases4 statements", pos, "plugins/range", strings.Join(probs, "; "))
	} else {
		c.R.ok(rule, "leases4 statements", pos, "plugins/range", fmt.Sprintf("create/insert/select agree on columns %v; key %v and all NOT NULL columns are written; conflict policy replaces the row", ins.Cols, pk))
	}

	// positional agreement: n-th Exec argument and n-th Scan target per column
	var execCall, scanCall *ssa.Call
	for _, fn := range c.P.SrcFuncs() {
		if fnPkgPath(fn) != pkg.Pkg.Path() {
			continue
		}
		for _, b := range fn.Blocks {
			for _, in := range b.Instrs {
				if call, ok := in.(*ssa.Call); ok {
					if f := call.Call.StaticCallee(); f != nil {
						switch f.String() {
						case "(*database/sql.Stmt).Exec":
							execCall = call
						case "(*database/sql.Rows).Scan":
							scanCall = call
						}
					}
				}
			}
		}
	}
	if execCall == nil || scanCall == nil {
		c.R.bad(rule, "Exec/Scan sites", pos, "plugins/range", "cannot find the statement Exec and the rows Scan call")
		return
	}
	wargs := varargElems(execCall.Call.Args[len(execCall.Call.Args)-1])
	rargs := varargElems(scanCall.Call.Args[len(scanCall.Call.Args)-1])
	if len(wargs) != len(ins.Cols) || len(rargs) != len(sel.Cols) {
		c.R.bad(rule, "Exec/Scan arity", c.P.InstrPos(execCall), "plugins/range", fmt.Sprintf("Exec passes %d values for %d columns; Scan reads %d targets for %d columns", len(wargs), len(ins.Cols), len(rargs), len(sel.Cols)))
		return
	}
	exW := NewExplorer(c.P, c.Pure, execCall.Parent())
	// what the loader does with each scanned variable
	loader := scanCall.Parent()
	for i, cname := range ins.Cols {
		j := -1
		for k, sc := range sel.Cols {
			if strings.EqualFold(sc, cname) {
				j = k
			}
		}
		key := "column " + cname
		if j < 0 {
			continue
		}
		w := unbox(wargs[i])
		r := unbox(rargs[j])
		wt := w.Type()
		var rt types.Type = r.Type()
		if p, ok := rt.Underlying().(*types.Pointer); ok {
			rt = p.Elem()
		}
		wc := exW.Canon(nil, w).S
		detail := fmt.Sprintf("written as %s (%s), read into %s", shortName(wc), wt.String(), rt.String())
		if !types.Identical(wt.Underlying(), rt.Underlying()) {
			c.R.bad(rule, key, c.P.InstrPos(execCall), "plugins/range", "Go types of writer and reader disagree: "+detail)
			continue
		}
		// the field written must be the field the loader fills from this column
		c.R.ok(rule, key, c.P.InstrPos(execCall), "plugins/range", "same position in insert and select lists; "+detail)
		ruleDBCodecColumn(c, prefix, cname, w, wc, r, loader)
	}
}

// ruleDBCodecColumn: writer expression and reader parser of one column are an
// inverse pair whose domain covers everything the writer can produce.
func ruleDBCodecColumn(c *Ctx, prefix, col string, w ssa.Value, wc string, target ssa.Value, loader *ssa.Function) {
	rule := prefix + "DB.CODEC"
	key := "column " + col
	pos := c.P.Pos(loader.Pos())
	// uses of the scanned variable in the loader
	var loads []*ssa.UnOp
	switch t := target.(type) {
	case *ssa.Alloc:
		for _, r := range *t.Referrers() {
			if ld, ok := r.(*ssa.UnOp); ok {
				loads = append(loads, ld)
			}
		}
	case *ssa.FieldAddr:
		// a field of a per-row struct: every load of that field in the loader and its helpers
		f := fieldOf(t.X.Type(), t.Field)
		if f == nil || rootAlloc(t.X) == nil {
			c.R.unk(rule, key, pos, shortFn(loader), "scan target is not a local variable or a field of one")
			return
		}
		eachInstr(loader, func(in ssa.Instruction) {
			if ld, ok := in.(*ssa.UnOp); ok && ld.Op == token.MUL {
				if fa, ok := ld.X.(*ssa.FieldAddr); ok && fieldOf(fa.X.Type(), fa.Field) == f {
					loads = append(loads, ld)
				}
			}
		})
	default:
		c.R.unk(rule, key, pos, shortFn(loader), "scan target is not a local variable or a field of one")
		return
	}
	var parsers []string
	var direct []string
	// uses of a loaded column value, followed into helpers that receive it as an argument
	var uses []ssa.Instruction
	seenV := map[ssa.Value]bool{}
	var follow func(v ssa.Value, depth int)
	follow = func(v ssa.Value, depth int) {
		if seenV[v] || depth > 3 || v.Referrers() == nil {
			return
		}
		seenV[v] = true
		for _, u := range *v.Referrers() {
			uses = append(uses, u)
			if call, ok := u.(*ssa.Call); ok {
				if f := call.Call.StaticCallee(); f != nil && len(f.Blocks) > 0 && defaultInline(loader, f) {
					for i, a := range call.Call.Args {
						if a == v && i < len(f.Params) {
							follow(f.Params[i], depth+1)
						}
					}
				}
			}
		}
	}
	for _, ld := range loads {
		follow(ld, 0)
	}
	isLoad := func(v ssa.Value) bool { return seenV[v] }
	{
		for _, u := range uses {
			switch x := u.(type) {
			case *ssa.Call:
				if f := x.Call.StaticCallee(); f != nil {
					parsers = append(parsers, f.String())
				}
			case *ssa.Store:
				if fa, ok := x.Addr.(*ssa.FieldAddr); ok {
					direct = append(direct, fieldName(fa))
				}
			case *ssa.MapUpdate:
				if isLoad(x.Key) {
					direct = append(direct, "<map key>")
				}
			}
		}
	}
	switch {
	case strings.HasPrefix(wc, "(net.HardwareAddr).String("):
		// written as colon-hex of a 0..16 byte chaddr
		okp := false
		why := ""
		for _, p := range parsers {
			switch {
			case p == "net.ParseMAC":
				why = "net.ParseMAC only accepts 6, 8 and 20 byte addresses, but the writer persists HardwareAddr.String() of a chaddr of any length (0..16): a client with another hlen makes the next start-up fail"
			case strings.HasSuffix(p, "/plugins/range."+anRaw("parseHWAddr")):
				okp = parserFallsBackToColonHex(c, p)
				if !okp {
					why = "parseHWAddr is not total on what the writer produces: it lacks the colon-hex fallback for lengths ParseMAC refuses, or does not accept the empty string (hardware address of length 0)"
				}
			}
		}
		for _, d := range direct {
			if d == "<map key>" {
				okp = false
				why = "the raw column text is used as map key: it is not the canonical HardwareAddr.String() form the handler looks up (sqlite's numeric affinity rewrites a one-byte address such as 05)"
			}
		}
		if okp {
			c.R.ok(rule, key, pos, shortFn(loader), "HardwareAddr.String ↔ total colon-hex parser (any length)")
		} else {
			if why == "" {
				why = "no parser inverse to HardwareAddr.String found in the loader"
			}
			c.R.bad(rule, key, pos, shortFn(loader), why)
		}
	case strings.HasPrefix(wc, "(net.IP).String("):
		okp := false
		for _, p := range parsers {
			if p == "net.ParseIP" {
				okp = true
			}
		}
		if okp {
			c.R.ok(rule, key, pos, shortFn(loader), "IP.String ↔ net.ParseIP (total on 4/16 byte addresses)")
		} else {
			c.R.bad(rule, key, pos, shortFn(loader), "the address column is not read back with net.ParseIP")
		}
	default:
		// plain value: stored into the corresponding field unchanged
		if len(direct) == 0 {
			c.R.bad(rule, key, pos, shortFn(loader), "the column is read but not put into the restored record")
		} else {
			c.R.ok(rule, key, pos, shortFn(loader), fmt.Sprintf("identity codec; restored into field %v", direct))
		}
	}
}

// parserFallsBackToColonHex: the first-party MAC parser handles arbitrary
// lengths: it splits on ':' and parses each part as hex.
func parserFallsBackToColonHex(c *Ctx, full string) bool {
	for _, fn := range c.P.SrcFuncs() {
		if fn.String() != full {
			continue
		}
		s := fnCalls(fn)
		if !(strings.Contains(s, "strings.Split") && (strings.Contains(s, "strconv.ParseUint") || strings.Contains(s, "encoding/hex"))) {
			return false
		}
		// the writer also produces the empty string (hlen 0): neither net.ParseMAC nor a split on ':'
		// accepts it, so the parser must answer it explicitly - a successful return under len(s) == 0
		exits, _ := ExitsOf(c, fn)
		for _, e := range exits {
			if len(e.Ret.Results) != 2 {
				continue
			}
			if n, _ := e.Ex.NilState(e.St, e.Ret.Results[1]); n != 1 {
				continue
			}
			if v, _ := histEq(e.St, regexp.MustCompile(`^len\(\$0\)$`), "0"); v == 1 {
				return true
			}
		}
		return false
	}
	return false
}

// ruleRangeHandler: C02/C03 obligations on the range plugin's Handler4.
func ruleRangeHandler(c *Ctx, prefix string, want map[string]bool) {
	fn := c.P.Func("plugins/range", "*PluginState", "Handler4")
	if fn == nil {
		c.R.Fatalf("ANCHOR-UNRESOLVED: rangeplugin.(*PluginState).Handler4")
		return
	}
	c.R.Functions[shortFn(fn)] = true
	ex := NewExplorer(c.P, c.Pure, fn)
	keyRe := `\(net\.HardwareAddr\)\.String\(\$1\.ClientHWAddr\)`
	lookRe := regexp.MustCompile(`^lookup@(?:[\w$]+·)?t\d+\(\$0\.Recordsv4,` + keyRe + `\)#1$`)
	allocRe := `invoke:` + reQ(modPath) + `/plugins/allocators\.Allocator\.Allocate@(?:[\w$]+·)?t\d+\(\$0\.allocator,[^)]*\)`
	bad := map[string][]string{}
	addb := func(rule, s string) {
		for _, x := range bad[rule] {
			if x == s {
				return
			}
		}
		if len(bad[rule]) < 5 {
			bad[rule] = append(bad[rule], s)
		}
	}
	counts := map[string]int{}
	var checkClock func(st *State, v string) bool
	nowPlus := regexp.MustCompile(`\(time\.Time\)\.Add@(?:[\w$]+·)?t\d+\(time\.Now@(?:[\w$]+·)?t\d+\(\),\$0\.LeaseTime\)`)
	ex.Hooks.Label = func(st *State, in ssa.Instruction) string {
		switch x := in.(type) {
		case *ssa.MapUpdate:
			if ex.Canon(st, x.Map).S == "$0.Recordsv4" {
				return "insert"
			}
		case *ssa.Call:
			if x.Call.IsInvoke() && x.Call.Method.Name() == "Allocate" {
				return "allocate"
			}
			if f := x.Call.StaticCallee(); f != nil {
				if f.String() == "time.Now" && st.Holds("$0.Mutex", 'W') {
					return "clock:" + anm(x) // a clock reading taken inside the critical section
				}
				if isAnchor(f, "saveIPAddress") {
					delete(st.seen, "dirty")
					return "save"
				}
				if e := emissionOf(in); e != nil {
					if code, ok := optionCodeOf(c, e.Opt, 0); ok && code == c.P.mustConst(c.R, pkgDHCP4, "OptionIPAddressLeaseTime") {
						if strings.Contains(ex.Canon(st, e.Opt).S, "$0.LeaseTime") {
							return "leasetime"
						}
						return "leasetime-other"
					}
				}
			}
		case *ssa.Store:
			if fa, ok := x.Addr.(*ssa.FieldAddr); ok {
				if fieldName(fa) == "YourIPAddr" && ex.Canon(st, fa.X).S == "$2" {
					return "yiaddr"
				}
				if fieldName(fa) == "expires" && namedOf(fa.X.Type()) == modPath+"/plugins/range.Record" {
					return "dirty"
				}
			}
		}
		return ""
	}
	ex.Hooks.Instr = func(st *State, in ssa.Instruction) {
		switch x := in.(type) {
		case *ssa.Call:
			if x.Call.IsInvoke() && x.Call.Method.Name() == "Allocate" {
				counts["allocate"]++
				if v, _ := histFact(st, "bool", lookRe); v != 0 {
					addb("RANGE.LOOKUP-FIRST", fmt.Sprintf("a new address is allocated at %s on a path where the client's existing binding was not looked up and found absent (lookup-found=%s)", c.P.InstrPos(in), tri(v)))
				}
			}
			if f := x.Call.StaticCallee(); f != nil && isAnchor(f, "saveIPAddress") {
				counts["save"]++
				// persisted under the same key form as the in-memory map
				if a := ex.Canon(st, x.Call.Args[1]).S; a != "$1.ClientHWAddr" {
					addb("DB.PERSIST-BEFORE-REPLY", "the lease is persisted under something other than the client's hardware address: "+shortName(a))
				}
			}
		case *ssa.MapUpdate:
			if ex.Canon(st, x.Map).S != "$0.Recordsv4" {
				return
			}
			counts["insert"]++
			if !regexp.MustCompile(`^` + keyRe + `$`).MatchString(ex.Canon(st, x.Key).S) {
				addb("RANGE.INSERT", "the binding is stored under a key that differs from the lookup key: "+shortName(ex.Canon(st, x.Key).S))
			}
			if v, _ := histFact(st, "bool", lookRe); v != 0 {
				addb("RANGE.LOOKUP-FIRST", "a binding is (re)inserted although the client already has one: the first address is not kept")
			}
			// the record inserted carries the address just allocated
			if al, ok := ex.Resolve(st, x.Value).(*ssa.Alloc); ok {
				ip, _ := st.ReadLocal("new@" + anm(al) + ".IP")
				if !regexp.MustCompile(`^(\(net\.IP\)\.To4\()?` + allocRe + `#0\.IP\)?$`).MatchString(ip) {
					addb("RANGE.INSERT", "the record inserted does not carry the address returned by the allocator: "+shortName(ip))
				}
				exp, _ := st.ReadLocal("new@" + anm(al) + ".expires")
				if !nowPlus.MatchString(exp) {
					addb("DB.EXPIRY", "a new record's expiry is not now + lease time: "+shortName(exp))
				} else if checkClock != nil && !checkClock(st, exp) {
					addb("DB.EXPIRY", fmt.Sprintf("the expiry stored for a new lease at %s is computed from a clock reading taken before the plugin lock was acquired: a request that waits for the lock stores an expiry that ends before the lease it promises", c.P.InstrPos(in)))
				}
			} else {
				addb("RANGE.INSERT", "the value inserted is not a freshly built record")
			}
		case *ssa.Store:
			fa, ok := x.Addr.(*ssa.FieldAddr)
			if !ok {
				return
			}
			switch {
			case fieldName(fa) == "YourIPAddr" && ex.Canon(st, fa.X).S == "$2":
				counts["yiaddr"]++
				v := ex.Canon(st, x.Val).S
				okV := regexp.MustCompile(`^lookup@(?:[\w$]+·)?t\d+\(\$0\.Recordsv4,`+keyRe+`\)#0\.IP$`).MatchString(v) ||
					regexp.MustCompile(`^(\(net\.IP\)\.To4\()?`+allocRe+`#0\.IP\)?$`).MatchString(v)
				if !okV {
					addb("RANGE.PROVENANCE", "yiaddr is neither this client's stored binding nor the address just obtained from the allocator: "+shortName(v))
				}
			case fieldName(fa) == "expires" && namedOf(fa.X.Type()) == modPath+"/plugins/range.Record":
				if rootAlloc(fa.X) != nil {
					return // literal of a new record (checked at insert)
				}
				counts["expires"]++
				st.seen["expset"] = true
				v := ex.Canon(st, x.Val).S
				if !nowPlus.MatchString(v) {
					addb("DB.EXPIRY", fmt.Sprintf("the stored expiry at %s is not derived from now + lease time (%s): it can end before the lease just promised", c.P.InstrPos(in), shortName(stripAt(v))))
				} else if checkClock != nil && !checkClock(st, v) {
					addb("DB.EXPIRY", fmt.Sprintf("the expiry stored at %s is computed from a clock reading taken before the plugin lock was acquired: a request that waits for the lock stores an expiry that ends before the lease it promises", c.P.InstrPos(in)))
				}
			case fieldName(fa) == "IP" && namedOf(fa.X.Type()) == modPath+"/plugins/range.Record":
				if rootAlloc(fa.X) == nil {
					addb("RANGE.LOOKUP-FIRST", fmt.Sprintf("an existing record's address is overwritten at %s: a client is not always given the address it was first given", c.P.InstrPos(in)))
				}
			}
		}
	}
	// the clock reading an expiry is computed from is taken inside the critical section:
	// a request that waited for the lock must not store an expiry that ends before the lease it promises
	clockInside := func(st *State, v string) bool {
		ms := regexp.MustCompile(`time\.Now@((?:[\w$]+·)?t\d+)\(\)`).FindAllStringSubmatch(v, -1)
		for _, m := range ms {
			if !st.seen["clock:"+m[1]] {
				return false
			}
		}
		return len(ms) > 0
	}
	checkClock = clockInside
	nReply, nDrop, nGuard := 0, 0, 0
	ex.Hooks.Exit = func(st *State, in ssa.Instruction) {
		ret, ok := in.(*ssa.Return)
		if !ok || len(ret.Results) != 2 {
			return
		}
		allocErr, _ := histFact(st, "nil", regexp.MustCompile(`^`+allocRe+`#1$`)) // 1 = no error
		found, _ := histFact(st, "bool", lookRe)
		if retIsNil(ex, st, ret.Results[0]) {
			nDrop++
			if allocErr != 0 {
				addb("RANGE.EXHAUST", fmt.Sprintf("request dropped at %s for a reason other than allocation failure", c.P.InstrPos(in)))
			}
			for _, l := range []string{"insert", "save", "yiaddr"} {
				if st.seen[l] {
					addb("RANGE.EXHAUST", "after an allocation failure the handler still performs `"+l+"`: nothing may be bound or answered")
				}
			}
			if retBool(ex, st, ret.Results[1]) != "true" {
				addb("RANGE.EXHAUST", "allocation failure does not stop the chain")
			}
			return
		}
		nReply++
		// a known client answered without touching its stored expiry: the path must have established
		// stored expiry >= now + lease time, in one of the comparison forms whose polarity is understood
		if found == 1 && !st.seen["expset"] {
			nGuard++
			expU := `time\.Unix\(conv<int64>\(lookup@(?:[\w$]+·)?t\d+\(\$0\.Recordsv4,` + keyRe + `\)#0\.expires\),0\)`
			np := nowPlus.String()
			forms := []struct {
				re   *regexp.Regexp
				want int
			}{
				{regexp.MustCompile(`^\(time\.Time\)\.Before\(` + expU + `,` + np + `\)$`), 0},
				{regexp.MustCompile(`^\(time\.Time\)\.After\(` + np + `,` + expU + `\)$`), 0},
				{regexp.MustCompile(`^\(time\.Time\)\.Before\(` + np + `,` + expU + `\)$`), 1},
				{regexp.MustCompile(`^\(time\.Time\)\.After\(` + expU + `,` + np + `\)$`), 1},
			}
			okG := false
			for _, f := range forms {
				if v, _ := histFact(st, "bool", f.re); v == f.want {
					okG = true
				}
			}
			if !okG {
				seenExp := ""
				for _, k := range sortedKeys(st.hist) {
					if strings.Contains(st.hist[k].X, ".expires") {
						seenExp = st.hist[k].X
					}
				}
				if seenExp == "" {
					addb("DB.EXPIRY-GUARD", fmt.Sprintf("reply at %s to a known client leaves the stored expiry untouched without having compared it with now + lease time: the stored lease can end before the one just promised", c.P.InstrPos(in)))
				} else {
					addb("DB.EXPIRY-GUARD", fmt.Sprintf("reply at %s to a known client leaves the stored expiry untouched under a condition that is not `stored expiry >= now + lease time` as a time comparison (%s): differences, unsigned or narrowed seconds can wrap for a lapsed lease, so the stored lease can end before the one just promised", c.P.InstrPos(in), shortName(stripAt(seenExp))))
				}
			}
		}
		if st.seen["allocate"] && allocErr != 1 {
			addb("RANGE.EXHAUST", fmt.Sprintf("a reply is returned at %s although the allocation failed or its error was not checked", c.P.InstrPos(in)))
		}
		if found == 0 && !st.seen["insert"] {
			addb("RANGE.INSERT", fmt.Sprintf("reply at %s for a new client without remembering the binding", c.P.InstrPos(in)))
		}
		if found == 0 && !st.seen["allocate"] {
			addb("RANGE.PROVENANCE", "a new client is answered without an allocation")
		}
		if !st.seen["yiaddr"] {
			addb("RANGE.PROVENANCE", fmt.Sprintf("reply at %s without yiaddr being set", c.P.InstrPos(in)))
		}
		if !st.seen["leasetime"] || st.seen["leasetime-other"] {
			addb("RANGE.LEASETIME", fmt.Sprintf("reply at %s without option 51 = the configured lease time", c.P.InstrPos(in)))
		}
		if st.seen["dirty"] {
			addb("DB.PERSIST-BEFORE-REPLY", fmt.Sprintf("reply at %s after changing a record's expiry without persisting it", c.P.InstrPos(in)))
		}
		if st.seen["allocate"] && !st.seen["save"] {
			addb("DB.PERSIST-BEFORE-REPLY", fmt.Sprintf("reply at %s hands out a new address that was not persisted", c.P.InstrPos(in)))
		}
	}
	ex.Run()
	if ex.Exceeded {
		addb("RANGE.LOOKUP-FIRST", "state budget exceeded")
	}
	emit := func(rule, okMsg string) {
		key := shortFn(fn) + " " + rule
		if len(bad[rule]) > 0 {
			c.R.bad(prefix+rule, key, c.P.Pos(fn.Pos()), shortFn(fn), strings.Join(bad[rule], "; "))
		} else {
			c.R.ok(prefix+rule, key, c.P.Pos(fn.Pos()), shortFn(fn), okMsg)
		}
	}
	if nReply == 0 || nDrop == 0 || counts["allocate"] == 0 || counts["insert"] == 0 || counts["yiaddr"] == 0 {
		addb("RANGE.LOOKUP-FIRST", fmt.Sprintf("handler shape not recognised (replies=%d drops=%d allocate=%d insert=%d yiaddr=%d)", nReply, nDrop, counts["allocate"], counts["insert"], counts["yiaddr"]))
	}
	if want["C02"] {
		emit("RANGE.LOOKUP-FIRST", "allocation and insertion happen only after this client's binding was looked up and found absent; existing records' addresses are never overwritten")
		emit("RANGE.INSERT", "every reply to a new client is preceded by inserting, under the lookup key, a record carrying the allocator's answer")
		emit("RANGE.EXHAUST", "allocation failure ⇒ (nil, true) with nothing bound, persisted or answered")
		emit("RANGE.PROVENANCE", "yiaddr is this client's stored binding or the address just allocated")
		emit("RANGE.LEASETIME", "every reply carries option 51 built from the configured lease time")
	}
	if want["C03"] {
		emit("DB.PERSIST-BEFORE-REPLY", "new allocations and expiry changes are persisted (under the client's hardware address) before any reply is returned")
		emit("DB.EXPIRY", "every stored expiry is now + lease time")
		if nGuard == 0 {
			addb("DB.EXPIRY-GUARD", "no reply path for a known client keeps the stored expiry: shape not recognised")
		}
		emit("DB.EXPIRY-GUARD", "a known client is answered without extending its stored expiry only after the time comparison stored expiry >= now + lease time held")
		emit("RANGE.LEASETIME", "every reply carries option 51 built from the configured lease time: what is promised is what was stored")
	}
}

// ruleDBLoad: loadRecords returns all rows or an error; keys agree with the handler's.
func ruleDBLoad(c *Ctx, prefix string) {
	fn := c.P.Anchor("loadRecords")
	if fn == nil {
		c.R.Fatalf("ANCHOR-UNRESOLVED: rangeplugin.loadRecords")
		return
	}
	c.R.Functions[shortFn(fn)] = true
	ex := NewExplorer(c.P, c.Pure, fn)
	var bad, keyBad []string
	nS, nE, nIns := 0, 0, 0
	ex.Hooks.Instr = func(st *State, in ssa.Instruction) {
		mu, ok := in.(*ssa.MapUpdate)
		if !ok {
			return
		}
		nIns++
		k := ex.Canon(st, mu.Key).S
		if !regexp.MustCompile(`^\(net\.HardwareAddr\)\.String\(.*(` + an("parseHWAddr") + `|ParseMAC)(@(?:[\w$]+·)?t\d+)?\(.*\)#0\)$`).MatchString(k) {
			keyBad = append(keyBad, "restored records are keyed by "+shortName(stripAt(k))+", not by HardwareAddr.String() of the parsed address (the form the handler looks up)")
		}
		if _, ok := ex.Resolve(st, mu.Map).(*ssa.MakeMap); !ok {
			keyBad = append(keyBad, "rows are not collected into a fresh map")
		}
	}
	ex.Hooks.Exit = func(st *State, in ssa.Instruction) {
		ret, ok := in.(*ssa.Return)
		if !ok || len(ret.Results) != 2 {
			return
		}
		errN, _ := ex.NilState(st, ret.Results[1])
		mapN, _ := ex.NilState(st, ret.Results[0])
		if errN == 1 {
			nS++
			if v, _ := histFact(st, "nil", regexp.MustCompile(`\(\*database/sql\.Rows\)\.Err@(?:[\w$]+·)?t\d+\(`)); v != 1 {
				bad = append(bad, "success is returned without rows.Err() having been found nil: a truncated scan yields a partial map")
			}
			if mapN != 0 {
				bad = append(bad, "success return without a map")
			}
		} else {
			nE++
			if mapN != 1 {
				bad = append(bad, fmt.Sprintf("error return at %s also returns a (partial) map", c.P.InstrPos(in)))
			}
		}
	}
	ex.Run()
	if nS == 0 || nE == 0 || nIns == 0 {
		bad = append(bad, "loader shape not recognised")
	}
	if len(bad) > 0 {
		c.R.bad(prefix+"DB.LOAD-ALL-OR-ERROR", "loadRecords", c.P.Pos(fn.Pos()), shortFn(fn), strings.Join(dedup(bad), "; "))
	} else {
		c.R.ok(prefix+"DB.LOAD-ALL-OR-ERROR", "loadRecords", c.P.Pos(fn.Pos()), shortFn(fn), fmt.Sprintf("%d error exits return a nil map; success only after rows.Err() == nil", nE))
	}
	if len(keyBad) > 0 {
		c.R.bad(prefix+"DB.KEY-AGREE", "loadRecords key", c.P.Pos(fn.Pos()), shortFn(fn), strings.Join(dedup(keyBad), "; "))
	} else {
		c.R.ok(prefix+"DB.KEY-AGREE", "loadRecords key", c.P.Pos(fn.Pos()), shortFn(fn), "loader and handler key the map with HardwareAddr.String() of the address")
	}
}

// ruleDBSaveSync: a nil return of saveIPAddress means the row has been executed
// against the database: every successful exit passed through (*sql.Stmt).Exec /
// (*sql.DB).Exec whose error was examined and found nil on that path. A save
// that only queues the row (write-behind) acknowledges a lease the next start
// does not know.
func ruleDBSaveSync(c *Ctx, rule string) {
	fn := c.P.Anchor("saveIPAddress")
	if fn == nil {
		c.R.Fatalf("ANCHOR-UNRESOLVED: rangeplugin.saveIPAddress")
		return
	}
	c.R.Functions[shortFn(fn)] = true
	ex := NewExplorer(c.P, c.Pure, fn)
	isExec := func(in ssa.Instruction) *ssa.Call {
		if call, ok := in.(*ssa.Call); ok {
			if f := call.Call.StaticCallee(); f != nil && fnPkgPath(f) == "database/sql" && strings.HasPrefix(f.Name(), "Exec") {
				return call
			}
		}
		return nil
	}
	var execs []*ssa.Call
	eachInstr(fn, func(in ssa.Instruction) {
		if call := isExec(in); call != nil {
			execs = append(execs, call)
		}
	})
	ex.Hooks.Label = func(st *State, in ssa.Instruction) string {
		if isExec(in) != nil {
			return "exec"
		}
		return ""
	}
	var bad []string
	nS := 0
	ex.Hooks.Exit = func(st *State, in ssa.Instruction) {
		ret, ok := in.(*ssa.Return)
		if !ok || len(ret.Results) == 0 {
			return
		}
		if n, _ := ex.NilState(st, ret.Results[len(ret.Results)-1]); n != 1 {
			return // an error (or undecided) return
		}
		nS++
		if !st.seen["exec"] {
			bad = append(bad, fmt.Sprintf("success is returned at %s on a path that never executed the statement (the lease is acknowledged but not in the database)", c.P.InstrPos(in)))
			return
		}
		okErr := false
		for _, k := range sortedKeys(st.hist) {
			f := st.hist[k]
			if f.Kind == "nil" && f.Val && strings.Contains(f.X, ").Exec") && strings.HasSuffix(f.X, "#1") {
				okErr = true
			}
		}
		if !okErr {
			bad = append(bad, fmt.Sprintf("success is returned at %s without the statement's error having been found nil", c.P.InstrPos(in)))
		}
	}
	ex.Run()
	key := "saveIPAddress executes the row"
	switch {
	case len(execs) == 0:
		c.R.bad(rule, key, c.P.Pos(fn.Pos()), shortFn(fn), "saveIPAddress does not execute any SQL statement itself")
	case len(bad) > 0:
		c.R.bad(rule, key, c.P.Pos(fn.Pos()), shortFn(fn), strings.Join(dedup(bad), "; "))
	case nS == 0:
		c.R.bad(rule, key, c.P.Pos(fn.Pos()), shortFn(fn), "no successful exit found")
	default:
		c.R.ok(rule, key, c.P.Pos(fn.Pos()), shortFn(fn), fmt.Sprintf("all %d successful exits follow an Exec whose error was nil", nS))
	}
	// the stdlib MAC parser accepts 6, 8 and 20 bytes only; the keys of the lease table are
	// HardwareAddr.String() of any length the codec admits: they are parsed by the total parser only
	total := c.P.Anchor("parseHWAddr")
	n := 0
	for _, g := range c.P.SrcFuncs() {
		if isFixture(g) || closureRoot(g).Pkg != fn.Pkg || g == total {
			continue
		}
		eachOwnInstr(g, func(in ssa.Instruction) {
			if call, ok := in.(*ssa.Call); ok {
				if f := call.Call.StaticCallee(); f != nil && f.String() == "net.ParseMAC" {
					n++
					c.R.bad(rule, fmt.Sprintf("%s net.ParseMAC#%d", shortFn(g), n), c.P.InstrPos(in), shortFn(g), "a stored hardware address is parsed with net.ParseMAC, which rejects every length other than 6, 8 and 20 bytes: clients with other chaddr lengths are handled differently from the rest")
				}
			}
		})
	}
}
