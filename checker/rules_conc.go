package main

import (
	"fmt"
	"go/token"
	"go/types"
	"os"
	"sort"
	"strings"

	"golang.org/x/tools/go/ssa"
)

// guardEntry: one row of the frozen GUARDED-BY table.
type guardEntry struct {
	Name   string     // display name
	Field  *types.Var // guarded struct field (nil for globals)
	Global *ssa.Global
	Elem   bool   // Field belongs to an element type reached through the owner's guarded container
	Mutex  string // canonical key of the guarding mutex, "$0.Mutex" style (relative to the owner receiver) or a global's name
	RW     bool   // guarding mutex is a RWMutex (reads may hold R)
	Why    string
	Owner  string // owner type (receiver) full name, for fields
}

func buildGuardTable(c *Ctx) []*guardEntry {
	var out []*guardEntry
	field := func(pkg, typ, name string) *types.Var {
		n := c.P.NamedType(pkg, typ)
		if n == nil {
			c.R.Fatalf("ANCHOR-UNRESOLVED: type %s.%s", pkg, typ)
			return nil
		}
		st, ok := n.Underlying().(*types.Struct)
		if !ok {
			return nil
		}
		for i := 0; i < st.NumFields(); i++ {
			if st.Field(i).Name() == name {
				return st.Field(i)
			}
		}
		c.R.Fatalf("ANCHOR-UNRESOLVED: field %s.%s.%s", pkg, typ, name)
		return nil
	}
	rp := modPath + "/plugins/range"
	pp := modPath + "/plugins/prefix"
	out = append(out, &guardEntry{Name: "range.PluginState.Recordsv4", Field: field("plugins/range", "PluginState", "Recordsv4"), Mutex: "$0.Mutex", Owner: rp + ".PluginState", Why: "MAC→lease map shared by all DHCPv4 handler goroutines"})
	for _, f := range []string{"IP", "expires", "hostname"} {
		out = append(out, &guardEntry{Name: "range.Record." + f, Field: field("plugins/range", "Record", f), Elem: true, Mutex: "$0.Mutex", Owner: rp + ".PluginState", Why: "records are shared through Recordsv4"})
	}
	out = append(out, &guardEntry{Name: "prefix.Handler.Records", Field: field("plugins/prefix", "Handler", "Records"), Mutex: "$0.Mutex", Owner: pp + ".Handler", Why: "client→leases map shared by all DHCPv6 handler goroutines"})
	for _, f := range []string{"Prefix", "Expire"} {
		out = append(out, &guardEntry{Name: "prefix.lease." + f, Field: field("plugins/prefix", "lease", f), Elem: true, Mutex: "$0.Mutex", Owner: pp + ".Handler", Why: "lease slices are shared through Records"})
	}
	g := c.P.Global("plugins/file", "StaticRecords")
	if g == nil {
		c.R.Fatalf("ANCHOR-UNRESOLVED: file.StaticRecords")
	} else {
		out = append(out, &guardEntry{Name: "file.StaticRecords", Global: g, Mutex: modPath + "/plugins/file.recLock", RW: true, Why: "swapped by the refresh goroutine while handlers read it"})
	}
	return out
}

// goEntries returns the functions started by `go` statements in first-party code.
func goEntries(c *Ctx) []*ssa.Function {
	var out []*ssa.Function
	for _, fn := range c.P.SrcFuncs() {
		if isFixture(fn) {
			continue
		}
		for _, b := range fn.Blocks {
			for _, in := range b.Instrs {
				if g, ok := in.(*ssa.Go); ok {
					if f := g.Call.StaticCallee(); f != nil {
						out = appendUniqueFn(out, f)
					} else if mc, ok := g.Call.Value.(*ssa.MakeClosure); ok {
						if f, ok := mc.Fn.(*ssa.Function); ok {
							out = appendUniqueFn(out, f)
						}
					}
				}
			}
		}
	}
	return out
}

// entryLocks: mutexes held at *every* first-party call site of fn, translated
// into fn's parameter names (context for helpers like saveIPAddress).
func entryLocks(c *Ctx, fn *ssa.Function, scope map[*ssa.Function]bool) []heldLock {
	sites := c.P.CallersOf(fn)
	var common map[string]byte
	n := 0
	for _, s := range sites {
		caller := s.Parent()
		if !scope[caller] {
			continue
		}
		cc := s.Common()
		if cc.StaticCallee() != fn {
			continue
		}
		ex := NewExplorer(c.P, c.Pure, caller)
		ex.Hooks.Assume = func(st *State) {
			for _, h := range entryLocksMemo(c, caller, scope) {
				st.held = append(st.held, h)
			}
		}
		var here map[string]byte
		ex.Hooks.Instr = func(st *State, in ssa.Instruction) {
			if in != s.(ssa.Instruction) {
				return
			}
			m := map[string]byte{}
			for _, h := range st.held {
				for i, a := range cc.Args {
					ac := strings.TrimPrefix(ex.Canon(st, a).S, "&")
					if strings.HasPrefix(h.Key, ac+".") {
						m[fmt.Sprintf("$%d%s", i, h.Key[len(ac):])] = h.Mode
					}
				}
				if !strings.HasPrefix(h.Key, "$") && !strings.HasPrefix(h.Key, "new@") {
					m[h.Key] = h.Mode // global mutex
				}
			}
			if here == nil {
				here = m
			} else {
				for k := range here {
					if _, ok := m[k]; !ok {
						delete(here, k)
					}
				}
			}
		}
		ex.Run()
		if here == nil {
			here = map[string]byte{}
		}
		n++
		if common == nil {
			common = here
		} else {
			for k := range common {
				if _, ok := here[k]; !ok {
					delete(common, k)
				}
			}
		}
	}
	var out []heldLock
	for _, k := range sortedKeys(common) {
		out = append(out, heldLock{Key: k, Mode: common[k]})
	}
	return out
}

var entryLockCache = map[*ssa.Function][]heldLock{}
var entryLockBusy = map[*ssa.Function]bool{}

func entryLocksMemo(c *Ctx, fn *ssa.Function, scope map[*ssa.Function]bool) []heldLock {
	if v, ok := entryLockCache[fn]; ok {
		return v
	}
	if entryLockBusy[fn] {
		return nil
	}
	entryLockBusy[fn] = true
	v := entryLocks(c, fn, scope)
	entryLockBusy[fn] = false
	entryLockCache[fn] = v
	return v
}

func ruleGuardedBy(c *Ctx, prefix string, only ...string) {
	table := buildGuardTable(c)
	if len(only) > 0 {
		var t2 []*guardEntry
		for _, e := range table {
			for _, o := range only {
				if strings.HasPrefix(e.Name, o) {
					t2 = append(t2, e)
				}
			}
		}
		table = t2
	}
	ro := FindRoots(c.P, c.R)
	roots := append([]*ssa.Function{ro.Handle4, ro.Handle6}, ro.AllHandlers()...)
	roots = append(roots, goEntries(c)...)
	_, fns := ReachFirstParty(c.P, roots)
	scope := map[*ssa.Function]bool{}
	for _, f := range fns {
		scope[f] = true
	}
	// globals in the table are shared across plugin instances: their accesses are checked everywhere
	all := append([]*ssa.Function{}, fns...)
	for _, fn := range c.P.SrcFuncs() {
		if scope[fn] || isFixture(fn) {
			continue
		}
		for _, b := range fn.Blocks {
			for _, in := range b.Instrs {
				for _, e := range table {
					if e.Global != nil && touchesGlobal(in, e.Global) {
						all = appendUniqueFn(all, fn)
					}
				}
			}
		}
	}
	type res struct {
		n    int
		bad  string
		kind string
		e    *guardEntry
	}
	counts := map[string]int{}
	isRoot := map[*ssa.Function]bool{}
	for _, r := range roots {
		isRoot[r] = true
	}
	for _, fn := range all {
		// helpers that are explored inline from their callers are covered there, with the callers' locks
		if !isRoot[fn] && inlinedEverywhere(c, fn) {
			continue
		}
		c.R.Functions[shortFn(fn)] = true
		ex := NewExplorer(c.P, c.Pure, fn)
		if scope[fn] {
			pre := entryLocksMemo(c, fn, scope)
			if len(pre) > 0 {
				ex.Hooks.Assume = func(st *State) { st.held = append(st.held, pre...) }
			}
		}
		sites := map[ssa.Instruction]*res{}
		var rmwBad []string
		ex.Hooks.Instr = func(st *State, in ssa.Instruction) {
			if call, ok := in.(*ssa.Call); ok {
				// (a deferred unlock is not an instruction of the path: the next acquisition ends the section as well)
				if op, _ := mutexOp(&call.Call); op == "unlock" || op == "lock" {
					// values read from guarded state are stale once the section ends
					for l := range st.seen {
						if strings.HasPrefix(l, "gr:") {
							delete(st.seen, l)
						}
					}
				}
			}
			e, write, base := guardedAccess(ex, st, in, table)
			if e == nil {
				return
			}
			// fresh local objects are not shared yet
			if base != nil && rootAlloc(base) != nil {
				return
			}
			r := sites[in]
			if r == nil {
				r = &res{e: e, kind: "read"}
				if write {
					r.kind = "write"
				}
				sites[in] = r
			}
			r.n++
			mk := e.Mutex
			if v, isVal := in.(ssa.Value); isVal && !write {
				// remember in which critical section this value was read
				st.seen["gr:"+anm(v)] = true
			}
			if e.Field != nil {
				// the owner must be the receiver
				if fn.Signature.Recv() == nil && !isClosureOfOwner(fn, e.Owner) {
					r.bad = fmt.Sprintf("%s is accessed outside a method of its owner %s: the guarding mutex cannot be identified", e.Name, shortName(e.Owner))
					return
				}
			}
			mode := byte('W')
			if e.RW && !write {
				mode = 'R'
			}
			held := false
			for _, h := range st.held {
				if h.Key == mk && (h.Mode == 'W' || mode == 'R') {
					held = true
				}
			}
			if !held {
				need := "exclusively"
				if mode == 'R' {
					need = "(read or write)"
				}
				r.bad = fmt.Sprintf("%s of %s without %s held %s (abstract path %v)", r.kind, e.Name, shortName(mk), need, st.Trail())
				return
			}
			if write {
				// the value written must not derive from guarded state read in an earlier critical section
				var stored ssa.Value
				switch w := in.(type) {
				case *ssa.Store:
					stored = w.Val
				case *ssa.MapUpdate:
					stored = w.Value
				}
				// ... and neither may the key it is written (or deleted) under
				var operands []ssa.Value
				if stored != nil {
					operands = append(operands, stored)
				}
				switch w := in.(type) {
				case *ssa.MapUpdate:
					operands = append(operands, w.Key)
				case *ssa.Call:
					if len(w.Call.Args) > 1 {
						operands = append(operands, w.Call.Args[1])
					}
				}
				for _, operand := range operands {
					for _, o := range valueOrigins(operand) {
						if os.Getenv("CDLINT_DEBUG_RMW") != "" {
							fmt.Fprintf(os.Stderr, "RMW %s operand %s origin %s (%T) seen=%v\n", c.P.InstrPos(in), operand.Name(), o.String(), o, st.seen["gr:"+anm(o)])
						}
						ov, ok := o.(ssa.Instruction)
						if !ok {
							continue
						}
						if e2, w2, _ := guardedAccess(ex, st, ov, table); e2 == nil || w2 {
							continue
						}
						cur := st.seen["gr:"+anm(o)]
						if !cur {
							rmwBad = append(rmwBad, fmt.Sprintf("%s at %s is written with a value derived from guarded state read at %s in an earlier critical section (read-modify-write split across an unlock: concurrent updates are lost)", e.Name, c.P.InstrPos(in), c.P.InstrPos(ov)))
						}
					}
				}
				// no check-then-act across critical sections: every decision about guarded state on this
				// path was taken inside the current section
				for _, k := range sortedKeys(st.hist) {
					f := st.hist[k]
					if !factReadsGuarded(f, table) {
						continue
					}
					in2 := false
					for _, h := range f.Held {
						if h == mk {
							in2 = true
						}
					}
					if f.Epoch != st.epoch || !in2 {
						rmwBad = append(rmwBad, fmt.Sprintf("%s at %s is decided by `%s`, established at %s in a different critical section (lost-update window between the check and the write)", e.Name, c.P.InstrPos(in), shortName(stripAt(f.String())), c.P.InstrPos(f.At)))
					}
				}
			}
		}
		ex.Run()
		n := 0
		for _, g := range inlineFuncs(fn) {
			for _, b := range g.Blocks {
				for _, in := range b.Instrs {
					r, ok := sites[in]
					if !ok {
						continue
					}
					n++
					counts[r.e.Name]++
					key := fmt.Sprintf("%s %s %s#%d", shortFn(fn), r.kind, r.e.Name, n)
					if r.bad != "" {
						c.R.bad(prefix+"GUARDED-BY", key, c.P.InstrPos(in), shortFn(fn), r.bad)
					} else {
						c.R.ok(prefix+"GUARDED-BY", key, c.P.InstrPos(in), shortFn(fn), fmt.Sprintf("%s held in all %d abstract states", shortName(r.e.Mutex), r.n))
					}
				}
			}
		}
		if n > 0 {
			key := shortFn(fn) + " guarded writes decided in their own critical section"
			if len(rmwBad) > 0 {
				c.R.bad(prefix+"ATOMIC-RMW", key, c.P.Pos(fn.Pos()), shortFn(fn), strings.Join(dedup(rmwBad), "; "))
			} else {
				c.R.ok(prefix+"ATOMIC-RMW", key, c.P.Pos(fn.Pos()), shortFn(fn), "no write to guarded state depends (on its abstract path) on a fact about guarded state from another critical section")
			}
		}
		if ex.Exceeded {
			c.R.unk(prefix+"GUARDED-BY", shortFn(fn)+" explore", c.P.Pos(fn.Pos()), shortFn(fn), "state budget exceeded")
		}
	}
	for _, e := range table {
		if counts[e.Name] == 0 && !e.Elem {
			c.R.bad(prefix+"GUARDED-BY", "table row "+e.Name+" matched", "-", "-", "no access to this guarded state found in concurrent code (table stale?)")
		}
	}
	c.R.Note("GUARDED-BY scope: %d functions (handler- and goroutine-reachable, plus every function touching a guarded global)", len(all))
}

func isClosureOfOwner(fn *ssa.Function, owner string) bool {
	for f := fn.Parent(); f != nil; f = f.Parent() {
		if r := f.Signature.Recv(); r != nil && namedOf(r.Type()) == owner {
			return true
		}
	}
	return false
}

func touchesGlobal(in ssa.Instruction, g *ssa.Global) bool {
	switch x := in.(type) {
	case *ssa.UnOp:
		return x.Op == token.MUL && x.X == ssa.Value(g)
	case *ssa.Store:
		return x.Addr == ssa.Value(g)
	}
	return false
}

// guardedAccess classifies an instruction as an access to guarded state.
func guardedAccess(ex *Explorer, st *State, in ssa.Instruction, table []*guardEntry) (*guardEntry, bool, ssa.Value) {
	var addr ssa.Value
	write := false
	switch x := in.(type) {
	case *ssa.UnOp:
		if x.Op != token.MUL {
			return nil, false, nil
		}
		addr = x.X
	case *ssa.Store:
		addr, write = x.Addr, true
	default:
		// container operations on a guarded container value
		var op ssa.Value
		switch y := in.(type) {
		case *ssa.MapUpdate:
			op, write = y.Map, true
		case *ssa.Lookup:
			op = y.X
		case *ssa.IndexAddr:
			op = y.X
		case *ssa.Range:
			op = y.X
		case *ssa.Call:
			// delete(m, k) / clear(m) on a guarded container
			if b, ok := y.Call.Value.(*ssa.Builtin); ok && (b.Name() == "delete" || b.Name() == "clear") && len(y.Call.Args) > 0 {
				op, write = y.Call.Args[0], true
			}
		}
		if op == nil {
			return nil, false, nil
		}
		oc := strings.TrimPrefix(ex.Canon(st, op).S, "&")
		for _, e := range table {
			if e.Elem {
				continue
			}
			var loc string
			if e.Global != nil {
				loc = e.Global.String()
			} else {
				loc = "$0." + e.Field.Name()
			}
			if oc == loc || strings.HasPrefix(oc, loc+"[") {
				return e, write, nil
			}
		}
		return nil, false, nil
	}
	switch a := addr.(type) {
	case *ssa.Global:
		for _, e := range table {
			if e.Global == a {
				return e, write, nil
			}
		}
	case *ssa.FieldAddr:
		f := fieldOf(a.X.Type(), a.Field)
		for _, e := range table {
			if e.Field != nil && e.Field == f {
				return e, write, a.X
			}
		}
	}
	return nil, false, nil
}

func factReadsGuarded(f *Fact, table []*guardEntry) bool {
	for _, r := range f.Reads {
		for _, e := range table {
			if e.Global != nil && r.Global == e.Global {
				return true
			}
			if e.Field != nil && r.Field == e.Field {
				return true
			}
			if e.Field != nil && !e.Elem && strings.HasPrefix(r.Path, "$0."+e.Field.Name()) {
				return true
			}
			if e.Global != nil && strings.HasPrefix(r.Path, e.Global.String()) {
				return true
			}
		}
	}
	return false
}

// ---- GLOBAL-RO -----------------------------------------------------------------

func ruleGlobalRO(c *Ctx, rule string) {
	table := buildGuardTable(c)
	guarded := map[*ssa.Global]bool{}
	for _, e := range table {
		if e.Global != nil {
			guarded[e.Global] = true
		}
	}
	ro := FindRoots(c.P, c.R)
	roots := append([]*ssa.Function{ro.Handle4, ro.Handle6}, ro.AllHandlers()...)
	predH, hfns := ReachFirstParty(c.P, roots)
	predG, gfns := ReachFirstParty(c.P, goEntries(c))
	read := map[*ssa.Global]string{}
	for _, fn := range hfns {
		for _, b := range fn.Blocks {
			for _, in := range b.Instrs {
				if ld, ok := in.(*ssa.UnOp); ok && ld.Op == token.MUL {
					if g, ok := ld.X.(*ssa.Global); ok && isFirstPartyPath(g.Pkg.Pkg.Path()) {
						if _, seen := read[g]; !seen {
							read[g] = shortFn(fn)
						}
					}
				}
			}
		}
	}
	written := map[*ssa.Global]string{}
	note := func(fns []*ssa.Function, pred map[*ssa.Function]*ssa.Function, what string) {
		for _, fn := range fns {
			for _, b := range fn.Blocks {
				for _, in := range b.Instrs {
					if s, ok := in.(*ssa.Store); ok {
						if g, ok := s.Addr.(*ssa.Global); ok {
							written[g] = fmt.Sprintf("%s at %s (%s via %s)", shortFn(fn), c.P.InstrPos(in), what, witnessPath(pred, fn))
						}
					}
				}
			}
		}
	}
	note(hfns, predH, "handler-reachable")
	note(gfns, predG, "goroutine-reachable")
	var gs []*ssa.Global
	for g := range read {
		gs = append(gs, g)
	}
	sort.Slice(gs, func(i, j int) bool { return gs[i].String() < gs[j].String() })
	for _, g := range gs {
		key := "global " + shortName(g.String())
		if guarded[g] {
			c.R.ok(rule, key, "-", read[g], "in the GUARDED-BY table (checked there)")
			continue
		}
		if w, ok := written[g]; ok {
			c.R.bad(rule, key, "-", read[g], fmt.Sprintf("package-level variable read by handlers (%s) is written by concurrent code: %s, without being guarded", read[g], w))
		} else {
			c.R.ok(rule, key, "-", read[g], "written only during setup (no store reachable from a handler or a goroutine)")
		}
	}
	// guarded or not, a global written concurrently that handlers do not read is still suspicious only if unguarded
	for g, w := range written {
		if _, r := read[g]; !r && !guarded[g] && isFirstPartyPath(g.Pkg.Pkg.Path()) {
			c.R.bad(rule, "global "+shortName(g.String())+" (written concurrently)", "-", "-", "package-level variable written by concurrent code without a guard: "+w)
		}
	}
}

// ---- BUF.RELEASE ----------------------------------------------------------------

func ruleBufRelease(c *Ctx, rule string) {
	for _, name := range []struct{ t, m, parse string }{{"*listener4", "HandleMsg4", pkgDHCP4 + ".FromBytes"}, {"*listener6", "HandleMsg6", pkgDHCP6 + ".FromBytes"}} {
		fn := c.P.Func("server", name.t, name.m)
		if fn == nil {
			c.R.Fatalf("ANCHOR-UNRESOLVED: server.%s", name.m)
			continue
		}
		c.R.Functions[shortFn(fn)] = true
		ex := NewExplorer(c.P, c.Pure, fn)
		var bad []string
		nput := 0
		isPut := func(in ssa.Instruction) *ssa.Call {
			if call, ok := in.(*ssa.Call); ok {
				if f := call.Call.StaticCallee(); f != nil && f.String() == "(*sync.Pool).Put" {
					return call
				}
			}
			return nil
		}
		ex.Hooks.Label = func(st *State, in ssa.Instruction) string {
			if isPut(in) != nil {
				return "put"
			}
			if call, ok := in.(*ssa.Call); ok {
				if f := call.Call.StaticCallee(); f != nil && f.String() == name.parse {
					return "parsed"
				}
			}
			return ""
		}
		ex.Hooks.Instr = func(st *State, in ssa.Instruction) {
			if put := isPut(in); put != nil {
				nput++
				if st.seen["put"] {
					bad = append(bad, fmt.Sprintf("the receive buffer is returned to the pool a second time at %s: two datagrams would then share one buffer", c.P.InstrPos(in)))
				}
				// (a release before the parse is fine on a path that never parses: any later use of the
				// buffer - the parse included - is a read after release, reported below)
				// what is put back is the buffer parameter
				if a := strings.TrimPrefix(ex.Canon(st, put.Call.Args[1]).S, "&"); !strings.HasPrefix(a, "new@") {
					bad = append(bad, "the value returned to the pool is not the address of the buffer parameter: "+a)
				}
				return
			}
			if !st.seen["put"] {
				return
			}
			// any later read of the buffer variable is a use-after-release
			if ld, ok := in.(*ssa.UnOp); ok && ld.Op == token.MUL {
				if al, ok := ld.X.(*ssa.Alloc); ok && al.Comment == fn.Params[1].Name() {
					bad = append(bad, fmt.Sprintf("the receive buffer is read at %s after it was returned to the pool", c.P.InstrPos(in)))
				}
			}
		}
		ex.Run()
		key := shortFn(fn) + " buffer release"
		if len(bad) > 0 {
			c.R.bad(rule, key, c.P.Pos(fn.Pos()), shortFn(fn), strings.Join(dedup(bad), "; "))
		} else if nput == 0 {
			c.R.ok(rule, key, c.P.Pos(fn.Pos()), shortFn(fn), "buffer is not recycled by the handler")
		} else {
			c.R.ok(rule, key, c.P.Pos(fn.Pos()), shortFn(fn), "released exactly once on every abstract path, after the parse, and never read afterwards")
		}
	}
	for _, t := range []string{"*listener4", "*listener6"} {
		fn := c.P.Func("server", t, "Serve")
		if fn == nil {
			c.R.Fatalf("ANCHOR-UNRESOLVED: server.%s.Serve", t)
			continue
		}
		c.R.Functions[shortFn(fn)] = true
		info := InfoOf(fn)
		var bad []string
		ngo := 0
		for _, b := range fn.Blocks {
			for _, in := range b.Instrs {
				g, ok := in.(*ssa.Go)
				if !ok {
					continue
				}
				ngo++
				// the buffer argument derives from a pool Get in the same loop iteration
				var get *ssa.Call
				var fromPool func(v ssa.Value) bool
				fromPool = func(v ssa.Value) bool {
					for i := 0; i < 3; i++ { // reslicings of the buffer
						if sl, ok := v.(*ssa.Slice); ok {
							v = sl.X
						}
					}
					// a same-package helper all of whose returns are pool buffers
					if call, ok := v.(*ssa.Call); ok {
						if f := call.Call.StaticCallee(); f != nil && len(f.Blocks) > 0 && defaultInline(fn, f) {
							nret := 0
							for _, hb := range f.Blocks {
								if ret, ok := hb.Instrs[len(hb.Instrs)-1].(*ssa.Return); ok && len(ret.Results) == 1 {
									nret++
									inner := get
									if ok2, _ := originsWithin(ret.Results[0], fromPool); !ok2 {
										return false
									}
									get = inner
								}
							}
							if nret > 0 {
								get = call // the helper call marks where the buffer is taken
								return true
							}
						}
					}
					if sl, ok := v.(*ssa.Slice); ok {
						v = sl.X
						if sl2, ok := v.(*ssa.Slice); ok {
							v = sl2.X
						}
					}
					if ld, ok := v.(*ssa.UnOp); ok {
						if ta, ok := ld.X.(*ssa.TypeAssert); ok {
							if call, ok := ta.X.(*ssa.Call); ok {
								if f := call.Call.StaticCallee(); f != nil && f.String() == "(*sync.Pool).Get" {
									get = call
									return true
								}
							}
						}
					}
					return false
				}
				okOrigin, _ := originsWithin(g.Call.Args[1], fromPool)
				if !okOrigin || get == nil {
					bad = append(bad, fmt.Sprintf("the buffer handed to the handler goroutine at %s does not come from bufpool.Get()", c.P.InstrPos(in)))
					continue
				}
				sameLoop := false
				for _, body := range info.LoopOf {
					if body[b.Index] && body[get.Block().Index] {
						sameLoop = true
					}
				}
				if !sameLoop {
					bad = append(bad, fmt.Sprintf("the buffer handed to the handler goroutine at %s is not taken from the pool in the same loop iteration: concurrent handlers would share it", c.P.InstrPos(in)))
				}
				// nothing after the go statement in the iteration touches the buffer
				for i := instrIndex(in) + 1; i < len(b.Instrs); i++ {
					for _, op := range b.Instrs[i].Operands(nil) {
						if *op == g.Call.Args[1] {
							bad = append(bad, "the buffer is used by Serve after being handed to the handler goroutine")
						}
					}
				}
			}
		}
		key := shortFn(fn) + " buffer hand-over"
		if len(bad) > 0 || ngo != 1 {
			if ngo != 1 {
				bad = append(bad, fmt.Sprintf("expected exactly one handler goroutine start, found %d", ngo))
			}
			c.R.bad(rule, key, c.P.Pos(fn.Pos()), shortFn(fn), strings.Join(dedup(bad), "; "))
		} else {
			c.R.ok(rule, key, c.P.Pos(fn.Pos()), shortFn(fn), "each datagram gets a buffer taken from the pool in its own iteration; Serve does not touch it after the hand-over")
		}
	}
}

// valueOrigins: the SSA values a value is built from, through phis, appends,
// slices and conversions.
func valueOrigins(v ssa.Value) []ssa.Value {
	seen := map[ssa.Value]bool{}
	var out []ssa.Value
	var walk func(v ssa.Value, d int)
	walk = func(v ssa.Value, d int) {
		if v == nil || seen[v] || d > 20 {
			return
		}
		seen[v] = true
		out = append(out, v)
		switch x := v.(type) {
		case *ssa.Phi:
			for _, e := range x.Edges {
				walk(e, d+1)
			}
		case *ssa.Call:
			if b, ok := x.Call.Value.(*ssa.Builtin); ok && b.Name() == "append" {
				for _, a := range x.Call.Args {
					walk(a, d+1)
				}
			}
		case *ssa.Slice:
			walk(x.X, d+1)
			for _, e := range varargElems(x) { // the elements of a variadic argument list
				walk(e, d+1)
			}
		case *ssa.ChangeType:
			walk(x.X, d+1)
		case *ssa.Convert:
			walk(x.X, d+1)
		case *ssa.MakeInterface:
			walk(x.X, d+1)
		case *ssa.UnOp:
			// an element read out of a container: whatever was put into the container
			if ia, ok := x.X.(*ssa.IndexAddr); ok && x.Op == token.MUL {
				walk(ia.X, d+1)
			}
			// a local variable kept in memory (address taken, or live across a defer): what was stored into it
			if al, ok := x.X.(*ssa.Alloc); ok && x.Op == token.MUL {
				for _, r := range *al.Referrers() {
					if sto, ok := r.(*ssa.Store); ok && sto.Addr == ssa.Value(al) {
						walk(sto.Val, d+1)
					}
				}
			}
		case *ssa.Next:
			walk(x.Iter, d+1)
		case *ssa.Range:
			walk(x.X, d+1)
		case *ssa.Extract:
			if nx, ok := x.Tuple.(*ssa.Next); ok {
				walk(nx, d+1)
			}
			// result of a same-package helper: what its returns yield
			if call, ok := x.Tuple.(*ssa.Call); ok {
				if f := call.Call.StaticCallee(); f != nil && len(f.Blocks) > 0 && call.Parent() != nil && defaultInline(call.Parent(), f) {
					for _, b := range f.Blocks {
						if ret, ok := b.Instrs[len(b.Instrs)-1].(*ssa.Return); ok && x.Index < len(ret.Results) {
							walk(ret.Results[x.Index], d+1)
						}
					}
				}
			}
		}
		if call, ok := v.(*ssa.Call); ok {
			if f := call.Call.StaticCallee(); f != nil && len(f.Blocks) > 0 && f.Signature.Results().Len() == 1 && call.Parent() != nil && defaultInline(call.Parent(), f) {
				for _, b := range f.Blocks {
					if ret, ok := b.Instrs[len(b.Instrs)-1].(*ssa.Return); ok && len(ret.Results) == 1 {
						walk(ret.Results[0], d+1)
					}
				}
			}
		}
	}
	walk(v, 0)
	return out
}

// inlinedEverywhere: every first-party caller would explore fn inline.
func inlinedEverywhere(c *Ctx, fn *ssa.Function) bool {
	sites := c.P.CallersOf(fn)
	if len(sites) == 0 {
		return false
	}
	for _, s := range sites {
		if s.Common().StaticCallee() != fn || !defaultInline(s.Parent(), fn) {
			return false
		}
		if _, isGo := s.(*ssa.Go); isGo {
			return false
		}
		if _, isDefer := s.(*ssa.Defer); isDefer {
			return false
		}
	}
	return true
}

// ruleFreshPublish: a map published by storing it into a package-level
// variable that handlers read is a map built for that purpose (make / literal
// in the storing call chain, or nil) - not an object that is also kept
// somewhere else (a cache, another variable), where it could be modified
// without the lock that guards the published variable.
func ruleFreshPublish(c *Ctx, rule string) {
	n := 0
	for _, fn := range c.P.SrcFuncs() {
		if isFixture(fn) || fn.Name() == "init" {
			continue
		}
		for _, b := range fn.Blocks {
			for _, in := range b.Instrs {
				sto, ok := in.(*ssa.Store)
				if !ok {
					continue
				}
				g, ok := sto.Addr.(*ssa.Global)
				if !ok || !FirstParty(fn) || g.Pkg == nil || !isFirstPartyPath(g.Pkg.Pkg.Path()) {
					continue
				}
				if _, isMap := sto.Val.Type().Underlying().(*types.Map); !isMap {
					continue
				}
				n++
				key := fmt.Sprintf("%s publishes %s#%d", shortFn(fn), shortName(g.String()), n)
				okAll := true
				why := ""
				for _, l := range mayLeaves(c.P, sto.Val) {
					switch x := l.(type) {
					case *ssa.MakeMap:
						continue
					case *ssa.Const:
						if x.Value == nil {
							continue
						}
					}
					okAll, why = false, l.String()
					if in, ok := l.(ssa.Instruction); ok {
						why += " at " + c.P.InstrPos(in)
					}
				}
				if okAll {
					c.R.ok(rule, key, c.P.InstrPos(in), shortFn(fn), "the published map is built fresh in the storing call chain (or nil)")
				} else {
					c.R.bad(rule, key, c.P.InstrPos(in), shortFn(fn), "the map stored into "+shortName(g.String())+" is not built fresh for publication ("+shortName(why)+"): the same object stays reachable elsewhere and can be modified without the lock guarding the published variable")
				}
			}
		}
	}
	c.R.Note("%s: %d stores of maps into package-level variables outside init", rule, n)
}

// poolNonRetaining: callees known (by reading them) not to keep a reference to
// the pooled argument after they return.
var poolNonRetaining = map[string]string{
	"(*sync.Pool).Put": "the release itself",
	"github.com/insomniacslk/dhcp/dhcpv4.FromBytes": "the parser copies every field out of the buffer (uio.Lexer Read/CopyN)",
	"github.com/insomniacslk/dhcp/dhcpv6.FromBytes": "the parser copies every field out of the buffer (uio.Lexer Read/CopyN)",
}

// rulePoolRetain: an object that is given back to a sync.Pool was not handed,
// in the same function, to anything that may keep it (an option constructor,
// a reply, a goroutine): the pool gives the same object to the next user while
// the first holder still reads it. Flow-insensitive over the function and the
// helpers explored inline with it; the callees accepted are listed by name.
func rulePoolRetain(c *Ctx, rule string) {
	n := 0
	for _, fn := range c.P.SrcFuncs() {
		if isFixture(fn) {
			continue
		}
		var puts []*ssa.Call
		for _, b := range fn.Blocks {
			for _, in := range b.Instrs {
				if call, ok := in.(*ssa.Call); ok {
					if f := call.Call.StaticCallee(); f != nil && f.String() == "(*sync.Pool).Put" {
						puts = append(puts, call)
					}
				}
			}
		}
		for _, put := range puts {
			n++
			key := fmt.Sprintf("%s Put#%d", shortFn(fn), n)
			x := put.Call.Args[1]
			if mi, ok := x.(*ssa.MakeInterface); ok {
				x = mi.X
			}
			// the object: the pointer value itself, or the variable whose address is released
			alias := map[ssa.Value]bool{x: true}
			if al, ok := x.(*ssa.Alloc); ok {
				for _, r := range *al.Referrers() {
					if ld, ok := r.(*ssa.UnOp); ok && ld.Op == token.MUL {
						alias[ld] = true
					}
				}
			}
			for changed := true; changed; {
				changed = false
				for _, b := range fn.Blocks {
					for _, in := range b.Instrs {
						v, ok := in.(ssa.Value)
						if !ok || alias[v] {
							continue
						}
						switch y := in.(type) {
						case *ssa.Phi:
							for _, e := range y.Edges {
								if alias[e] {
									alias[v], changed = true, true
								}
							}
						case *ssa.Slice:
							if alias[y.X] {
								alias[v], changed = true, true
							}
						case *ssa.ChangeType:
							if alias[y.X] {
								alias[v], changed = true, true
							}
						case *ssa.MakeInterface:
							if alias[y.X] {
								alias[v], changed = true, true
							}
						}
					}
				}
			}
			bad := ""
			for _, b := range fn.Blocks {
				for _, in := range b.Instrs {
					var cc *ssa.CallCommon
					switch y := in.(type) {
					case *ssa.Call:
						cc = &y.Call
					case *ssa.Go:
						cc = &y.Call
					case *ssa.Defer:
						cc = &y.Call
					case *ssa.Store:
						if alias[y.Val] {
							if _, local := y.Addr.(*ssa.Alloc); !local {
								bad = fmt.Sprintf("the pooled object is stored at %s and released at %s: whoever reads that location later shares it with the pool's next user", c.P.InstrPos(in), c.P.InstrPos(put))
							}
						}
						continue
					default:
						continue
					}
					if _, isB := cc.Value.(*ssa.Builtin); isB {
						continue
					}
					uses := false
					for _, a := range cc.Args {
						if alias[a] {
							uses = true
						}
					}
					if !uses {
						continue
					}
					name := "a function value"
					if f := cc.StaticCallee(); f != nil {
						name = f.String()
					} else if cc.IsInvoke() {
						name = invokeName(cc)
					}
					if _, ok := poolNonRetaining[name]; ok {
						continue
					}
					// a first-party callee that only reads the argument (a goroutine or a deferred call
					// runs after the release whatever it does with it)
					_, plainCall := in.(*ssa.Call)
					if f := cc.StaticCallee(); plainCall && f != nil && FirstParty(f) && len(f.Blocks) > 0 {
						keeps := false
						for i, a := range cc.Args {
							if alias[a] && i < len(f.Params) && paramMayBeRetained(f, i, 0) {
								keeps = true
							}
						}
						if !keeps {
							continue
						}
					}
					if _, isGo := in.(*ssa.Go); isGo {
						name = "a new goroutine running " + name
					}
					bad = fmt.Sprintf("the pooled object released at %s is first handed to %s (%s), which may keep a reference: the pool gives the same object to the next user while it is still in use", c.P.InstrPos(put), shortName(name), c.P.InstrPos(in))
				}
			}
			if bad != "" {
				c.R.bad(rule, key, c.P.InstrPos(put), shortFn(fn), bad)
			} else {
				c.R.ok(rule, key, c.P.InstrPos(put), shortFn(fn), "the released object is only passed to callees known not to keep it")
			}
		}
	}
	c.R.Note("%s: %d sync.Pool.Put sites in first-party code", rule, n)
}

// paramMayBeRetained: may fn keep a reference to (the memory behind) its i-th
// parameter after it returns - by storing it, returning it, capturing it,
// sending it, or handing it to something that is not known to only read it?
// Reads, reslicing, indexing, len/cap, comparisons and copies *out of* it do
// not retain.
func paramMayBeRetained(fn *ssa.Function, i int, depth int) bool {
	if depth > 3 || i >= len(fn.Params) {
		return true
	}
	alias := map[ssa.Value]bool{fn.Params[i]: true}
	for changed := true; changed; {
		changed = false
		for _, b := range fn.Blocks {
			for _, in := range b.Instrs {
				v, ok := in.(ssa.Value)
				if !ok || alias[v] {
					continue
				}
				switch y := in.(type) {
				case *ssa.Phi:
					for _, e := range y.Edges {
						if alias[e] {
							alias[v], changed = true, true
						}
					}
				case *ssa.Slice:
					if alias[y.X] {
						alias[v], changed = true, true
					}
				case *ssa.ChangeType:
					if alias[y.X] {
						alias[v], changed = true, true
					}
				case *ssa.MakeInterface:
					if alias[y.X] {
						alias[v], changed = true, true
					}
				case *ssa.IndexAddr:
					if alias[y.X] {
						alias[v], changed = true, true // an interior pointer
					}
				}
			}
		}
	}
	for _, b := range fn.Blocks {
		for _, in := range b.Instrs {
			switch y := in.(type) {
			case *ssa.Store:
				if alias[y.Val] {
					return true
				}
			case *ssa.Return:
				for _, r := range y.Results {
					if alias[r] {
						return true
					}
				}
			case *ssa.MakeClosure:
				for _, bnd := range y.Bindings {
					if alias[bnd] {
						return true
					}
				}
			case *ssa.Send:
				if alias[y.X] {
					return true
				}
			case *ssa.MapUpdate:
				if alias[y.Key] || alias[y.Value] {
					return true
				}
			case *ssa.Go, *ssa.Defer:
				cc := in.(ssa.CallInstruction).Common()
				for _, a := range cc.Args {
					if alias[a] {
						return true
					}
				}
			case *ssa.Call:
				if _, isB := y.Call.Value.(*ssa.Builtin); isB {
					if b := y.Call.Value.(*ssa.Builtin); b.Name() == "append" && len(y.Call.Args) > 0 && alias[y.Call.Args[0]] {
						return true // the result shares the argument's array
					}
					continue
				}
				for j, a := range y.Call.Args {
					if !alias[a] {
						continue
					}
					g := y.Call.StaticCallee()
					if g == nil {
						return true
					}
					if _, ok := poolNonRetaining[g.String()]; ok {
						continue
					}
					if FirstParty(g) && len(g.Blocks) > 0 && !y.Call.IsInvoke() && !paramMayBeRetained(g, j, depth+1) {
						continue
					}
					return true
				}
			}
		}
	}
	return false
}

// callbackRoots: first-party functions the libraries call back on goroutines
// of their own choosing - function values and closures handed to a
// non-first-party callee, and the methods of first-party types whose values
// are handed over boxed in an interface (a logrus hook, an exit handler, a
// timer function). They are concurrent entry points like the handlers.
func callbackRoots(c *Ctx) []*ssa.Function {
	seen := map[*ssa.Function]bool{}
	var out []*ssa.Function
	add := func(f *ssa.Function) {
		if f != nil && FirstParty(f) && len(f.Blocks) > 0 && !isFixture(f) && !seen[f] {
			seen[f] = true
			out = append(out, f)
		}
	}
	for _, fn := range c.P.SrcFuncs() {
		if isFixture(fn) {
			continue
		}
		eachOwnInstr(fn, func(in ssa.Instruction) {
			ci, ok := in.(ssa.CallInstruction)
			if !ok {
				return
			}
			cc := ci.Common()
			if f := cc.StaticCallee(); f == nil || FirstParty(f) {
				if !cc.IsInvoke() {
					return
				}
				// an interface method of a library type (logrus.Logger is concrete; invoke means interface)
				if strings.HasPrefix(invokeName(cc), modPath) {
					return
				}
			}
			for _, a := range cc.Args {
				switch x := a.(type) {
				case *ssa.Function:
					add(x)
				case *ssa.MakeClosure:
					if f, ok := x.Fn.(*ssa.Function); ok {
						add(f)
					}
				case *ssa.MakeInterface:
					t := x.X.Type()
					if n := namedOf(t); n != "" && strings.HasPrefix(n, modPath) {
						ms := c.P.Prog.MethodSets.MethodSet(t)
						for i := 0; i < ms.Len(); i++ {
							add(c.P.Prog.MethodValue(ms.At(i)))
						}
					}
				}
			}
		})
	}
	sort.Slice(out, func(i, j int) bool { return out[i].String() < out[j].String() })
	return out
}

// ruleCallbackSharedWrites: a callback the libraries may run on any goroutine
// (several at once: logrus fires its hooks outside the logger's mutex) writes
// shared state - a map or a field behind its receiver, a package-level
// variable - only with a mutex held. An unsynchronised map write from two
// datagram goroutines is a fatal "concurrent map writes".
func ruleCallbackSharedWrites(c *Ctx, rule string) {
	roots := callbackRoots(c)
	n := 0
	for _, fn := range roots {
		ex := NewExplorer(c.P, c.Pure, fn)
		var bad []string
		ex.Hooks.Instr = func(st *State, in ssa.Instruction) {
			var target ssa.Value
			what := ""
			switch x := in.(type) {
			case *ssa.MapUpdate:
				target, what = x.Map, "map write"
			case *ssa.Store:
				switch a := x.Addr.(type) {
				case *ssa.Global:
					target, what = a, "store to a package-level variable"
				case *ssa.FieldAddr:
					target, what = a, "store to a field"
				}
			case *ssa.Call:
				if b, ok := x.Call.Value.(*ssa.Builtin); ok && (b.Name() == "delete" || b.Name() == "clear") && len(x.Call.Args) > 0 {
					target, what = x.Call.Args[0], b.Name()
				}
			}
			if target == nil {
				return
			}
			if rootAlloc(target) != nil {
				return // an object built in this call
			}
			s := strings.TrimPrefix(ex.Canon(st, target).S, "&")
			if strings.HasPrefix(s, "new@") || strings.Contains(s, "@t") {
				return // fresh or call-local
			}
			shared := strings.HasPrefix(s, "$0") || strings.HasPrefix(s, modPath)
			if !shared {
				return
			}
			if len(st.held) == 0 {
				bad = append(bad, fmt.Sprintf("%s on %s at %s without any mutex held", what, shortName(s), c.P.InstrPos(in)))
			}
		}
		ex.Run()
		n++
		key := shortFn(fn) + " shared writes"
		if len(bad) > 0 {
			c.R.bad(rule, key, c.P.Pos(fn.Pos()), shortFn(fn), "this function is handed to a library that may call it from several goroutines at once; "+strings.Join(dedup(bad), "; "))
		} else {
			c.R.ok(rule, key, c.P.Pos(fn.Pos()), shortFn(fn), "a library callback: no unsynchronised write to state behind its receiver or to package-level variables")
		}
	}
	c.R.Note("%s: %d first-party functions are handed to library code as callbacks", rule, n)
}
