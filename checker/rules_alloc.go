package main

import (
	"fmt"
	"go/token"
	"go/types"
	"regexp"
	"sort"
	"strings"

	"golang.org/x/tools/go/ssa"
)

const pkgBitset = "github.com/bits-and-blooms/bitset"

// allocImpl describes one implementation of allocators.Allocator.
type allocImpl struct {
	T        *types.Named
	Name     string
	Allocate *ssa.Function
	Free     *ssa.Function
	Methods  []*ssa.Function // all methods with receiver *T
	Bitmap   string          // field name of the *bitset.BitSet
	Mutex    string          // field name of the sync.Mutex
	Ctors    []*ssa.Function // functions that build a T literal
}

func findAllocImpls(c *Ctx) []*allocImpl {
	n := c.P.NamedType("plugins/allocators", "Allocator")
	if n == nil {
		c.R.Fatalf("ANCHOR-UNRESOLVED: allocators.Allocator")
		return nil
	}
	iface := n.Underlying().(*types.Interface)
	var out []*allocImpl
	for _, pk := range c.P.Prog.AllPackages() {
		if !isFirstPartyPath(pk.Pkg.Path()) || pk.Pkg.Path() == fixturePkg {
			continue
		}
		names := []string{}
		for name := range pk.Members {
			names = append(names, name)
		}
		sort.Strings(names)
		for _, name := range names {
			tn, ok := pk.Members[name].(*ssa.Type)
			if !ok || types.IsInterface(tn.Type()) {
				continue
			}
			named, ok := tn.Type().(*types.Named)
			if !ok {
				continue
			}
			pt := types.NewPointer(named)
			if !types.Implements(pt, iface) {
				continue
			}
			ai := &allocImpl{T: named, Name: shortName(pk.Pkg.Path()) + "." + name}
			st, ok := named.Underlying().(*types.Struct)
			if !ok {
				continue
			}
			for i := 0; i < st.NumFields(); i++ {
				f := st.Field(i)
				switch namedOf(f.Type()) {
				case pkgBitset + ".BitSet":
					ai.Bitmap = f.Name()
				case "sync.Mutex", "sync.RWMutex":
					ai.Mutex = f.Name()
				}
			}
			ms := c.P.Prog.MethodSets.MethodSet(pt)
			for i := 0; i < ms.Len(); i++ {
				f := c.P.Prog.MethodValue(ms.At(i))
				if f == nil || f.Synthetic != "" || len(f.Blocks) == 0 {
					continue
				}
				ai.Methods = append(ai.Methods, f)
				switch f.Name() {
				case "Allocate":
					ai.Allocate = f
				case "Free":
					ai.Free = f
				}
			}
			for _, fn := range c.P.SrcFuncs() {
				if fn.Signature.Recv() != nil || isFixture(fn) {
					continue
				}
				for _, b := range fn.Blocks {
					for _, in := range b.Instrs {
						if al, ok := in.(*ssa.Alloc); ok {
							if pt, ok := al.Type().(*types.Pointer); ok && types.Identical(pt.Elem(), named) {
								ai.Ctors = appendUniqueFn(ai.Ctors, fn)
							}
						}
					}
				}
			}
			if ai.Bitmap == "" || ai.Mutex == "" || ai.Allocate == nil || ai.Free == nil {
				c.R.Fatalf("ANCHOR-UNRESOLVED: allocator %s lacks a bitset field, a mutex field, Allocate or Free", ai.Name)
				continue
			}
			out = append(out, ai)
		}
	}
	if len(out) < 2 {
		c.R.Fatalf("ANCHOR-UNRESOLVED: expected two implementations of allocators.Allocator, found %d", len(out))
	}
	return out
}

func appendUniqueFn(xs []*ssa.Function, f *ssa.Function) []*ssa.Function {
	for _, x := range xs {
		if x == f {
			return xs
		}
	}
	return append(xs, f)
}

// bitmapOp: call of a BitSet method on the allocator's own bitmap.
func (ai *allocImpl) bitmapOp(ex *Explorer, st *State, in ssa.Instruction) (op string, call *ssa.Call) {
	call, ok := in.(*ssa.Call)
	if !ok {
		return "", nil
	}
	f := call.Call.StaticCallee()
	if f == nil || f.Signature.Recv() == nil || namedOf(f.Signature.Recv().Type()) != pkgBitset+".BitSet" {
		return "", nil
	}
	if ex.Canon(st, call.Call.Args[0]).S != "$0."+ai.Bitmap {
		return "", nil
	}
	return f.Name(), call
}

var mutatingBitOps = map[string]bool{"Set": true, "Clear": true, "SetTo": true, "Flip": true, "ClearAll": true, "FlipRange": true, "InPlaceUnion": true, "InPlaceIntersection": true, "InPlaceDifference": true, "InPlaceSymmetricDifference": true, "Compact": true, "InsertAt": true, "DeleteAt": true, "Shrink": true, "SetAll": true}

// indexProof decides whether bit index v is "proved clear" (for Set) or
// "proved set" (for Clear) in st: a Test on the same index with the right
// outcome, or (for Set) the ok result of NextClear, established inside the
// current critical section and not invalidated since.
func (ai *allocImpl) indexProof(ex *Explorer, st *State, idx ssa.Value, wantSet bool) (bool, string) {
	ic := ex.Canon(st, idx).S
	recv := "$0." + ai.Bitmap
	held := st.Holds("$0."+ai.Mutex, 'W')
	if !held {
		return false, "the allocator mutex is not held"
	}
	inSection := func(f *Fact) bool {
		if f.Epoch != st.epoch {
			return false
		}
		for _, h := range f.Held {
			if h == "$0."+ai.Mutex {
				return true
			}
		}
		return false
	}
	tk := "b:(*" + pkgBitset + ".BitSet).Test(" + recv + "," + ic + ")"
	if f, ok := st.live[tk]; ok {
		if f.Val == wantSet && inSection(f) {
			return true, fmt.Sprintf("Test(%s) == %v established in this critical section", shortName(ic), wantSet)
		}
		if f.Val != wantSet {
			return false, fmt.Sprintf("the path established Test(%s) == %v", shortName(ic), f.Val)
		}
		return false, "the Test was made outside the current critical section (before the lock / before an unlock)"
	}
	if !wantSet {
		m := regexp.MustCompile(`^(\(\*` + reQ(pkgBitset) + `\.BitSet\)\.NextClear(@(?:[\w$]+·)?t\d+)?\(` + reQ(recv) + `,[^)]*\))#0$`).FindStringSubmatch(ic)
		if m != nil {
			if f, ok := st.live["b:"+m[1]+"#1"]; ok && f.Val && inSection(f) {
				return true, "index is NextClear's result on its ok edge in this critical section"
			}
			// the ok edge was taken earlier in this section and nothing has touched the bitmap since
			// (the live fact is dropped when a field the call read by value - a search cursor - is rewritten)
			if f, ok := st.hist["b:"+m[1]+"#1"]; ok && f.Val && inSection(f) {
				touched := false
				for l := range st.seen {
					if strings.HasPrefix(l, "set:") || strings.HasPrefix(l, "clear:") || strings.HasPrefix(l, "mut:") {
						touched = true
					}
				}
				if !touched {
					return true, "index is NextClear's result on its ok edge in this critical section (no bitmap update since)"
				}
			}
			return false, "NextClear's ok result is not established (or not in this critical section)"
		}
	}
	if _, ok := st.hist[tk]; ok {
		return false, "a Test on this index was made but the bitmap was modified since"
	}
	return false, "no Test / NextClear fact about index " + shortName(ic)
}

// ruleAlloc runs the allocator rules. Sections selected by `want`:
// LOCK, TESTSET, SAMEINDEX (C04); FULL (C05); FREE (C06); HINT (C07).
func ruleAlloc(c *Ctx, prefix string, want map[string]bool) {
	impls := findAllocImpls(c)
	for _, ai := range impls {
		for _, m := range ai.Methods {
			c.R.Functions[shortFn(m)] = true
		}
		if want["LOCK"] {
			ruleAllocLock(c, prefix, ai)
		}
		if want["TESTSET"] || want["SAMEINDEX"] || want["FULL"] || want["HINT"] {
			ruleAllocate(c, prefix, ai, want)
		}
		if want["FREE"] {
			ruleFree(c, prefix, ai)
		}
	}
	if want["SIBLINGS"] && len(impls) >= 2 {
		// every rule instance exists for every implementation
		per := map[string]map[string]int{}
		for _, o := range c.R.Obls {
			for _, ai := range impls {
				if strings.HasPrefix(o.Key, ai.Name+" ") || strings.Contains(o.Key, "."+ai.T.Obj().Name()+")") {
					if per[o.Rule] == nil {
						per[o.Rule] = map[string]int{}
					}
					per[o.Rule][ai.Name]++
				}
			}
		}
		rules := sortedKeys(per)
		for _, r := range rules {
			if strings.HasSuffix(r, "ROLLBACK") || strings.HasSuffix(r, "SIBLINGS") {
				continue // an implementation whose index→address conversion cannot fail has nothing to roll back
			}
			missing := []string{}
			for _, ai := range impls {
				if per[r][ai.Name] == 0 {
					missing = append(missing, ai.Name)
				}
			}
			if len(missing) > 0 {
				c.R.bad(prefix+"ALLOC.SIBLINGS", r, "-", "-", fmt.Sprintf("rule %s has instances for some allocator implementations but none for %v", r, missing))
			} else {
				c.R.ok(prefix+"ALLOC.SIBLINGS", r, "-", "-", fmt.Sprintf("instances for all %d implementations", len(impls)))
			}
		}
	}
}

func ruleAllocLock(c *Ctx, prefix string, ai *allocImpl) {
	rule := prefix + "ALLOC.LOCK"
	// stores into the allocator's own fields, seen during the exploration of its methods
	// with the mutex held exclusively in every abstract state
	lockedStore := map[*ssa.Store]bool{}
	unlockedStore := map[*ssa.Store]bool{}
	for _, m := range ai.Methods {
		if inlinedEverywhere(c, m) {
			continue // explored inline from its callers, with the callers' locks
		}
		ex := NewExplorer(c.P, c.Pure, m)
		type res struct {
			n   int
			bad string
		}
		sites := map[ssa.Instruction]*res{}
		ex.Hooks.Instr = func(st *State, in ssa.Instruction) {
			if sto, ok := in.(*ssa.Store); ok {
				if fa, ok := sto.Addr.(*ssa.FieldAddr); ok && ex.Canon(st, fa.X).S == "$0" {
					if st.Holds("$0."+ai.Mutex, 'W') {
						lockedStore[sto] = true
					} else {
						unlockedStore[sto] = true
					}
				}
				return
			}
			op, call := ai.bitmapOp(ex, st, in)
			if op == "" {
				return
			}
			r := sites[in]
			if r == nil {
				r = &res{}
				sites[in] = r
			}
			r.n++
			_ = call
			if !st.Holds("$0."+ai.Mutex, 'W') {
				r.bad = fmt.Sprintf("bitmap.%s executed without %s.%s held exclusively (abstract path %v)", op, ai.T.Obj().Name(), ai.Mutex, st.Trail())
			}
			if mutatingBitOps[op] && op != "Set" && op != "Clear" {
				// the table has exactly one bit per block of the pool (SIZE/CAP): only single-bit
				// updates keep its length and everybody else's bits
				r.bad = fmt.Sprintf("bitmap.%s changes the table's length or several bits at once: after construction only Set and Clear of one proven index keep one bit per block", op)
			}
		}
		ex.Run()
		n := 0
		for _, in := range viewInstrs(m) {
			{
				r, ok := sites[in]
				if !ok {
					continue
				}
				n++
				op, _ := ai.bitmapOp(ex, nil, in)
				key := fmt.Sprintf("%s bitmap.%s#%d", shortFn(m), op, n)
				if r.bad != "" {
					c.R.bad(rule, key, c.P.InstrPos(in), shortFn(m), r.bad)
				} else {
					c.R.ok(rule, key, c.P.InstrPos(in), shortFn(m), fmt.Sprintf("mutex held exclusively in all %d abstract states", r.n))
				}
			}
		}
		// a method that touches the bitmap through an escaping alias is out of reach: flag loads of the field other than as a receiver
	}
	// a bit set at construction is not an allocation: Free could not tell it from an outstanding
	// block (it would release it), and the pool would report less capacity than it has
	for _, ctor := range ai.Ctors {
		eachInstr(ctor, func(in ssa.Instruction) {
			call, ok := in.(*ssa.Call)
			if !ok {
				return
			}
			f := call.Call.StaticCallee()
			if f == nil || f.Signature.Recv() == nil || namedOf(f.Signature.Recv().Type()) != pkgBitset+".BitSet" || !mutatingBitOps[f.Name()] {
				return
			}
			c.R.bad(rule, fmt.Sprintf("%s constructor bitmap.%s", ai.Name, f.Name()), c.P.InstrPos(in), shortFn(ctor), fmt.Sprintf("the constructor marks bits with bitmap.%s: a bit set before any Allocate is indistinguishable from an outstanding block (Free releases it, a hint for it is refused, capacity shrinks)", f.Name()))
		})
	}
	// geometry: the fields the index<->address conversions read, and the bitmap itself, are
	// only written in constructors (on the fresh literal); any other field (a cursor, a
	// counter) may change later, but only in a method of T with the mutex held exclusively
	geom := map[string]bool{ai.Bitmap: true}
	for _, k := range []string{"toIndex", "toPrefix", "toOffset", "toIP"} {
		m := c.P.Anchor(k)
		if m == nil {
			continue
		}
		eachInstr(m, func(in ssa.Instruction) {
			if fa, ok := in.(*ssa.FieldAddr); ok {
				t := fa.X.Type()
				if p, ok := t.Underlying().(*types.Pointer); ok {
					t = p.Elem()
				}
				if f := fieldOf(fa.X.Type(), fa.Field); f != nil && types.Identical(t, ai.T) {
					geom[f.Name()] = true
				}
			}
		})
	}
	st := ai.T.Underlying().(*types.Struct)
	for i := 0; i < st.NumFields(); i++ {
		f := st.Field(i)
		if f.Name() == ai.Mutex {
			continue
		}
		stores := findStores(c.P, f, nil)
		bad := ""
		nLocked := 0
		for _, s := range stores {
			fa := s.Addr.(*ssa.FieldAddr)
			if _, fresh := fa.X.(*ssa.Alloc); fresh && s.Parent().Signature.Recv() == nil {
				continue
			}
			switch {
			case geom[f.Name()]:
				bad = fmt.Sprintf("field %s (pool geometry / the bitmap) is written outside a constructor at %s", f.Name(), c.P.InstrPos(s))
			case unlockedStore[s] || !lockedStore[s]:
				bad = fmt.Sprintf("field %s is written at %s without %s.%s held exclusively on every path (or outside the allocator's methods)", f.Name(), c.P.InstrPos(s), ai.T.Obj().Name(), ai.Mutex)
			default:
				nLocked++
			}
		}
		key := fmt.Sprintf("%s field %s written only at construction", ai.Name, f.Name())
		if bad != "" {
			c.R.bad(rule, key, "-", "-", bad)
		} else if nLocked > 0 {
			c.R.ok(rule, key, "-", "-", fmt.Sprintf("%d store(s): on the fresh literal in a constructor, or (%d) in a method with the mutex held exclusively; not a geometry field", len(stores), nLocked))
		} else {
			c.R.ok(rule, key, "-", "-", fmt.Sprintf("%d store(s), all on the fresh literal in a constructor", len(stores)))
		}
	}
}

func ruleAllocate(c *Ctx, prefix string, ai *allocImpl, want map[string]bool) {
	fn := ai.Allocate
	ex := NewExplorer(c.P, c.Pure, fn)
	type res struct {
		n        int
		bad, why string
	}
	setSites := map[ssa.Instruction]*res{}
	clearSites := map[ssa.Instruction]*res{}
	ncSites := map[ssa.Instruction]*res{}
	var exitBad, fullBad, hintBad []string
	nSucc, nFull := 0, 0
	ex.Hooks.Label = func(st *State, in ssa.Instruction) string {
		op, call := ai.bitmapOp(ex, st, in)
		switch op {
		case "Set":
			return "set:" + ex.Canon(st, call.Call.Args[1]).S
		case "Clear":
			return "clear:" + ex.Canon(st, call.Call.Args[1]).S
		case "NextClear":
			return "nextclear"
		}
		if op != "" && mutatingBitOps[op] {
			return "mut:" + op
		}
		return ""
	}
	hintUsable := func(st *State) int {
		// three-valued "the hint names a free block of the pool"
		if regexp.MustCompile(`Allocator\)\.` + an("toIndex")).MatchString(fnCalls(fn)) {
			to16, _ := histFact(st, "nil", regexp.MustCompile(`^\(net\.IP\)\.To16\(\$1\.IP\)$`))
			cont, _ := histFact(st, "bool", regexp.MustCompile(`^\(\*net\.IPNet\)\.Contains\(&\$0\.`+`[A-Za-z_]+`+`,\$1\.IP\)$`))
			terr, _ := histFact(st, "nil", regexp.MustCompile(`\.`+an("toIndex")+`(@(?:[\w$]+·)?t\d+)?\(\$0,\$1\.IP\)#1$`))
			tst, _ := histFact(st, "bool", regexp.MustCompile(`^\(\*`+reQ(pkgBitset)+`\.BitSet\)\.Test\(\$0\.`+ai.Bitmap+`,conv<uint>\(.*\.`+an("toIndex")+`(@(?:[\w$]+·)?t\d+)?\(\$0,\$1\.IP\)#0\)\)$|^\(\*`+reQ(pkgBitset)+`\.BitSet\)\.Test\(\$0\.`+ai.Bitmap+`,.*\.`+an("toIndex")+`(@(?:[\w$]+·)?t\d+)?\(\$0,\$1\.IP\)#0\)$`))
			return and3(not3(to16), cont, terr, not3(tst))
		}
		tst, _ := histFact(st, "bool", regexp.MustCompile(`^\(\*`+reQ(pkgBitset)+`\.BitSet\)\.Test\(\$0\.`+ai.Bitmap+`,.*\.`+an("toOffset")+`(@(?:[\w$]+·)?t\d+)?\(\$0,\$1\.IP\)#0\)$`))
		return not3(tst)
	}
	ex.Hooks.Instr = func(st *State, in ssa.Instruction) {
		op, call := ai.bitmapOp(ex, st, in)
		switch op {
		case "Set":
			r := setSites[in]
			if r == nil {
				r = &res{}
				setSites[in] = r
			}
			r.n++
			ok, why := ai.indexProof(ex, st, call.Call.Args[1], false)
			if !ok {
				r.bad = fmt.Sprintf("Set(%s) without proof that the bit is clear: %s (abstract path %v)", shortName(ex.Canon(st, call.Call.Args[1]).S), why, st.Trail())
			} else {
				r.why = why
			}
		case "Clear":
			r := clearSites[in]
			if r == nil {
				r = &res{}
				clearSites[in] = r
			}
			r.n++
			// rollback: clears exactly the index set on this path
			ic := ex.Canon(st, call.Call.Args[1]).S
			if !st.seen["set:"+ic] {
				r.bad = fmt.Sprintf("Clear(%s) in Allocate does not undo a Set of the same index on this path", shortName(ic))
			}
		case "NextClear":
			r := ncSites[in]
			if r == nil {
				r = &res{}
				ncSites[in] = r
			}
			r.n++
			if k, ok := call.Call.Args[1].(*ssa.Const); !ok || constStr(k) != "0" {
				if okc, why := cursorStart(c, ex, st, ai, call.Call.Args[1]); okc {
					r.why = why
				} else {
					r.bad = "NextClear does not start searching at bit 0: free blocks below the start are never found"
					if why != "" {
						r.bad += " (the start is a field, but it is not a verified cursor: " + why + ")"
					}
				}
			}
			if hu := hintUsable(st); hu != 0 {
				r.bad = fmt.Sprintf("first-free search reached although the hint may name a free block of the pool (hint-usable=%s): the hint is not tried first / not honoured", tri(hu))
			}
		}
	}
	ex.Hooks.Exit = func(st *State, in ssa.Instruction) {
		ret, ok := in.(*ssa.Return)
		if !ok || len(ret.Results) != 2 {
			return
		}
		var sets, clears []string
		for l := range st.seen {
			if strings.HasPrefix(l, "set:") {
				sets = append(sets, strings.TrimPrefix(l, "set:"))
			}
			if strings.HasPrefix(l, "clear:") {
				clears = append(clears, strings.TrimPrefix(l, "clear:"))
			}
			if strings.HasPrefix(l, "mut:") {
				exitBad = append(exitBad, "Allocate uses bitmap."+strings.TrimPrefix(l, "mut:")+", which the rules do not model")
			}
		}
		out := []string{}
		for _, s := range sets {
			cl := false
			for _, c2 := range clears {
				if c2 == s {
					cl = true
				}
			}
			if !cl {
				out = append(out, s)
			}
		}
		errV := ex.ResolveDeep(st, ret.Results[1])
		errC := ex.Canon(st, ret.Results[1]).S
		isNoAddr := strings.HasSuffix(errC, "allocators.ErrNoAddrAvail")
		defErr := isNoAddr || definitelyNonNil(errV)
		if n, _ := ex.NilState(st, ret.Results[1]); n == 0 {
			defErr = true
		}
		// returned address
		ipC := ""
		if ld, ok := ret.Results[0].(*ssa.UnOp); ok {
			if al, ok := ld.X.(*ssa.Alloc); ok {
				ipC, _ = st.ReadLocal("new@" + anm(al) + ".IP")
			}
		}
		if defErr {
			if len(out) != 0 && len(exitBad) < 4 {
				exitBad = append(exitBad, fmt.Sprintf("error return at %s leaves bit %s set: the block is lost and the caller was told nothing was allocated", c.P.InstrPos(in), shortName(strings.Join(out, ","))))
			}
			if isNoAddr {
				nFull++
				ncok, _ := histFact(st, "bool", regexp.MustCompile(`NextClear(@(?:[\w$]+·)?t\d+)?\(\$0\.`+ai.Bitmap+`,(0|\$0\.\w+)\)#1$`))
				if ncok != 0 && len(fullBad) < 4 {
					fullBad = append(fullBad, fmt.Sprintf("ErrNoAddrAvail returned at %s on a path where the first-free search did not fail (ok=%s)", c.P.InstrPos(in), tri(ncok)))
				}
				if len(sets)+len(clears) != 0 && len(fullBad) < 4 {
					fullBad = append(fullBad, fmt.Sprintf("ErrNoAddrAvail returned at %s after the bitmap was modified", c.P.InstrPos(in)))
				}
			}
			return
		}
		nSucc++
		if len(out) != 1 {
			if len(exitBad) < 4 {
				exitBad = append(exitBad, fmt.Sprintf("return at %s without error has %d outstanding bit(s) set on the path (want exactly 1)", c.P.InstrPos(in), len(out)))
			}
			return
		}
		i := out[0]
		okIP := ipC == "(*"+ai.T.Obj().Pkg().Path()+"."+ai.T.Obj().Name()+")."+anRaw("toIP")+"($0,conv<uint32>("+i+"))" ||
			// (a narrowing conversion of the index is not the same index: the IPv4 table is at most 2^32
			// bits by construction, the prefix table may be larger)
			regexp.MustCompile(`^\(\*`+reQ(ai.T.Obj().Pkg().Path()+"."+ai.T.Obj().Name())+`\)\.`+an("toIP")+`(@(?:[\w$]+·)?t\d+)?\(\$0,(conv<[a-z0-9]+>\()?`+reQ(i)+`\)?\)(#0)?$`).MatchString(ipC) ||
			regexp.MustCompile(`^\(\*`+reQ(ai.T.Obj().Pkg().Path()+"."+ai.T.Obj().Name())+`\)\.`+an("toPrefix")+`(@(?:[\w$]+·)?t\d+)?\(\$0,(conv<(?:uint|uint64|uintptr)>\()?`+reQ(i)+`\)?\)(#0)?$`).MatchString(ipC)
		if !okIP && len(exitBad) < 4 {
			exitBad = append(exitBad, fmt.Sprintf("return at %s: the address returned (%s) is not the index→address conversion of the bit that was set (%s)", c.P.InstrPos(in), shortName(stripAt(ipC)), shortName(i)))
		}
		// HINT: when the hint is usable the block returned is the hint's
		if hu := hintUsable(st); hu == 1 {
			if st.seen["nextclear"] && len(hintBad) < 3 {
				hintBad = append(hintBad, "first-free search executed although the hint is usable")
			}
			if !regexp.MustCompile(`\.(`+an("toIndex")+`|`+an("toOffset")+`)(@(?:[\w$]+·)?t\d+)?\(\$0,\$1\.IP\)#0`).MatchString(i) && len(hintBad) < 3 {
				hintBad = append(hintBad, fmt.Sprintf("hint usable but the bit set is %s, not the hint's index", shortName(i)))
			}
		}
	}
	ex.Run()
	if ex.Exceeded {
		c.R.unk(prefix+"ALLOC.TESTSET", shortFn(fn)+" explore", c.P.Pos(fn.Pos()), shortFn(fn), "state budget exceeded")
	}
	emit := func(rule string, sites map[ssa.Instruction]*res, name, okMsg string) {
		n := 0
		for _, in := range viewInstrs(fn) {
			{
				r, ok := sites[in]
				if !ok {
					continue
				}
				n++
				key := fmt.Sprintf("%s %s#%d", shortFn(fn), name, n)
				if r.bad != "" {
					c.R.bad(rule, key, c.P.InstrPos(in), shortFn(fn), r.bad)
				} else {
					msg := okMsg
					if r.why != "" {
						msg = r.why
					}
					c.R.ok(rule, key, c.P.InstrPos(in), shortFn(fn), fmt.Sprintf("%s (%d abstract states)", msg, r.n))
				}
			}
		}
	}
	if want["TESTSET"] {
		emit(prefix+"ALLOC.TESTSET", setSites, "Set", "bit proved clear")
		emit(prefix+"ALLOC.ROLLBACK", clearSites, "Clear", "undoes the Set of the same index on an error path")
	}
	if want["SAMEINDEX"] {
		key := shortFn(fn) + " returns"
		if len(exitBad) > 0 {
			c.R.bad(prefix+"ALLOC.SAME-INDEX", key, c.P.Pos(fn.Pos()), shortFn(fn), strings.Join(dedup(exitBad), "; "))
		} else if nSucc == 0 {
			c.R.bad(prefix+"ALLOC.SAME-INDEX", key, c.P.Pos(fn.Pos()), shortFn(fn), "no successful return found")
		} else {
			c.R.ok(prefix+"ALLOC.SAME-INDEX", key, c.P.Pos(fn.Pos()), shortFn(fn), fmt.Sprintf("all %d abstract success returns hand out the index→address conversion of exactly the one bit set on the path; error returns leave no bit set", nSucc))
		}
	}
	if want["FULL"] {
		key := shortFn(fn) + " ErrNoAddrAvail"
		if len(fullBad) > 0 {
			c.R.bad(prefix+"FULL-IFF-FAIL", key, c.P.Pos(fn.Pos()), shortFn(fn), strings.Join(dedup(fullBad), "; "))
		} else if nFull == 0 {
			c.R.bad(prefix+"FULL-IFF-FAIL", key, c.P.Pos(fn.Pos()), shortFn(fn), "no path returns allocators.ErrNoAddrAvail: exhaustion is not reported as 'no address available'")
		} else {
			c.R.ok(prefix+"FULL-IFF-FAIL", key, c.P.Pos(fn.Pos()), shortFn(fn), fmt.Sprintf("%d abstract exits return ErrNoAddrAvail, all on the failed edge of NextClear(0) with no bitmap mutation", nFull))
		}
		emit(prefix+"FULL-IFF-FAIL", ncSites, "NextClear", "search starts at 0")
	}
	if want["HINT"] {
		emit(prefix+"HINT.FIRST", ncSites, "NextClear", "reached only when the hint is not usable")
		key := shortFn(fn) + " hint honoured"
		if len(hintBad) > 0 {
			c.R.bad(prefix+"HINT.FIRST", key, c.P.Pos(fn.Pos()), shortFn(fn), strings.Join(dedup(hintBad), "; "))
		} else {
			c.R.ok(prefix+"HINT.FIRST", key, c.P.Pos(fn.Pos()), shortFn(fn), "on every abstract success return with a usable hint the bit set is the hint's index and no first-free search ran")
		}
	}
}

func fnCalls(fn *ssa.Function) string {
	var sb strings.Builder
	eachInstr(fn, func(in ssa.Instruction) {
		if call, ok := in.(*ssa.Call); ok {
			if f := call.Call.StaticCallee(); f != nil {
				sb.WriteString(f.String())
				sb.WriteByte(' ')
			}
		}
	})
	return sb.String()
}

func ruleFree(c *Ctx, prefix string, ai *allocImpl) {
	fn := ai.Free
	ex := NewExplorer(c.P, c.Pure, fn)
	type res struct {
		n   int
		bad string
		why string
	}
	clearSites := map[ssa.Instruction]*res{}
	idxSites := map[ssa.Instruction]*res{}
	var exitBad []string
	nSucc, nDbl := 0, 0
	ex.Hooks.Label = func(st *State, in ssa.Instruction) string {
		op, call := ai.bitmapOp(ex, st, in)
		if op == "Clear" {
			return "clear:" + ex.Canon(st, call.Call.Args[1]).S
		}
		if op != "" && mutatingBitOps[op] {
			return "mut:" + op
		}
		return ""
	}
	ex.Hooks.Instr = func(st *State, in ssa.Instruction) {
		op, call := ai.bitmapOp(ex, st, in)
		if op == "Clear" {
			r := clearSites[in]
			if r == nil {
				r = &res{}
				clearSites[in] = r
			}
			r.n++
			ok, why := ai.indexProof(ex, st, call.Call.Args[1], true)
			if !ok {
				r.bad = fmt.Sprintf("Clear(%s) without proof that the bit is set: %s", shortName(ex.Canon(st, call.Call.Args[1]).S), why)
			} else {
				r.why = why
			}
		}
		if op == "Test" || op == "Clear" {
			// the index must be valid for this pool: containment (IPv6) / successful range test (IPv4)
			ic := ex.Canon(st, call.Call.Args[1]).S
			r := idxSites[in]
			if r == nil {
				r = &res{}
				idxSites[in] = r
			}
			r.n++
			if m := regexp.MustCompile(`(\(\*[^()]*\)\.` + an("toIndex") + `(@(?:[\w$]+·)?t\d+)?\(\$0,(.*)\))#0`).FindStringSubmatch(ic); m != nil {
				arg := m[3]
				errNil, _ := histFact(st, "nil", regexp.MustCompile(`^`+reQ(m[1])+`#1$`))
				cont, _ := histFact(st, "bool", regexp.MustCompile(`^\(\*net\.IPNet\)\.Contains\(&\$0\.[A-Za-z_]+,`+reQ(arg)+`\)$`))
				// the prefix must be (inside) one block: at least as long as the block size, 128 bits wide
				shorter, wide := -1, -1
				for _, k := range sortedKeys(st.hist) {
					f := st.hist[k]
					if f.Kind == "lt" && strings.HasPrefix(f.X, "(net.IPMask).Size(") && strings.HasSuffix(f.X, "#0") && f.Y == "$0.page" {
						shorter = b2i(f.Val)
					}
					if f.Kind == "eq" && strings.HasPrefix(f.X, "(net.IPMask).Size(") && strings.HasSuffix(f.X, "#1") {
						if f.Eq == "128" {
							wide = 1
						}
					}
				}
				if shorter != 0 || wide != 1 {
					r.bad = fmt.Sprintf("a block is looked up for a prefix that is not shown to be at least as long as the block size and 128 bits wide (shorter-than-block=%s, 128-bit=%s): a prefix larger than a block does not lie inside any block, yet its base address maps onto one", tri(shorter), tri(wide))
				} else if and3(errNil, cont) != 1 {
					r.bad = fmt.Sprintf("the bitmap is indexed with toIndex(%s), an absolute distance from the pool base, without establishing that the address lies inside the pool (Contains=%s, conversion-ok=%s): a prefix below the base maps onto another client's block", shortName(arg), tri(cont), tri(errNil))
				}
			} else if m := regexp.MustCompile(`(\(\*[^()]*\)\.` + an("toOffset") + `(@(?:[\w$]+·)?t\d+)?\(\$0,.*\))#0`).FindStringSubmatch(ic); m != nil {
				errNil, _ := histFact(st, "nil", regexp.MustCompile(`^`+reQ(m[1])+`#1$`))
				if errNil != 1 {
					r.bad = "the bitmap is indexed with toOffset's result although its range test did not succeed (error ignored)"
				}
			} else {
				r.bad = "bit index is not the result of the pool's address→index conversion: " + shortName(ic)
			}
		}
	}
	ex.Hooks.Exit = func(st *State, in ssa.Instruction) {
		ret, ok := in.(*ssa.Return)
		if !ok || len(ret.Results) != 1 {
			return
		}
		nclear := 0
		for l := range st.seen {
			if strings.HasPrefix(l, "clear:") {
				nclear++
			}
			if strings.HasPrefix(l, "mut:") || strings.HasPrefix(l, "set:") {
				exitBad = append(exitBad, "Free performs a bitmap mutation other than Clear")
			}
		}
		n, _ := ex.NilState(st, ret.Results[0])
		switch {
		case n == 1:
			nSucc++
			if nclear != 1 && len(exitBad) < 4 {
				exitBad = append(exitBad, fmt.Sprintf("successful return at %s cleared %d bits (want exactly 1)", c.P.InstrPos(in), nclear))
			}
		case n == 0:
			if nclear != 0 && len(exitBad) < 4 {
				exitBad = append(exitBad, fmt.Sprintf("error return at %s after clearing a bit: a failed Free must leave every allocation intact", c.P.InstrPos(in)))
			}
			tst, _ := histFact(st, "bool", regexp.MustCompile(`^\(\*`+reQ(pkgBitset)+`\.BitSet\)\.Test\(\$0\.`+ai.Bitmap+`,`))
			// the converse: "not outstanding" is answered only after the bit was found clear - a counter,
			// a flag or any other shortcut refuses to free a block that is outstanding
			if tst != 0 {
				if r, ok := ex.ResolveDeep(st, ret.Results[0]).(*ssa.Alloc); ok && namedOf(r.Type()) == modPath+"/plugins/allocators.ErrDoubleFree" && len(exitBad) < 4 {
					exitBad = append(exitBad, fmt.Sprintf("ErrDoubleFree is returned at %s on a path where the block's bit was not found clear (Test=%s): an outstanding block may be refused", c.P.InstrPos(in), tri(tst)))
				}
			}
			if tst == 0 {
				nDbl++
				r := ex.ResolveDeep(st, ret.Results[0])
				if al, ok := r.(*ssa.Alloc); !ok || namedOf(al.Type()) != modPath+"/plugins/allocators.ErrDoubleFree" {
					if len(exitBad) < 4 {
						exitBad = append(exitBad, fmt.Sprintf("freeing a block that is not outstanding returns %s at %s, want *allocators.ErrDoubleFree", shortName(ex.Canon(st, ret.Results[0]).S), c.P.InstrPos(in)))
					}
				}
			}
		default:
			if len(exitBad) < 4 {
				exitBad = append(exitBad, fmt.Sprintf("return at %s: cannot tell success from failure", c.P.InstrPos(in)))
			}
		}
	}
	ex.Run()
	emit := func(rule string, sites map[ssa.Instruction]*res, name, okMsg string) {
		n := 0
		for _, in := range viewInstrs(fn) {
			{
				r, ok := sites[in]
				if !ok {
					continue
				}
				n++
				key := fmt.Sprintf("%s %s#%d", shortFn(fn), name, n)
				if r.bad != "" {
					c.R.bad(rule, key, c.P.InstrPos(in), shortFn(fn), r.bad)
				} else {
					msg := okMsg
					if r.why != "" {
						msg = r.why
					}
					c.R.ok(rule, key, c.P.InstrPos(in), shortFn(fn), fmt.Sprintf("%s (%d abstract states)", msg, r.n))
				}
			}
		}
	}
	emit(prefix+"FREE.TESTCLEAR", clearSites, "Clear", "bit proved set")
	emit(prefix+"FREE.CONTAIN", idxSites, "bitmap index", "index derived from an address shown to lie inside the pool")
	key := shortFn(fn) + " returns"
	if len(exitBad) > 0 {
		c.R.bad(prefix+"FREE.ERR-NOEFFECT", key, c.P.Pos(fn.Pos()), shortFn(fn), strings.Join(dedup(exitBad), "; "))
	} else if nSucc == 0 || nDbl == 0 {
		c.R.bad(prefix+"FREE.ERR-NOEFFECT", key, c.P.Pos(fn.Pos()), shortFn(fn), fmt.Sprintf("Free's outcomes not exercised: %d success exits, %d double-free exits", nSucc, nDbl))
	} else {
		c.R.ok(prefix+"FREE.ERR-NOEFFECT", key, c.P.Pos(fn.Pos()), shortFn(fn), fmt.Sprintf("success ⇔ exactly one Clear; every error return (incl. %d ErrDoubleFree exits) leaves the bitmap untouched", nDbl))
	}
}

// ruleHintCallers: the lease plugins pass the stored address as hint and (range)
// refuse to start when the allocator answers anything else.
func ruleHintCallers(c *Ctx, rule string) {
	// range: setup re-allocates every stored lease with the stored IP as hint and compares
	ruleRangeRestart(c, rule)
	// prefix: Allocate(*prefix.Prefix) with the client's hint
	fn := c.P.Func("plugins/prefix", "*Handler", "Handle")
	if fn == nil {
		c.R.Fatalf("ANCHOR-UNRESOLVED: prefix.(*Handler).Handle")
		return
	}
	ss := statesAt(c, fn, func(in ssa.Instruction) bool {
		call, ok := in.(*ssa.Call)
		return ok && call.Call.IsInvoke() && call.Call.Method.Name() == "Allocate"
	}, nil)
	n := 0
	for _, in := range sortedInstrs(ss.Sites) {
		n++
		call := in.(*ssa.Call)
		bad := ""
		for _, st := range ss.Sites[in] {
			a := ss.Ex.Canon(st, call.Call.Args[0]).S
			if !regexp.MustCompile(`\.Prefix$`).MatchString(a) && !strings.HasPrefix(a, "new@") {
				bad = "hint passed to the allocator is not the client's IAPrefix hint: " + shortName(a)
			}
		}
		key := fmt.Sprintf("%s Allocate#%d hint", shortFn(fn), n)
		if bad != "" {
			c.R.bad(rule, key, c.P.InstrPos(in), shortFn(fn), bad)
		} else {
			c.R.ok(rule, key, c.P.InstrPos(in), shortFn(fn), "the allocator receives the hinted prefix of the current IAPrefix")
		}
	}
}

// ruleRangeRestart: in the range plugin's setup, every stored lease is
// re-allocated with its stored address as hint; an allocation error or a
// different answer aborts start-up.
func ruleRangeRestart(c *Ctx, rule string) {
	fn := c.P.Anchor("setupRange")
	if fn == nil {
		c.R.Fatalf("ANCHOR-UNRESOLVED: rangeplugin.setupRange")
		return
	}
	c.R.Functions[shortFn(fn)] = true
	ex := NewExplorer(c.P, c.Pure, fn)
	var alloc *ssa.Call
	allocInMapRange := false
	for _, f := range withInlinedHelpers(fn, 2) {
		for _, b := range f.Blocks {
			for _, in := range b.Instrs {
				if call, ok := in.(*ssa.Call); ok && call.Call.IsInvoke() && call.Call.Method.Name() == "Allocate" {
					// the re-marking call is the one made while ranging over the loaded records (a map);
					// other allocations of the setup (reservations, exclusions) are not restorations
					inMapRange := false
					for h, body := range InfoOf(f).LoopOf {
						if !body[b.Index] {
							continue
						}
						for _, hin := range f.Blocks[h].Instrs {
							if nx, ok := hin.(*ssa.Next); ok && !nx.IsString {
								inMapRange = true
							}
						}
					}
					if alloc == nil || (inMapRange && !allocInMapRange) {
						alloc, allocInMapRange = call, inMapRange
					}
				}
			}
		}
	}
	key := "setupRange re-marks stored leases"
	if alloc == nil {
		c.R.bad(rule, key, c.P.Pos(fn.Pos()), shortFn(fn), "setup does not re-allocate stored leases: after a restart the allocator would hand stored addresses to new clients")
		return
	}
	info := InfoOf(alloc.Parent())
	hdr := -1
	for h, body := range info.LoopOf {
		if body[alloc.Block().Index] {
			hdr = h
		}
	}
	var probs []string
	addp := func(s string) {
		for _, x := range probs {
			if x == s {
				return
			}
		}
		probs = append(probs, s)
	}
	if hdr < 0 {
		addp("the re-allocation is not inside a loop over the loaded records")
	}
	iters := 0
	ex.Hooks.Label = func(st *State, in ssa.Instruction) string {
		if in == ssa.Instruction(alloc) {
			return "realloc"
		}
		return ""
	}
	ex.Hooks.Instr = func(st *State, in ssa.Instruction) {
		if in != ssa.Instruction(alloc) {
			return
		}
		// hint = net.IPNet{IP: v.IP} with v the ranged record
		hint := ""
		if ld, ok := alloc.Call.Args[0].(*ssa.UnOp); ok {
			if al, ok := ld.X.(*ssa.Alloc); ok {
				hint, _ = st.ReadLocal("new@" + anm(al) + ".IP")
			}
		}
		if !regexp.MustCompile(`^next@(?:[\w$]+·)?t\d+#2\.IP$`).MatchString(hint) {
			addp("the hint is not the stored address of the record being restored: " + shortName(hint))
		}
		if v, _ := histFact(st, "nil", regexp.MustCompile(an("loadRecords")+`(@(?:[\w$]+·)?t\d+)?\(.*\)#1$`)); v != 1 {
			addp("leases are re-marked without loadRecords having succeeded")
		}
	}
	ex.Hooks.BackEdge = func(st *State, from, header *ssa.BasicBlock) {
		if header.Index != hdr || header.Parent() != alloc.Parent() {
			return
		}
		iters++
		if !st.seen["realloc"] {
			addp("an iteration over the stored leases skips the re-allocation")
		}
		ac := ex.Canon(st, alloc).S
		if v, _ := histFact(st, "nil", regexp.MustCompile(`^`+reQ(ac)+`#1$`)); v != 1 {
			addp("an allocation error while re-marking does not abort start-up")
		}
		// the answer is compared with the stored value and a mismatch aborts
		cmp := -1
		for _, k := range sortedKeys(st.hist) {
			f := st.hist[k]
			if f.Kind == "eqv" && strings.Contains(f.X+f.Y, reTemp.ReplaceAllString(ac, "")+"#0") || (f.Kind == "eqv" && strings.Contains(f.X+f.Y, ac+"#0")) || (f.Kind == "bool" && strings.Contains(f.X, ac+"#0") && strings.Contains(f.X, "Equal")) {
				cmp = b2i(f.Val)
			}
		}
		if cmp != 1 {
			addp("start-up continues without the allocator's answer having been compared equal to the stored address")
		}
		delete(st.seen, "realloc")
	}
	ex.Run()
	if iters == 0 {
		addp("loop body not reached by the exploration")
	}
	if len(probs) > 0 {
		c.R.bad(rule, key, c.P.InstrPos(alloc), shortFn(fn), strings.Join(probs, "; "))
	} else {
		c.R.ok(rule, key, c.P.InstrPos(alloc), shortFn(fn), "every stored lease is re-allocated with its stored address as hint; an error or a different answer aborts start-up")
	}
}

// withInlinedHelpers: fn plus the same-package helpers the explorer would
// explore inline from it (to the given depth).
func withInlinedHelpers(fn *ssa.Function, depth int) []*ssa.Function {
	out := []*ssa.Function{fn}
	seen := map[*ssa.Function]bool{fn: true}
	var walk func(f *ssa.Function, d int)
	walk = func(f *ssa.Function, d int) {
		if d <= 0 {
			return
		}
		for _, b := range f.Blocks {
			for _, in := range b.Instrs {
				if call, ok := in.(*ssa.Call); ok {
					if g := call.Call.StaticCallee(); g != nil && !seen[g] && len(g.Blocks) > 0 && defaultInline(f, g) {
						seen[g] = true
						out = append(out, g)
						walk(g, d-1)
					}
				}
			}
		}
	}
	walk(fn, depth)
	return out
}

// ruleAllocIndexBounded (ALLOC.INDEX-IN-POOL): every index handed to a
// mutating bitmap operation (Set grows the bitset to index+1 bits: an
// attacker-chosen index is an allocation of attacker-chosen size, i.e. a
// makeslice panic or memory exhaustion) is bounded by the pool: it is the
// result of NextClear on this bitmap, or the address→index conversion of an
// address the path has shown to lie inside the pool (Contains(<that same
// address>) for the IPv6 allocator; the IPv4 conversion's own range test,
// whose failure yields 0 - LINMAP/ERR-ZERO).
func ruleAllocIndexBounded(c *Ctx, rule string) {
	n := 0
	for _, ai := range findAllocImpls(c) {
		for _, m := range ai.Methods {
			if inlinedEverywhere(c, m) {
				continue
			}
			ex := NewExplorer(c.P, c.Pure, m)
			type res struct {
				n   int
				bad string
			}
			sites := map[ssa.Instruction]*res{}
			ex.Hooks.Instr = func(st *State, in ssa.Instruction) {
				op, call := ai.bitmapOp(ex, st, in)
				if op != "Set" {
					return
				}
				r := sites[in]
				if r == nil {
					r = &res{}
					sites[in] = r
				}
				r.n++
				ic := ex.Canon(st, call.Call.Args[1]).S
				switch {
				case regexp.MustCompile(`^\(\*` + reQ(pkgBitset) + `\.BitSet\)\.NextClear(@(?:[\w$]+·)?t\d+)?\(\$0\.` + ai.Bitmap + `,[^)]*\)#0$`).MatchString(ic):
				case regexp.MustCompile(`^\(\*[^()]*\)\.` + an("toOffset") + `(@(?:[\w$]+·)?t\d+)?\(\$0,.*\)#0$`).MatchString(ic):
				default:
					m := regexp.MustCompile(`^(\(\*[^()]*\)\.` + an("toIndex") + `(@(?:[\w$]+·)?t\d+)?\(\$0,(.*)\))#0$`).FindStringSubmatch(ic)
					if m == nil {
						r.bad = "Set(" + shortName(ic) + "): the index is neither NextClear's result nor the pool's address→index conversion"
						return
					}
					cont, _ := histFact(st, "bool", regexp.MustCompile(`^\(\*net\.IPNet\)\.Contains\(&\$0\.[A-Za-z_]+,`+reQ(m[3])+`\)$`))
					if cont != 1 {
						r.bad = fmt.Sprintf("Set(toIndex(%s)): the index is an absolute distance from the pool base, and the path has not shown that this very address lies inside the pool (Contains(%s)=%s): an address outside the pool yields an index of up to 2^64, which the bitset tries to grow to", shortName(m[3]), shortName(m[3]), tri(cont))
					}
				}
			}
			ex.Run()
			k := 0
			for _, in := range viewInstrs(m) {
				{
					r, ok := sites[in]
					if !ok {
						continue
					}
					k++
					n++
					key := fmt.Sprintf("%s Set#%d index bounded", shortFn(m), k)
					if r.bad != "" {
						c.R.bad(rule, key, c.P.InstrPos(in), shortFn(m), r.bad)
					} else {
						c.R.ok(rule, key, c.P.InstrPos(in), shortFn(m), fmt.Sprintf("index is NextClear's result or the conversion of an address shown inside the pool (%d abstract states)", r.n))
					}
				}
			}
		}
	}
	c.R.Floor(rule, 2)
}

// ruleConvPair: the prefix allocator's index<->prefix conversions are the
// library's inverse pair over the same base and unit: toIndex(ip) succeeds only
// with Offset(ip, B, U) and toPrefix(i) is AddPrefixes(B, i, U) for the same
// fields B, U of the allocator. A conversion computed in any other way is not
// known to be the inverse of its sibling (two blocks may share an index).
func ruleConvPair(c *Ctx, prefix string) {
	rule := prefix + "CONV-PAIR"
	toIdx, toPfx := c.P.Anchor("toIndex"), c.P.Anchor("toPrefix")
	if toIdx == nil || toPfx == nil {
		c.R.Fatalf("ANCHOR-UNRESOLVED: Allocator.toIndex/toPrefix")
		return
	}
	pkgA := reQ(modPath + "/plugins/allocators")
	conv := func(inner string) string { return `(?:conv<\w+>\()?` + inner + `\)?` }
	reOff := regexp.MustCompile(`^` + conv(pkgA+`\.Offset\(\$1,(\$0\.[\w.]+),`+conv(`(\$0\.\w+)`)+`\)#0`) + `$`)
	reAdd := regexp.MustCompile(`^` + pkgA + `\.AddPrefixes\((\$0\.[\w.]+),` + conv(`\$1`) + `,` + conv(`(\$0\.\w+)`) + `\)#0$`)
	var base, unit [2]string
	for i, fn := range []*ssa.Function{toIdx, toPfx} {
		c.R.Functions[shortFn(fn)] = true
		exits, exceeded := ExitsOf(c, fn)
		key := shortFn(fn) + " result"
		bad := ""
		n := 0
		for _, e := range exits {
			if len(e.Canon) != 2 {
				bad = "unexpected result arity"
				break
			}
			if i == 0 && !e.isSuccessExit() {
				// the conversion refuses an address only when the library's Offset does: any other
				// refusal makes a hint (or a Free) inside the pool unusable
				if v, _ := histFact(e.St, "nil", regexp.MustCompile(pkgA+`\.Offset(@(?:[\w$]+·)?t\d+)?\(.*\)#1$`)); v != 0 {
					bad = fmt.Sprintf("toIndex fails at %s on a path where allocators.Offset did not report an error: addresses the library can index are refused", c.P.InstrPos(e.Ret))
				}
				continue
			}
			if i == 1 {
				// toPrefix passes the library's (value, error) pair through: both results of one call
				if nn, _ := e.Ex.NilState(e.St, e.Ret.Results[1]); nn == 1 && isNilConst(e.Results[0]) {
					continue // an explicit failure return
				}
			}
			s := stripAt(e.Canon[0])
			// a defensive copy of the conversion's result is the same conversion
			if cm := regexp.MustCompile(`^append\((?:nil|new\[:0?\]),(.*)\)$`).FindStringSubmatch(s); cm != nil && i == 1 {
				s = cm[1]
			}
			var m []string
			if i == 0 {
				m = reOff.FindStringSubmatch(s)
			} else {
				m = reAdd.FindStringSubmatch(s)
			}
			if m == nil {
				bad = fmt.Sprintf("returns %s, which is not the library conversion of its argument over the allocator's base and unit", shortName(s))
				break
			}
			n++
			if base[i] == "" {
				base[i], unit[i] = m[1], m[2]
			} else if base[i] != m[1] || unit[i] != m[2] {
				bad = "different exits use different base/unit fields"
			}
		}
		if exceeded {
			c.R.unk(rule, key, c.P.Pos(fn.Pos()), shortFn(fn), "state budget exceeded")
		} else if bad != "" {
			c.R.bad(rule, key, c.P.Pos(fn.Pos()), shortFn(fn), bad)
		} else if n == 0 {
			c.R.bad(rule, key, c.P.Pos(fn.Pos()), shortFn(fn), "no successful return found")
		} else {
			c.R.ok(rule, key, c.P.Pos(fn.Pos()), shortFn(fn), fmt.Sprintf("%d successful exit(s), all the library conversion over (%s, %s)", n, base[i], unit[i]))
		}
	}
	key := "toIndex/toPrefix same base and unit"
	if base[0] != "" && base[1] != "" {
		if base[0] == base[1] && unit[0] == unit[1] {
			c.R.ok(rule, key, c.P.Pos(toIdx.Pos()), shortFn(toIdx), "both conversions use "+base[0]+" and "+unit[0])
		} else {
			c.R.bad(rule, key, c.P.Pos(toIdx.Pos()), shortFn(toIdx), fmt.Sprintf("toIndex measures from (%s, %s) but toPrefix builds from (%s, %s): the maps are not inverse", base[0], unit[0], base[1], unit[1]))
		}
	}
}

// mayLeaves: the values v may be a copy of, walking back through phis,
// reslicing, conversions, local variables (and their fields) and the results
// of same-package helpers. Flow-insensitive ("may").
func mayLeaves(p *Program, v ssa.Value) []ssa.Value {
	seen := map[ssa.Value]bool{}
	var out []ssa.Value
	var walk func(v ssa.Value, d int)
	rets := func(f *ssa.Function, k int, d int) {
		for _, b := range f.Blocks {
			if ret, ok := b.Instrs[len(b.Instrs)-1].(*ssa.Return); ok && k < len(ret.Results) {
				walk(ret.Results[k], d+1)
			}
		}
	}
	walk = func(v ssa.Value, d int) {
		if v == nil || seen[v] || d > 30 {
			return
		}
		seen[v] = true
		switch x := v.(type) {
		case *ssa.Phi:
			for _, e := range x.Edges {
				walk(e, d+1)
			}
			return
		case *ssa.Slice:
			walk(x.X, d+1)
			return
		case *ssa.Convert:
			walk(x.X, d+1)
			return
		case *ssa.ChangeType:
			walk(x.X, d+1)
			return
		case *ssa.TypeAssert:
			walk(x.X, d+1)
			return
		case *ssa.MakeInterface:
			walk(x.X, d+1)
			return
		case *ssa.ChangeInterface:
			walk(x.X, d+1)
			return
		case *ssa.Extract:
			if ta, ok := x.Tuple.(*ssa.TypeAssert); ok && x.Index == 0 {
				walk(ta.X, d+1)
				return
			}
			if call, ok := x.Tuple.(*ssa.Call); ok {
				if f := call.Call.StaticCallee(); f != nil && FirstParty(f) && len(f.Blocks) > 0 {
					rets(f, x.Index, d)
					return
				}
			}
		case *ssa.Call:
			if f := x.Call.StaticCallee(); f != nil && FirstParty(f) && len(f.Blocks) > 0 && f.Signature.Results().Len() == 1 {
				rets(f, 0, d)
				return
			}
			// methods returning (a view of) their receiver
			if f := x.Call.StaticCallee(); f != nil && !x.Call.IsInvoke() && len(x.Call.Args) > 0 {
				switch f.String() {
				case "(net.IP).To16", "(net.IP).To4":
					walk(x.Call.Args[0], d+1) // To4/To16 return the receiver itself or a subslice of it
					return
				}
			}
		case *ssa.Parameter:
			// context-insensitive: whatever any first-party caller passes
			g := x.Parent()
			idx := -1
			for i, q := range g.Params {
				if q == x {
					idx = i
				}
			}
			n := 0
			for _, site := range p.CallersOf(g) {
				cc := site.Common()
				if cc.StaticCallee() == g && idx >= 0 && idx < len(cc.Args) && !isFixture(site.Parent()) {
					n++
					walk(cc.Args[idx], d+1)
				}
			}
			if n > 0 {
				return
			}
		case *ssa.UnOp:
			if x.Op != token.MUL {
				break
			}
			switch a := x.X.(type) {
			case *ssa.Alloc:
				n := 0
				for _, r := range *a.Referrers() {
					if s, ok := r.(*ssa.Store); ok && s.Addr == ssa.Value(a) {
						n++
						walk(s.Val, d+1)
					}
				}
				if n > 0 {
					return
				}
			case *ssa.FieldAddr:
				if al, ok := a.X.(*ssa.Alloc); ok {
					n := 0
					for _, r := range *al.Referrers() {
						if fa, ok := r.(*ssa.FieldAddr); ok && fa.Field == a.Field {
							for _, r2 := range *fa.Referrers() {
								if s, ok := r2.(*ssa.Store); ok && s.Addr == ssa.Value(fa) {
									n++
									walk(s.Val, d+1)
								}
							}
						}
					}
					if n > 0 {
						return
					}
				}
			}
		}
		out = append(out, v)
	}
	walk(v, 0)
	return out
}

// ruleGeomAlias: (a) no first-party code writes through a slice that may be
// pool geometry (the fields the index<->address conversions read).
// allocators.AddPrefixes returns its argument itself for index 0, so the
// result of the index->prefix conversion may alias the stored base: writing
// into it (element store, copy, in-place append, binary.Put*) moves the whole
// pool, and every later index is computed from the wrong origin. (b) the
// address Allocate returns never aliases allocator-owned storage that is
// written through after construction (a scratch buffer reused between calls):
// every earlier answer would change with the next allocation.
func ruleGeomAlias(c *Ctx, prefix string) {
	rule := prefix + "ALLOC.GEOM-ALIAS"
	impls := findAllocImpls(c)
	ownFields := map[*types.Var]*allocImpl{}
	for _, ai := range impls {
		st := ai.T.Underlying().(*types.Struct)
		for i := 0; i < st.NumFields(); i++ {
			if f := st.Field(i); f.Name() != ai.Mutex && f.Name() != ai.Bitmap {
				ownFields[f] = ai
			}
		}
	}
	geom := map[string]bool{}
	for _, k := range []string{"toIndex", "toPrefix", "toOffset", "toIP"} {
		if m := c.P.Anchor(k); m != nil {
			eachInstr(m, func(in ssa.Instruction) {
				if fa, ok := in.(*ssa.FieldAddr); ok {
					if f := fieldOf(fa.X.Type(), fa.Field); f != nil && ownFields[f] != nil {
						geom[f.Name()] = true
					}
				}
			})
		}
	}
	// a field that only ever holds a buffer made by the allocator itself is working storage, not geometry
	for f := range ownFields {
		if !geom[f.Name()] {
			continue
		}
		stores := findStores(c.P, f, nil)
		onlyMade := len(stores) > 0
		for _, st := range stores {
			for _, l := range mayLeaves(c.P, st.Val) {
				switch l.(type) {
				case *ssa.MakeSlice, *ssa.Alloc: // make([]T, n) / make([]T, const) (a fresh array)
				default:
					onlyMade = false
				}
			}
		}
		if onlyMade {
			delete(geom, f.Name())
		}
	}
	// the allocator fields a slice may be (a view of)
	fieldsOf := func(v ssa.Value) []*types.Var {
		var out []*types.Var
		for _, l := range mayLeaves(c.P, v) {
			if x, ok := l.(*ssa.UnOp); ok {
				for a := x.X; a != nil; {
					fa, ok := a.(*ssa.FieldAddr)
					if !ok {
						break
					}
					if f := fieldOf(fa.X.Type(), fa.Field); f != nil && ownFields[f] != nil {
						out = append(out, f)
						break
					}
					a = fa.X
				}
			}
		}
		return out
	}
	written := map[*types.Var]string{} // allocator field -> a site that writes through it
	n := 0
	for _, fn := range c.P.SrcFuncs() {
		if isFixture(fn) {
			continue
		}
		for _, b := range fn.Blocks {
			for _, in := range b.Instrs {
				var dst ssa.Value
				what := ""
				switch x := in.(type) {
				case *ssa.Store:
					if ia, ok := x.Addr.(*ssa.IndexAddr); ok {
						if _, isSlice := ia.X.Type().Underlying().(*types.Slice); isSlice {
							dst, what = ia.X, "element store into"
						}
					}
				case *ssa.Call:
					if bi, ok := x.Call.Value.(*ssa.Builtin); ok && len(x.Call.Args) > 0 {
						switch bi.Name() {
						case "copy":
							dst, what = x.Call.Args[0], "copy into"
						case "append":
							if sl, ok := x.Call.Args[0].(*ssa.Slice); ok {
								dst, what = sl.X, "in-place append over" // append(s[:k], ...) overwrites s's tail
							}
						}
					} else if f := x.Call.StaticCallee(); f != nil && fnPkgPath(f) == "encoding/binary" && strings.HasPrefix(f.Name(), "Put") {
						for _, a := range x.Call.Args {
							if isByteSlice(a.Type()) {
								dst, what = a, "binary."+f.Name()+" into"
							}
						}
					}
				}
				if dst == nil || !isByteSlice(dst.Type()) {
					continue
				}
				n++
				for _, f := range fieldsOf(dst) {
					if _, ok := written[f]; !ok {
						written[f] = c.P.InstrPos(in)
					}
					if geom[f.Name()] {
						c.R.bad(rule, fmt.Sprintf("%s %s#%d", shortFn(fn), strings.Fields(what)[0], n), c.P.InstrPos(in), shortFn(fn), fmt.Sprintf("%s a slice that may be the allocator's field %s (allocators.AddPrefixes returns its argument itself for index 0): the pool base can be overwritten in place", what, f.Name()))
					}
				}
			}
		}
	}
	c.R.ok(rule, "writes through byte slices", "-", "-", fmt.Sprintf("%d first-party element store / copy / in-place append / binary.Put sites on byte slices examined", n))
	// (b) what Allocate hands out
	for _, ai := range impls {
		key := shortFn(ai.Allocate) + " result storage"
		bad := ""
		for _, b := range ai.Allocate.Blocks {
			ret, ok := b.Instrs[len(b.Instrs)-1].(*ssa.Return)
			if !ok || len(ret.Results) == 0 {
				continue
			}
			// the IPNet result: its IP field, wherever it was assigned
			for _, l := range mayLeaves(c.P, ret.Results[0]) {
				_ = l
			}
		}
		// every store into an IP field of a net.IPNet local of Allocate, and every IPNet literal it returns
		eachInstr(ai.Allocate, func(in ssa.Instruction) {
			s, ok := in.(*ssa.Store)
			if !ok || !isByteSlice(s.Val.Type()) {
				return
			}
			fa, ok := s.Addr.(*ssa.FieldAddr)
			if !ok || namedOf(fa.X.Type()) != "net.IPNet" {
				return
			}
			for _, f := range fieldsOf(s.Val) {
				if at, ok := written[f]; ok && ownFields[f] == ai {
					bad = fmt.Sprintf("the address returned (%s) may be the allocator's own field %s, which is written through at %s: every earlier answer changes with a later call", c.P.InstrPos(in), f.Name(), at)
				}
			}
		})
		if bad != "" {
			c.R.bad(rule, key, c.P.Pos(ai.Allocate.Pos()), shortFn(ai.Allocate), bad)
		} else {
			c.R.ok(rule, key, c.P.Pos(ai.Allocate.Pos()), shortFn(ai.Allocate), "the returned address never aliases allocator storage that is written after construction")
		}
	}
}

func isByteSlice(t types.Type) bool {
	s, ok := t.Underlying().(*types.Slice)
	if !ok {
		return false
	}
	b, ok := s.Elem().Underlying().(*types.Basic)
	return ok && b.Kind() == types.Uint8
}

// ---- search cursor ------------------------------------------------------------
//
// An allocator may keep a field c ("first free", "search from") and start its
// first-free search at c instead of 0. That is the same search exactly when
// the invariant  I: every bit below c is set  holds whenever the mutex is free.
// cursorInvariant decides I inductively from the shape of every write to c
// and every Clear in the allocator's methods:
//   - c is written only in methods of the allocator, with the mutex held;
//   - a store c = v is one of
//       lower:    the path established v < c            (lowering c always keeps I)
//       found:    v = r,   r = NextClear(c) on its ok edge    (all of [c, r) was found set)
//       past:     v = r+1, r as above, and bit r is Set on the path before the section ends
//       full:     v = Len(), on the failed edge of NextClear(c)   (everything from c on is set)
//       on-it:    v = x+1, the path established x == c, and bit x is Set on the path
//   - after a Clear(i), the path either established ¬(i < c) or stores c = i.
// The zero value (c = 0) satisfies I trivially.

type cursorVerdict struct {
	ok  bool
	why string
	n   int
}

var cursorMemo = map[string]*cursorVerdict{}

func cursorInvariant(c *Ctx, ai *allocImpl, field string) *cursorVerdict {
	mk := ai.Name + "." + field
	if v, ok := cursorMemo[mk]; ok {
		return v
	}
	res := &cursorVerdict{ok: true}
	cursorMemo[mk] = res
	fail := func(format string, args ...interface{}) {
		if res.ok {
			res.ok, res.why = false, fmt.Sprintf(format, args...)
		}
	}
	var fvar *types.Var
	st := ai.T.Underlying().(*types.Struct)
	for i := 0; i < st.NumFields(); i++ {
		if st.Field(i).Name() == field {
			fvar = st.Field(i)
		}
	}
	if fvar == nil {
		fail("no field %s", field)
		return res
	}
	if b, ok := fvar.Type().Underlying().(*types.Basic); !ok || b.Info()&types.IsUnsigned == 0 {
		fail("the search start %s is not an unsigned integer field", field)
		return res
	}
	inMethod := map[*ssa.Function]bool{}
	for _, m := range ai.Methods {
		for _, f := range inlineFuncs(m) {
			inMethod[f] = true
		}
	}
	for _, s := range findStores(c.P, fvar, nil) {
		if !inMethod[s.Parent()] {
			if k, ok := s.Val.(*ssa.Const); ok && constStr(k) == "0" {
				continue
			}
			fail("%s is written at %s outside the allocator's methods", field, c.P.InstrPos(s))
		}
	}
	cs := "$0." + field
	bm := "$0." + ai.Bitmap
	ncRe := regexp.MustCompile(`^\(\*` + reQ(pkgBitset) + `\.BitSet\)\.NextClear\(` + reQ(bm) + `,` + reQ(cs) + `\)#0$`)
	ncOK := "b:(*" + pkgBitset + ".BitSet).NextClear(" + bm + "," + cs + ")#1"
	lenC := "(*" + pkgBitset + ".BitSet).Len(" + bm + ")"
	for _, m := range ai.Methods {
		if inlinedEverywhere(c, m) {
			continue
		}
		ex := NewExplorer(c.P, c.Pure, m)
		ex.Hooks.Label = func(st *State, in ssa.Instruction) string {
			op, call := ai.bitmapOp(ex, st, in)
			switch op {
			case "Set":
				return "cset:" + ex.Canon(st, call.Call.Args[1]).S
			case "Clear":
				return "cclear:" + ex.Canon(st, call.Call.Args[1]).S
			}
			return ""
		}
		ltTrue := func(st *State, x, y string) int { // 1: x<y established, 0: ¬(x<y) established, -1: unknown
			for _, f := range st.live {
				if f.Kind == "lt" && f.X == x && f.Y == y {
					return b2i(f.Val)
				}
			}
			return -1
		}
		eqTrue := func(st *State, x, y string) bool {
			for _, f := range st.live {
				if f.Kind == "eqv" && f.Val && ((f.X == x && f.Y == y) || (f.X == y && f.Y == x)) {
					return true
				}
			}
			return false
		}
		ex.Hooks.Instr = func(st *State, in ssa.Instruction) {
			sto, ok := in.(*ssa.Store)
			if !ok {
				return
			}
			fa, ok := sto.Addr.(*ssa.FieldAddr)
			if !ok || fieldOf(fa.X.Type(), fa.Field) != fvar {
				return
			}
			res.n++
			st.seen["curstore"] = true
			if ex.Canon(st, fa.X).S != "$0" {
				fail("%s of another allocator is written at %s", field, c.P.InstrPos(in))
				return
			}
			if !st.Holds("$0."+ai.Mutex, 'W') {
				fail("%s is written at %s without the mutex", field, c.P.InstrPos(in))
				return
			}
			v := ex.Canon(st, sto.Val).S
			okEdge := func() int {
				if f, ok := st.hist[ncOK]; ok {
					return b2i(f.Val)
				}
				return -1
			}
			switch {
			case ltTrue(st, v, cs) == 1:
				st.seen["cur:="+v] = true // lower
			case ncRe.MatchString(v) && okEdge() == 1:
				st.seen["cur:="+v] = true // found
			case strings.HasPrefix(v, "(") && strings.HasSuffix(v, " + 1)") && ncRe.MatchString(v[1:len(v)-5]) && okEdge() == 1:
				st.seen["needset:"+v[1:len(v)-5]] = true // past
			case v == lenC && okEdge() == 0:
				// full
			case strings.HasPrefix(v, "(") && strings.HasSuffix(v, " + 1)") && (eqTrue(st, v[1:len(v)-5], cs) || v[1:len(v)-5] == cs):
				x := v[1 : len(v)-5]
				if x == cs {
					// c++ : some index equal to c must be set on the path
					found := false
					for l := range st.seen {
						if strings.HasPrefix(l, "cset:") && eqTrue(st, strings.TrimPrefix(l, "cset:"), cs) {
							found = true
						}
					}
					for _, f := range st.live {
						if f.Kind == "eqv" && f.Val && (f.X == cs || f.Y == cs) {
							o := f.X
							if o == cs {
								o = f.Y
							}
							st.seen["needset:"+o] = true
							found = true
						}
					}
					if !found {
						fail("%s is advanced at %s although no index equal to it is known to be set", field, c.P.InstrPos(in))
					}
				} else {
					st.seen["needset:"+x] = true // on-it
				}
			default:
				fail("%s = %s at %s: the new search start is not shown to have only set bits below it (none of: lowered, NextClear's result, its successor, Len() when full, successor of an index equal to it)", field, shortName(v), c.P.InstrPos(in))
			}
		}
		ex.Hooks.Exit = func(st *State, in ssa.Instruction) {
			if _, ok := in.(*ssa.Return); !ok {
				return
			}
			for l := range st.seen {
				if strings.HasPrefix(l, "needset:") {
					x := strings.TrimPrefix(l, "needset:")
					if !st.seen["cset:"+x] {
						fail("%s was moved past index %s, which is not Set on the path ending at %s", field, shortName(x), c.P.InstrPos(in))
					}
				}
				if strings.HasPrefix(l, "cclear:") {
					x := strings.TrimPrefix(l, "cclear:")
					if st.seen["cur:="+x] || ltTrue(st, x, cs) == 0 {
						continue
					}
					if ncRe.MatchString(x) && !st.seen["curstore"] {
						continue // the index NextClear(c) returned is ≥ c, and c has not moved on this path
					}
					fail("bit %s is cleared but %s is not lowered to it on the path ending at %s (nor is it known to be ≥ %s)", shortName(x), field, c.P.InstrPos(in), field)
				}
			}
		}
		ex.Run()
		if ex.Exceeded {
			fail("state budget exceeded in %s", shortFn(m))
		}
	}
	return res
}

// cursorStart: v is a load of an allocator field used as a verified search cursor.
func cursorStart(c *Ctx, ex *Explorer, st *State, ai *allocImpl, v ssa.Value) (bool, string) {
	s := ex.Canon(st, v).S
	if !strings.HasPrefix(s, "$0.") || strings.ContainsAny(s[3:], ".[(") {
		return false, ""
	}
	cv := cursorInvariant(c, ai, s[3:])
	if cv.ok {
		return true, fmt.Sprintf("search starts at the cursor %s; every write of it (%d) keeps all bits below it set, and every Clear lowers it", s[3:], cv.n)
	}
	return false, cv.why
}
