package main

import (
	"fmt"
	"go/token"
	"go/types"
	"regexp"
	"strconv"
	"strings"

	"golang.org/x/tools/go/ssa"
)

// ---- tiny linear-term evaluator over canonical strings -----------------------

type linTerm struct {
	c    int64
	vars map[string]int64
	ok   bool
}

var reConvParam = regexp.MustCompile(`conv<[a-z0-9]+>\(([^()]*)\)`)

// parseLin parses "(a + b)", "(128 - conv<uint>($2))", "$2", "64".
func parseLin(s string) linTerm {
	for reConvParam.MatchString(s) {
		s = reConvParam.ReplaceAllString(s, "$1")
	}
	s = strings.TrimSpace(s)
	if n, err := strconv.ParseInt(s, 10, 64); err == nil {
		return linTerm{c: n, vars: map[string]int64{}, ok: true}
	}
	if strings.HasPrefix(s, "(") && strings.HasSuffix(s, ")") {
		// find the top-level operator
		depth := 0
		for i := 1; i < len(s)-1; i++ {
			switch s[i] {
			case '(':
				depth++
			case ')':
				depth--
			case ' ':
				if depth == 0 && i+2 < len(s) && (s[i+1] == '+' || s[i+1] == '-') && s[i+2] == ' ' {
					l, r := parseLin(s[1:i]), parseLin(s[i+3:len(s)-1])
					if !l.ok || !r.ok {
						return linTerm{}
					}
					out := linTerm{c: l.c, vars: map[string]int64{}, ok: true}
					for k, v := range l.vars {
						out.vars[k] = v
					}
					sign := int64(1)
					if s[i+1] == '-' {
						sign = -1
					}
					out.c += sign * r.c
					for k, v := range r.vars {
						out.vars[k] += sign * v
					}
					return out
				}
			}
		}
		return linTerm{}
	}
	if strings.ContainsAny(s, " ") {
		return linTerm{}
	}
	return linTerm{vars: map[string]int64{s: 1}, ok: true}
}

func linSum(a, b linTerm) (int64, bool) {
	if !a.ok || !b.ok {
		return 0, false
	}
	vars := map[string]int64{}
	for k, v := range a.vars {
		vars[k] += v
	}
	for k, v := range b.vars {
		vars[k] += v
	}
	for _, v := range vars {
		if v != 0 {
			return 0, false
		}
	}
	return a.c + b.c, true
}

// ---- C20 ----------------------------------------------------------------------

var arithExceptions = map[string]string{
	"github.com/coredhcp/coredhcp/plugins/allocators.Offset sub hi-lo": "operands were swapped after bytes.Compare so that a ≥ b lexicographically (big-endian ⇒ numerically), hence ah ≥ bh: the raw subtraction cannot wrap",
	"github.com/coredhcp/coredhcp/plugins/allocators.Offset borrow#2":  "same ordering argument: the 128-bit difference a − b is non-negative, so the final borrow is 0 and may be discarded",
	"github.com/coredhcp/coredhcp/plugins/allocators.Offset add final": "distanceHigh < 2^(128−p) was established, so distanceHigh<<(p−64) has its low p−64 bits clear and distanceLow>>(128−p) < 2^(p−64): the sum cannot carry",
}

func isU64(t types.Type) bool {
	b, ok := t.Underlying().(*types.Basic)
	return ok && (b.Kind() == types.Uint64 || b.Kind() == types.Uint || b.Kind() == types.Uintptr)
}

func ruleArith(c *Ctx, prefix string) {
	pkgA := modPath + "/plugins/allocators"
	for _, name := range []string{"Offset", "AddPrefixes"} {
		fn := c.P.Func("plugins/allocators", "", name)
		if fn == nil {
			c.R.Fatalf("ANCHOR-UNRESOLVED: allocators.%s", name)
			continue
		}
		c.R.Functions[shortFn(fn)] = true
		ex := NewExplorer(c.P, c.Pure, fn)
		type res struct {
			n        int
			bad, why string
			desc     string
		}
		sites := map[ssa.Instruction]*res{}
		get := func(in ssa.Instruction, desc string) *res {
			r := sites[in]
			if r == nil {
				r = &res{desc: desc}
				sites[in] = r
			}
			r.n++
			return r
		}
		var errZero []string
		nOverflowExits := 0
		ex.Hooks.Instr = func(st *State, in ssa.Instruction) {
			bo, ok := in.(*ssa.BinOp)
			if !ok || !isU64(bo.Type()) {
				return
			}
			_, cx := bo.X.(*ssa.Const)
			_, cy := bo.Y.(*ssa.Const)
			switch bo.Op {
			case token.SHL:
				xs, ss := ex.Canon(st, bo.X).S, ex.Canon(st, bo.Y).S
				r := get(in, "shl")
				if cx {
					// constant shifted: the count must stay below the width
					s := parseLin(ss)
					okc := false
					if s.ok && len(s.vars) == 1 {
						// count = K - v : need v > K-64 (and v ≤ K by the stated domain)
						for v, coef := range s.vars {
							if coef == -1 {
								for _, f := range st.live {
									if f.Kind == "lt" && f.Val && f.Y == v {
										if n, err := strconv.ParseInt(f.X, 10, 64); err == nil && n >= s.c-64 {
											okc = true
										}
									}
									// normal form: n < v is rendered !(v < n+1)
									if f.Kind == "lt" && !f.Val && f.X == v {
										if m, err := strconv.ParseInt(f.Y, 10, 64); err == nil && m-1 >= s.c-64 {
											okc = true
										}
									}
								}
							}
						}
					}
					if okc {
						r.why = "constant shifted by a count below 64 (lower bound of the prefix length established; upper bound 128 is the function's stated domain)"
					} else {
						r.bad = fmt.Sprintf("constant shifted left by %s without a fact keeping the count below 64", shortName(ss))
					}
					return
				}
				// x << s needs x < 2^(64-s)
				s := parseLin(ss)
				proved := ""
				for _, k := range sortedKeys(st.live) {
					f := st.live[k]
					var kexp string
					switch {
					case f.Kind == "lt" && f.Val && f.X == xs:
						if m := regexp.MustCompile(`^\(1 << (.*)\)$`).FindStringSubmatch(f.Y); m != nil {
							kexp = m[1]
						}
					case f.Kind == "eq" && f.Eq == "0":
						if strings.HasPrefix(f.X, "("+xs+" >> ") && strings.HasSuffix(f.X, ")") {
							kexp = f.X[len("("+xs+" >> ") : len(f.X)-1]
						}
					}
					if kexp == "" {
						continue
					}
					if sum, ok := linSum(parseLin(kexp), s); ok && sum <= 64 {
						proved = fmt.Sprintf("guard %s gives x < 2^(%s); shift count %s; exponents sum to %d ≤ 64", shortName(f.String()), shortName(kexp), shortName(ss), sum)
					}
				}
				// a zero shift count needs no guard: count = 64 - v with v == 64 established
				if proved == "" && s.ok && len(s.vars) == 1 {
					for v, coef := range s.vars {
						if coef == -1 {
							ge, le := false, false
							for _, f := range st.live {
								if f.Kind == "lt" && f.X == v && f.Y == fmt.Sprint(s.c) && !f.Val {
									ge = true // v >= c
								}
								if f.Kind == "lt" && f.X == fmt.Sprint(s.c) && f.Y == v && !f.Val {
									le = true // v <= c
								}
								if f.Kind == "lt" && f.X == v && f.Y == fmt.Sprint(s.c+1) && f.Val {
									le = true // v < c+1 (normal form of v <= c)
								}
							}
							if ge && le {
								proved = "shift count is 0 on this path (" + v + " == " + fmt.Sprint(s.c) + ")"
							}
						}
					}
				}
				if proved != "" {
					r.why = proved
				} else {
					r.bad = fmt.Sprintf("%s << %s can drop high bits: no dominating guard bounds the shifted value by 2^(64 − count) (abstract path %v)", shortName(xs), shortName(ss), st.Trail())
				}
			case token.ADD, token.SUB, token.MUL:
				if cx || cy {
					return
				}
				kind := map[token.Token]string{token.ADD: "add", token.SUB: "sub", token.MUL: "mul"}[bo.Op]
				r := get(in, kind)
				if bo.Op == token.ADD {
					// combining limbs: (hi << s) + (lo >> r) is a 128-bit shift split over two words, so s + r = 64
					l, okl := ex.Resolve(st, bo.X).(*ssa.BinOp)
					rr, okr := ex.Resolve(st, bo.Y).(*ssa.BinOp)
					if okl && okr && l.Op == token.SHR && rr.Op == token.SHL {
						l, rr = rr, l
					}
					if okl && okr && l.Op == token.SHL && rr.Op == token.SHR {
						sc, rc := ex.Canon(st, l.Y).S, ex.Canon(st, rr.Y).S
						if sum, ok := linSum(parseLin(sc), parseLin(rc)); !ok || sum != 64 {
							r.bad = fmt.Sprintf("the two limbs are combined with shift counts %s and %s, which do not add up to 64: the halves of the 128-bit distance are misaligned (distinct blocks collapse onto one index)", shortName(sc), shortName(rc))
							return
						}
					}
				}
				ek := ""
				if name == "Offset" && bo.Op == token.SUB {
					ek = fn.String() + " sub hi-lo"
				}
				if name == "Offset" && bo.Op == token.ADD {
					ek = fn.String() + " add final"
				}
				if why, ok := arithExceptions[ek]; ok && ek != "" {
					// the exception is tied to the operand-ordering / guard facts it cites
					if bo.Op == token.SUB {
						if v, _ := histFact(st, "lt", regexp.MustCompile(`^bytes\.Compare\(`)); v == -1 {
							r.bad = "raw limb subtraction without the operand ordering (bytes.Compare swap) the exception relies on"
							return
						}
					}
					r.why = "table exception: " + why
					return
				}
				r.bad = fmt.Sprintf("raw 64-bit %s of two variable limbs (%s): wrap-around is neither detected (math/bits with the carry consumed) nor excluded by a recorded argument", kind, shortName(stripAt(ex.Canon(st, bo).S)))
			}
		}
		ex.Hooks.Exit = func(st *State, in ssa.Instruction) {
			ret, ok := in.(*ssa.Return)
			if !ok || len(ret.Results) != 2 {
				return
			}
			if strings.HasSuffix(ex.Canon(st, ret.Results[1]).S, "allocators.ErrOverflow") {
				// "overflow only when the result needs more than 64 / 128 bits": the exit is justified by
				// one of the conditions that mean exactly that - a limb operation's carry / borrow / high
				// word is non-zero, a shifted-out part is non-zero, the high limb exceeds what the shift
				// leaves room for, or the unit is zero with a non-zero count
				just := false
				for _, h := range st.HistStrings() {
					h = stripAt(h)
					switch {
					case strings.Contains(h, "math/bits.") && strings.Contains(h, "#") && strings.HasSuffix(h, "∉ {0}"):
						just = true
					case strings.Contains(h, " >> ") && strings.HasSuffix(h, "∉ {0}"):
						just = true
					case strings.Contains(h, "math/bits.Sub64") && strings.Contains(h, ">= (1 << "):
						just = true
					case regexp.MustCompile(`^\$\d+ == 0$`).MatchString(h):
						just = true
					}
				}
				if !just {
					errZero = append(errZero, fmt.Sprintf("ErrOverflow is returned at %s on a path that established no overflow condition of a recognised kind (non-zero carry / borrow / high word / shifted-out part, high limb ≥ 2^(128−p), zero unit): a representable result may be refused", c.P.InstrPos(in)))
				}
				nOverflowExits++
				r0 := ex.Canon(st, ret.Results[0]).S
				rv := ex.ResolveDeep(st, ret.Results[0])
				zero := r0 == "0"
				if sl, ok := rv.(*ssa.Slice); ok {
					if n, ok := arrayLen(sl.X.Type()); ok && n == 0 {
						zero = true
					}
				}
				if ms, ok := rv.(*ssa.MakeSlice); ok {
					if n, ok := constInt(ms.Len); ok && n == 0 {
						zero = true
					}
				}
				if k, ok := rv.(*ssa.Const); ok && k.Value == nil {
					zero = true
				}
				if !zero {
					errZero = append(errZero, fmt.Sprintf("ErrOverflow is returned at %s together with a non-zero result (%s): a caller ignoring the error uses a wrapped value", c.P.InstrPos(in), shortName(stripAt(r0))))
				}
			}
		}
		ex.Run()
		// math/bits carries
		nb := 0
		{
			for _, in := range viewInstrs(fn) { // the function and the helpers its body was split into
				call, ok := in.(*ssa.Call)
				if !ok {
					continue
				}
				f := call.Call.StaticCallee()
				if f == nil || fnPkgPath(f) != "math/bits" {
					continue
				}
				nb++
				key := fmt.Sprintf("%s %s#%d carry", shortFn(fn), f.Name(), nb)
				idx := 1
				if f.Name() == "Mul64" {
					idx = 0 // hi
				}
				consumed, how := carryConsumed(call, idx)
				if !consumed {
					// through a local, a struct field or a helper's result
					for _, r := range *call.Referrers() {
						if e, ok := r.(*ssa.Extract); ok && e.Index == idx {
							consumed, how = flowsTo(c, fn, e, func(u ssa.Instruction, v ssa.Value) (bool, string) {
								switch x := u.(type) {
								case *ssa.Call:
									if f := x.Call.StaticCallee(); f != nil && fnPkgPath(f) == "math/bits" {
										return true, "fed (through locals / a helper's result) to the next limb operation " + f.Name()
									}
								case *ssa.BinOp:
									if x.Op == token.NEQ || x.Op == token.EQL {
										return true, "compared with zero (overflow test)"
									}
								}
								return false, ""
							})
						}
					}
				}
				ek := fmt.Sprintf("%s borrow#%d", fn.String(), nb)
				if consumed {
					c.R.ok(prefix+"ARITH.GUARDED", key, c.P.InstrPos(in), shortFn(fn), how)
				} else if why, ok := arithExceptions[ek]; ok {
					c.R.ok(prefix+"ARITH.GUARDED", key, c.P.InstrPos(in), shortFn(fn), "table exception: "+why)
				} else {
					c.R.bad(prefix+"ARITH.GUARDED", key, c.P.InstrPos(in), shortFn(fn), fmt.Sprintf("the %s result of math/bits.%s is discarded: an overflow of this limb operation goes unnoticed", map[int]string{0: "high", 1: "carry/borrow"}[idx], f.Name()))
				}
			}
		}
		n := 0
		for _, in := range viewInstrs(fn) {
			{
				r, ok := sites[in]
				if !ok {
					continue
				}
				n++
				key := fmt.Sprintf("%s %s#%d", shortFn(fn), r.desc, n)
				if r.bad != "" {
					c.R.bad(prefix+"ARITH.GUARDED", key, c.P.InstrPos(in), shortFn(fn), r.bad)
				} else {
					c.R.ok(prefix+"ARITH.GUARDED", key, c.P.InstrPos(in), shortFn(fn), fmt.Sprintf("%s (%d abstract states)", r.why, r.n))
				}
			}
		}
		key := shortFn(fn) + " overflow returns"
		if len(errZero) > 0 {
			c.R.bad(prefix+"ARITH.ERR-ZERO", key, c.P.Pos(fn.Pos()), shortFn(fn), strings.Join(dedup(errZero), "; "))
		} else if nOverflowExits == 0 {
			c.R.bad(prefix+"ARITH.ERR-ZERO", key, c.P.Pos(fn.Pos()), shortFn(fn), "no path returns ErrOverflow: overflow can only be silent")
		} else {
			c.R.ok(prefix+"ARITH.ERR-ZERO", key, c.P.Pos(fn.Pos()), shortFn(fn), fmt.Sprintf("%d abstract exits return ErrOverflow, all with the zero value", nOverflowExits))
		}
		// callers
		for i, s := range c.P.CallersOf(fn) {
			cc := s.Common()
			caller := s.Parent()
			keyc := fmt.Sprintf("%s caller#%d %s", shortFn(fn), i+1, shortFn(caller))
			exc := NewExplorer(c.P, c.Pure, caller)
			base := cc.Args[0]
			if name == "Offset" {
				base = cc.Args[1]
			}
			bs := exc.Canon(nil, base).S
			if fnPkgPath(caller) == pkgA+"/bitmap" && regexp.MustCompile(`^\$0\.[A-Za-z_]+\.IP$`).MatchString(bs) {
				c.R.ok(prefix+"ARITH.CALLERS", keyc, c.P.InstrPos(s), shortFn(caller), "called with the pool base as base operand")
			} else {
				c.R.bad(prefix+"ARITH.CALLERS", keyc, c.P.InstrPos(s), shortFn(caller), "prefix arithmetic is used with a base other than the allocator's pool base: "+shortName(bs))
			}
		}
	}
}

// carryConsumed: result #idx of the math/bits call is fed to the next limb
// operation or compared with zero.
func carryConsumed(call *ssa.Call, idx int) (bool, string) {
	for _, r := range *call.Referrers() {
		e, ok := r.(*ssa.Extract)
		if !ok || e.Index != idx {
			continue
		}
		for _, u := range *e.Referrers() {
			switch x := u.(type) {
			case *ssa.Call:
				if f := x.Call.StaticCallee(); f != nil && fnPkgPath(f) == "math/bits" {
					return true, "fed to the next limb operation " + f.Name()
				}
			case *ssa.BinOp:
				if x.Op == token.NEQ || x.Op == token.EQL {
					return true, "compared with zero (overflow test)"
				}
			case *ssa.Phi:
				for _, u2 := range *x.Referrers() {
					if c2, ok := u2.(*ssa.Call); ok {
						if f := c2.Call.StaticCallee(); f != nil && fnPkgPath(f) == "math/bits" {
							return true, "fed (through a merge) to the next limb operation " + f.Name()
						}
					}
				}
			}
		}
	}
	return false, ""
}

// ---- C05: LINMAP / SIZE / CAP ---------------------------------------------------

func ruleLinMap(c *Ctx, prefix string) {
	pkgB := modPath + "/plugins/allocators/bitmap"
	toOff := c.P.Anchor("toOffset")
	toIP := c.P.Anchor("toIP")
	ctor := c.P.Func(pkgB, "", "NewIPv4Allocator")
	if toOff == nil || toIP == nil || ctor == nil {
		c.R.Fatalf("ANCHOR-UNRESOLVED: IPv4Allocator.toOffset/toIP/NewIPv4Allocator")
		return
	}
	for _, f := range []*ssa.Function{toOff, toIP, ctor} {
		c.R.Functions[shortFn(f)] = true
	}
	u32 := func(arg string) string {
		return `\(encoding/binary\.bigEndian\)\.Uint32\(encoding/binary\.BigEndian,\(net\.IP\)\.To4\(` + arg + `\)\)`
	}
	U := u32(`\$1`)
	{
		exits, _ := ExitsOf(c, toOff)
		var bad []string
		nS, nE := 0, 0
		for _, e := range exits {
			to4nil, _ := histFact(e.St, "nil", regexp.MustCompile(`^\(net\.IP\)\.To4\(\$1\)$`))
			below, _ := histFact(e.St, "lt", regexp.MustCompile(`^`+U+`$`)) // U < start ?
			belowOK := false
			aboveOK := false
			var belowV, aboveV int = -1, -1
			for _, k := range sortedKeys(e.St.hist) {
				f := e.St.hist[k]
				if f.Kind != "lt" {
					continue
				}
				if regexp.MustCompile(`^`+U+`$`).MatchString(f.X) && f.Y == "$0.start" {
					belowOK, belowV = true, b2i(f.Val)
				}
				if f.X == "$0.end" && regexp.MustCompile(`^`+U+`$`).MatchString(f.Y) {
					aboveOK, aboveV = true, b2i(f.Val)
				}
			}
			_ = below
			errN, _ := e.Ex.NilState(e.St, e.Ret.Results[1])
			if errN == 1 {
				nS++
				if to4nil != 0 || !belowOK || !aboveOK || belowV != 0 || aboveV != 0 {
					bad = append(bad, fmt.Sprintf("toOffset succeeds at %s without exactly `ip is IPv4 ∧ ¬(ip < start) ∧ ¬(end < ip)` having been established (decided: %s): the inclusive range test is not exact", c.P.InstrPos(e.Ret), strings.Join(shortAll(e.St.HistStrings()), " ∧ ")))
				}
				if !regexp.MustCompile(`^conv<uint>\(\(` + U + ` - \$0\.start\)\)$`).MatchString(e.Canon[0]) {
					bad = append(bad, "toOffset's result is not ip − start: "+shortName(e.Canon[0]))
				}
			} else {
				nE++
				if e.Canon[0] != "0" {
					bad = append(bad, "toOffset returns a non-zero offset together with an error")
				}
				if or3(to4nil, belowV, aboveV) != 1 {
					bad = append(bad, fmt.Sprintf("toOffset fails at %s although the address is an in-range IPv4 address", c.P.InstrPos(e.Ret)))
				}
			}
		}
		if nS == 0 || nE == 0 {
			bad = append(bad, "toOffset outcomes not exercised")
		}
		if len(bad) > 0 {
			c.R.bad(prefix+"LINMAP", "IPv4Allocator.toOffset", c.P.Pos(toOff.Pos()), shortFn(toOff), strings.Join(dedup(bad), "; "))
		} else {
			c.R.ok(prefix+"LINMAP", "IPv4Allocator.toOffset", c.P.Pos(toOff.Pos()), shortFn(toOff), "succeeds iff start ≤ ip ≤ end (both comparisons exact, inclusive) and returns ip − start; errors return 0")
		}
	}
	{
		// toIP: start + offset, panics iff offset > end - start
		ex := NewExplorer(c.P, c.Pure, toIP)
		var bad []string
		okPut := false
		nPanic, nRet := 0, 0
		ex.Hooks.Instr = func(st *State, in ssa.Instruction) {
			if call, ok := in.(*ssa.Call); ok {
				if f := call.Call.StaticCallee(); f != nil && f.Name() == "PutUint32" {
					v := ex.Canon(st, call.Call.Args[2]).S
					if v == "($0.start + $1)" || v == "($1 + $0.start)" {
						okPut = true
					} else {
						bad = append(bad, "toIP does not build start + offset: "+shortName(v))
					}
				}
			}
		}
		ex.Hooks.Exit = func(st *State, in ssa.Instruction) {
			g := -1
			for _, k := range sortedKeys(st.hist) {
				f := st.hist[k]
				if f.Kind == "lt" && f.X == "($0.end - $0.start)" && f.Y == "$1" {
					g = b2i(f.Val)
				}
			}
			switch in.(type) {
			case *ssa.Panic:
				nPanic++
				if g != 1 {
					bad = append(bad, "toIP panics under a condition other than offset > end − start")
				}
			case *ssa.Return:
				nRet++
				if g != 0 {
					bad = append(bad, "toIP returns an address without having established offset ≤ end − start (the address would lie outside the range)")
				}
			}
		}
		ex.Run()
		if !okPut || nRet == 0 {
			bad = append(bad, "toIP shape not recognised")
		}
		if len(bad) > 0 {
			c.R.bad(prefix+"LINMAP", "IPv4Allocator.toIP", c.P.Pos(toIP.Pos()), shortFn(toIP), strings.Join(dedup(bad), "; "))
		} else {
			c.R.ok(prefix+"LINMAP", "IPv4Allocator.toIP", c.P.Pos(toIP.Pos()), shortFn(toIP), "returns start + offset exactly under offset ≤ end − start; toIP∘toOffset is the identity on [start, end] (terms ip − start and start + o)")
		}
	}
	{
		// constructor: start/end from the arguments, start ≤ end, bitset length end − start + 1
		exits, _ := ExitsOf(c, ctor)
		var bad []string
		nS := 0
		for _, e := range exits {
			if errN, _ := e.Ex.NilState(e.St, e.Ret.Results[1]); errN != 1 {
				continue
			}
			nS++
			al, ok := e.Results[0].(*ssa.Alloc)
			if !ok {
				bad = append(bad, "constructor does not return a fresh allocator")
				continue
			}
			s, _ := e.St.ReadLocal("new@" + anm(al) + ".start")
			en, _ := e.St.ReadLocal("new@" + anm(al) + ".end")
			bm, _ := e.St.ReadLocal("new@" + anm(al) + ".bitmap")
			if !regexp.MustCompile(`^`+u32(`\$0`)+`$`).MatchString(s) || !regexp.MustCompile(`^`+u32(`\$1`)+`$`).MatchString(en) {
				bad = append(bad, fmt.Sprintf("start/end are not the 32-bit values of the two arguments (start=%s end=%s)", shortName(s), shortName(en)))
			}
			if !regexp.MustCompile(`^` + reQ(pkgBitset) + `\.New(@(?:[\w$]+·)?t\d+)?\(conv<uint>\(\(\(` + reQ(en) + ` - ` + reQ(s) + `\) \+ 1\)\)\)$`).MatchString(bm) {
				bad = append(bad, "the bitmap length is not end − start + 1 (one bit per address, both ends included): "+shortName(stripAt(bm)))
			}
			gt := -1
			for _, k := range sortedKeys(e.St.hist) {
				f := e.St.hist[k]
				if f.Kind == "lt" && f.X == en && f.Y == s {
					gt = b2i(f.Val)
				}
			}
			if gt != 0 {
				bad = append(bad, "an allocator is built without start ≤ end having been established (end − start + 1 would wrap)")
			}
		}
		if nS == 0 {
			bad = append(bad, "constructor has no successful return")
		}
		if len(bad) > 0 {
			c.R.bad(prefix+"LINMAP", "NewIPv4Allocator", c.P.Pos(ctor.Pos()), shortFn(ctor), strings.Join(dedup(bad), "; "))
		} else {
			c.R.ok(prefix+"LINMAP", "NewIPv4Allocator", c.P.Pos(ctor.Pos()), shortFn(ctor), "start/end are the arguments' 32-bit values, start ≤ end is enforced, bitmap length = end − start + 1 = max index + 1")
		}
	}
}

func ruleSizeCap(c *Ctx, prefix string) {
	pkgB := modPath + "/plugins/allocators/bitmap"
	al := c.P.Func(pkgB, "*Allocator", "Allocate")
	ctor := c.P.Func(pkgB, "", "NewBitmapAllocator")
	if al == nil || ctor == nil {
		c.R.Fatalf("ANCHOR-UNRESOLVED: bitmap.(*Allocator).Allocate / NewBitmapAllocator")
		return
	}
	c.R.Functions[shortFn(al)] = true
	c.R.Functions[shortFn(ctor)] = true
	{
		ex := NewExplorer(c.P, c.Pure, al)
		var bad []string
		n := 0
		ex.Hooks.Instr = func(st *State, in ssa.Instruction) {
			s, ok := in.(*ssa.Store)
			if !ok {
				return
			}
			fa, ok := s.Addr.(*ssa.FieldAddr)
			if !ok || fieldName(fa) != "Mask" || rootAlloc(fa.X) == nil {
				return
			}
			n++
			v := ex.Canon(st, s.Val).S
			m := regexp.MustCompile(`^net\.CIDRMask(@(?:[\w$]+·)?t\d+)?\((.*),128\)$`).FindStringSubmatch(v)
			if m == nil {
				bad = append(bad, "the returned mask is not a 128-bit CIDR mask: "+shortName(v))
				return
			}
			hl := `(net.IPMask).Size($1.Mask)#0`
			short := -1
			bits128 := -1
			for _, k := range sortedKeys(st.hist) {
				f := st.hist[k]
				if f.Kind == "lt" && f.X == hl && f.Y == "$0.page" {
					short = b2i(f.Val)
				}
				if f.Kind == "eq" && f.X == "(net.IPMask).Size($1.Mask)#1" {
					if f.Eq == "128" {
						bits128 = 1
					} else if f.Eq != "" || len(f.Ne) > 0 {
						bits128 = 0
						for _, ne := range f.Ne {
							if ne != "128" {
								bits128 = -1
							}
						}
					}
				}
			}
			usePage := or3(short, not3(bits128))
			switch usePage {
			case 1:
				if m[2] != "$0.page" {
					bad = append(bad, fmt.Sprintf("allocation length is %s where the hint is shorter than the block size or not an IPv6 mask (want the configured block size)", shortName(m[2])))
				}
			case 0:
				if m[2] != hl {
					bad = append(bad, fmt.Sprintf("allocation length is %s for a longer IPv6 hint (want the hint's length)", shortName(m[2])))
				}
			default:
				bad = append(bad, "allocation length chosen without comparing the hint's length and width with the block size")
			}
		}
		ex.Run()
		if n == 0 {
			bad = append(bad, "no mask assignment found")
		}
		if len(bad) > 0 {
			c.R.bad(prefix+"SIZE", "Allocator.Allocate mask", c.P.Pos(al.Pos()), shortFn(al), strings.Join(dedup(bad), "; "))
		} else {
			c.R.ok(prefix+"SIZE", "Allocator.Allocate mask", c.P.Pos(al.Pos()), shortFn(al), "length = block size unless the hint is a longer /128-wide mask, then the hint's length; always a 128-bit mask")
		}
	}
	{
		exits, _ := ExitsOf(c, ctor)
		var bad []string
		nS := 0
		order := `($1 - (net.IPMask).Size($0.Mask)#0)`
		for _, e := range exits {
			if errN, _ := e.Ex.NilState(e.St, e.Ret.Results[1]); errN != 1 {
				continue
			}
			nS++
			a, ok := e.Results[0].(*ssa.Alloc)
			if !ok {
				bad = append(bad, "constructor does not return a fresh allocator")
				continue
			}
			pg, _ := e.St.ReadLocal("new@" + anm(a) + ".page")
			ct, _ := e.St.ReadLocal("new@" + anm(a) + ".containing")
			bm, _ := e.St.ReadLocal("new@" + anm(a) + ".bitmap")
			if pg != "$1" || ct != "$0" {
				bad = append(bad, fmt.Sprintf("pool geometry is not (pool, size) as given (containing=%s page=%s)", shortName(ct), shortName(pg)))
			}
			if !regexp.MustCompile(`^` + reQ(pkgBitset) + `\.New(@(?:[\w$]+·)?t\d+)?\((conv<uint>\()?\(1 << conv<uint>\(` + reQ(order) + `\)\)\)?\)$`).MatchString(bm) {
				bad = append(bad, "the bitmap does not have 2^(size − pool length) bits: "+shortName(stripAt(bm)))
			}
			neg, big := -1, -1
			for _, k := range sortedKeys(e.St.hist) {
				f := e.St.hist[k]
				if f.Kind == "lt" && f.X == order && f.Y == "0" {
					neg = b2i(f.Val)
				}
				if f.Kind == "lt" && f.X == order && (f.Y == "64" || f.Y == "32") {
					big = b2i(!f.Val)
				}
			}
			if neg != 0 {
				bad = append(bad, "an allocator is built without size ≥ pool length having been established")
			}
			if big != 0 {
				bad = append(bad, "an allocator is built without size − pool length < word size having been established (1 << order would wrap)")
			}
		}
		if nS == 0 {
			bad = append(bad, "constructor has no successful return")
		}
		if len(bad) > 0 {
			c.R.bad(prefix+"CAP", "NewBitmapAllocator", c.P.Pos(ctor.Pos()), shortFn(ctor), strings.Join(dedup(bad), "; "))
		} else {
			c.R.ok(prefix+"CAP", "NewBitmapAllocator", c.P.Pos(ctor.Pos()), shortFn(ctor), "2^(size − pool length) bits, with 0 ≤ size − pool length < word size enforced; geometry stored as given")
		}
	}
}
