package main

import "golang.org/x/tools/go/ssa"

func setupScope(c *Ctx) (*Roots, map[*ssa.Function]*ssa.Function, []*ssa.Function) {
	ro := FindRoots(c.P, c.R)
	roots := ro.AllSetups()
	// the loader that runs the setups on an accepted configuration, and whatever wraps them
	if lp := c.P.Func("plugins", "", "LoadPlugins"); lp != nil {
		roots = append(roots, lp)
	}
	pred, fns := ReachFirstParty(c.P, roots)
	return ro, pred, fns
}

func init() {
	register(&propDef{
		ID:      "C19",
		Explain: "Rules over every SetupFunc4/SetupFunc6 of the program (enumerated by type) and everything first-party they reach: the C01 safety rule set (NILPATH, NILSRC, BOUNDS incl. every args[k] access needing a dominating len(args) fact, MAPWRITE, ASSERT, FUNCNIL, PANIC) so that a bad argument vector yields an error, not a panic (SETUP.NOPANIC); every address parsed from configuration text has had its family (and, for networks kept by a DHCPv4 setup, its mask width) examined on every accepting path — the structural necessary condition for 'arguments that cannot be honoured on the wire are rejected at start-up' (SETUP.FAMILY); every successful return carries a non-nil handler (SETUP.HANDLER-OR-ERROR); LoadPlugins aborts on setup errors (SETUP.ABORT = C13.CHAIN.LOAD); the handlers returned are covered by C01's rules.",
		Trusted: trustedBase,
		Assume:  []string{"round-trip equality of replies through the codec is not decided", "value ranges that serialise lossily but safely (mtu > 65535, negative durations) are outside the stated clause"},
		Run: func(c *Ctx) {
			ro, pred, fns := setupScope(c)
			runSafety(c, "C19.SETUP.", fns, pred, "NILPATH", "NILSRC", "ASSERT", "BOUNDS", "MAPWRITE", "FUNCNIL", "ARITH")
			rulePanic(c, "C19.SETUP.", fns, pred, ro)
			v4 := map[*ssa.Function]bool{}
			_, v4fns := ReachFirstParty(c.P, ro.Setups4)
			for _, f := range v4fns {
				v4[f] = true
			}
			_, v6fns := ReachFirstParty(c.P, ro.Setups6)
			for _, f := range v6fns {
				if !isAnchor(f, "setupFile") && !isAnchor(f, "loadFromFile") {
					delete(v4, f) // shared helpers are checked under the weaker (family only) requirement
				}
			}
			ruleSetupFamily(c, "C19.SETUP.FAMILY", fns, v4)
			rulePoolIsParsedNetwork(c, "C19.SETUP.POOL") // the prefix pool and its allocation size are validated before the allocator is built
			ruleSetupHandlerOrError(c, "C19.SETUP.HANDLER-OR-ERROR", ro)
			ruleChainLoad(c, "C19.SETUP.ABORT")
			// the handlers a setup returns must be safe for every request: same rules as C01 on the handler scope
			_, hpred, hfns := handlerScope(c)
			runSafety(c, "C19.HANDLER.", hfns, hpred, "NILPATH", "NILSRC", "BOUNDS", "MAPWRITE", "FUNCNIL", "ARITH")
			c.R.Floor("C19.SETUP.POOL", 2)
			c.R.Floor("C19.SETUP.BOUNDS", 25)
			c.R.Floor("C19.SETUP.FAMILY", 8)
			c.R.Floor("C19.SETUP.HANDLER-OR-ERROR", 23)
			c.R.Floor("C19.SETUP.ABORT", 2)
			c.R.Note("setup scope: %d functions reachable from %d setup functions", len(fns), len(ro.AllSetups()))
		},
	})
}

func init() {
	register(&propDef{
		ID:      "C18",
		Explain: "Rules over config.Load and everything first-party it reaches: the C01 safety rule set incl. the two panic(\"BUG\") sites shown unreachable by constant propagation of the version parameter over all call chains, and the zone split indices bounded by the LastIndexByte fact (CFG.NOPANIC); every abstract exit of getListenAddress, explored once per protocol version, is compared with the table {empty host → wildcard of the version, unparseable → error, wrong family → error, empty port → 67/547 by constant value, bad port → error, zone passed through} (CFG.ADDR); parseListen rejects listen+interface on every path, uses defaults only when neither is set, and otherwise appends exactly one (or the multicast expansion of one) address per configured item, aborting on parse errors (CFG.LISTEN, per-iteration obligations); getPlugins/Load/parseConfig error and success shapes (CFG.PLUGINS); parsePlugins order (C13.CHAIN.PARSE-ORDER).",
		Trusted: trustedBase,
		Assume:  []string{"YAML parsing and cast conversions (viper/cast/yaml, including their own panics)", "net.SplitHostPort's string grammar beyond bounds safety", "interface enumeration"},
		Run: func(c *Ctx) {
			ro := FindRoots(c.P, c.R)
			load := c.P.Func("config", "", "Load")
			if load == nil {
				c.R.Fatalf("ANCHOR-UNRESOLVED: config.Load")
				return
			}
			pred, fns := ReachFirstParty(c.P, []*ssa.Function{load})
			runSafety(c, "C18.CFG.", fns, pred, "NILPATH", "NILSRC", "ASSERT", "BOUNDS", "MAPWRITE", "FUNCNIL", "ARITH")
			rulePanic(c, "C18.CFG.", fns, pred, ro)
			ruleCfgAddr(c, "C18.CFG.ADDR")
			ruleCfgListen(c, "C18.CFG.LISTEN")
			ruleCfgPlugins(c, "C18.CFG.PLUGINS")
			ruleParseOrder(c, "C18.CFG.PLUGINS")
			ruleArgsImmutable(c, "C18.CFG.ARGS-RO")
			c.R.Floor("C18.CFG.ARGS-RO", 1)
			c.R.Floor("C18.CFG.PANIC", 2)
			c.R.Floor("C18.CFG.BOUNDS", 2)
			c.R.Floor("C18.CFG.ADDR", 3)
			c.R.Floor("C18.CFG.LISTEN", 1)
			c.R.Floor("C18.CFG.PLUGINS", 4)
			c.R.Note("config scope: %d functions reachable from config.Load", len(fns))
		},
	})
}

// runSetupFamily: SETUP.FAMILY over the setup scope (shared by C19 and C17).
func runSetupFamily(c *Ctx, rule string) {
	ro, _, fns := setupScope(c)
	v4 := map[*ssa.Function]bool{}
	_, v4fns := ReachFirstParty(c.P, ro.Setups4)
	for _, f := range v4fns {
		v4[f] = true
	}
	_, v6fns := ReachFirstParty(c.P, ro.Setups6)
	for _, f := range v6fns {
		if !isAnchor(f, "setupFile") && !isAnchor(f, "loadFromFile") {
			delete(v4, f)
		}
	}
	ruleSetupFamily(c, rule, fns, v4)
}
