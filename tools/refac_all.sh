#!/bin/bash
# applies every behaviour-preserving refactoring to /repo in turn, verifies build+suite, runs all checks (must stay silent), undoes it
cd /verif
export GOFLAGS=-mod=mod GOPROXY=off GOSUMDB=off GOTOOLCHAIN=local GOWORK=off
PROPS=${PROPS:-C01 C02 C03 C04 C05 C06 C07 C08 C09 C10 C11 C12 C13 C14 C15 C16 C17 C18 C19 C20}
for d in ${@:-refactors/*}; do
  [ -f $d/patch.diff ] || continue
  n=$(basename $d)
  git -C /repo diff --quiet || { echo "/repo dirty"; exit 2; }
  git -C /repo apply /verif/$d/patch.diff || { echo "$n: patch failed"; continue; }
  # NOSUITE=1 skips the build + test suite (every corpus item was validated with it when it was imported)
  suite=skipped
  [ -z "$NOSUITE" ] && suite=$(cd /repo && go build ./... >/dev/null 2>&1 && go test -vet=off -count=1 ./... >/dev/null 2>&1; echo $?)
  alarms=$(printf "%s\n" $PROPS | xargs -P 10 -I{} sh -c 'bin/cdlint -prop {} -repo /repo -evidence "" 2>&1 | grep -q "^VIOLATION" && echo {}' | sort | tr "\n" " ")
  git -C /repo checkout -- . && git -C /repo clean -fdq
  st=SILENT; [ -n "$alarms" ] && st=ALARM
  echo "$n suite_exit=$suite $st [$alarms]"
done
