#!/bin/bash
# imports every finished, not yet imported /tmp/seed-<P>/SEED/<X> (X in C D ...) and runs the property's own check against it
cd /verif
for d in /tmp/seed-C??/SEED/[A-Z]; do
  [ -f $d/meta.json ] && [ -f $d/patch.diff ] || continue
  P=$(basename $(dirname $(dirname $d)) | sed 's/seed-//'); X=$(basename $d)
  [ -d seeded/$P-$X ] && continue
  tools/seed_import.sh $P $X 2>&1 | grep -v WARN
  PROPS="$P" tools/seeds_all.sh seeded/$P-$X 2>&1 | grep -v WARN
done
