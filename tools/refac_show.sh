#!/bin/bash
# usage: refac_show.sh <refactor-name> <prop>...  - applies the refactoring, prints the violations of the given properties, reverts
cd /verif
n=$1; shift
git -C /repo diff --quiet || { echo "/repo dirty"; exit 2; }
git -C /repo apply /verif/refactors/$n/patch.diff || exit 2
for p in "$@"; do
  bin/cdlint -prop $p -repo /repo -evidence "" 2>&1 | grep -A1 "^VIOLATION\|^FATAL" | grep "^  \|FATAL" | cut -c1-${W:-420}
done
git -C /repo checkout -- . && git -C /repo clean -fdq
