#!/bin/bash
# every seed against its own property only (quick regression): prints MISSED lines and a summary
cd /verif
n=0; miss=0
for d in seeded/C??-?; do
  s=$(basename $d); p=${s%-*}
  r=$(PROPS=$p tools/seeds_all.sh $d 2>&1 | grep -v WARN)
  n=$((n+1))
  case "$r" in *CAUGHT*) ;; *) miss=$((miss+1)); echo "$r";; esac
done
echo "seeds=$n missed_by_own_property=$miss"
