#!/bin/bash
# usage: seed_run.sh <seed-dir-name> [props...]  - applies the seed to /repo, runs the checks, undoes it
set -u
S=/verif/seeded/$1; shift
PROPS="$@"
[ -z "$PROPS" ] && PROPS=$(jq -r '.checks[].property_id' /verif/MANIFEST.json)
cd /repo && git diff --quiet || { echo "/repo is dirty"; exit 2; }
git -C /repo apply $S/patch.diff || exit 2
for p in $PROPS; do
  out=$(/verif/bin/cdlint -prop $p -repo /repo -evidence "" 2>&1)
  echo "$out" | grep -q "^VIOLATION" && { echo "  $p: CAUGHT"; echo "$out" | grep -A1 "^VIOLATION" | grep "^  C" | head -3 | cut -c1-260; } 
done
git -C /repo checkout -- . && git -C /repo clean -fdq
