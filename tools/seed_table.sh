#!/bin/bash
# regenerates /verif/seeded/RESULTS.md: which check (rule) catches which seeded change
cd /verif
PROPS="C01 C02 C03 C04 C05 C06 C07 C08 C09 C10 C11 C12 C13 C14 C15 C16 C17 C18 C19 C20"
out=seeded/RESULTS.md
echo "| seed | breaks | caught by (property: rules) |" > $out
echo "|------|--------|------------------------------|" >> $out
for d in seeded/C*; do
  n=$(basename $d)
  git -C /repo diff --quiet || { echo "/repo dirty"; exit 2; }
  git -C /repo apply /verif/$d/patch.diff || continue
  res=$(printf "%s\n" $PROPS | xargs -P 10 -I{} sh -c 'r=$(bin/cdlint -prop {} -repo /repo -evidence "" 2>&1 | grep -A1 "^VIOLATION" | grep "^  C" | awk "{print \$1}" | sed "s/^{}\.//" | sort -u | tr "\n" "," | sed "s/,$//"); [ -n "$r" ] && echo "{}: $r"' | sort | tr "\n" ";" | sed 's/;$//; s/;/; /g')
  git -C /repo checkout -- .
  echo "| $n | $(jq -r .property $d/meta.json) | ${res:-MISSED} |" >> $out
done
cat $out
