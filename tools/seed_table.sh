#!/bin/bash
# regenerates /verif/seeded/RESULTS.md: which check (rule) catches which seeded change
cd /verif
# REPO / BIN may point at a scratch worktree and another build of the checker (known findings are always /verif's)
REPO=${REPO:-/repo}; BIN=${BIN:-bin/cdlint}; export REPO BIN
PROPS="C01 C02 C03 C04 C05 C06 C07 C08 C09 C10 C11 C12 C13 C14 C15 C16 C17 C18 C19 C20"
out=${OUT:-seeded/RESULTS.md}
echo "| seed | breaks | caught by (property: rules) |" > $out
echo "|------|--------|------------------------------|" >> $out
for d in ${SEEDS:-seeded/C*}; do
  n=$(basename $d)
  git -C $REPO diff --quiet || { echo "/repo dirty"; exit 2; }
  git -C $REPO apply /verif/$d/patch.diff || continue
  res=$(printf "%s\n" $PROPS | xargs -P ${PAR:-10} -I{} sh -c 'r=$($BIN -prop {} -repo $REPO -known /verif/known_findings.json -evidence "" 2>&1 | grep -A1 "^VIOLATION" | grep "^  C" | awk "{print \$1}" | sed "s/^{}\.//" | sort -u | tr "\n" "," | sed "s/,$//"); [ -n "$r" ] && echo "{}: $r"' | sort | tr "\n" ";" | sed 's/;$//; s/;/; /g')
  git -C $REPO checkout -- . && git -C $REPO clean -fdq
  echo "| $n | $(jq -r .property $d/meta.json) | ${res:-MISSED} |" >> $out
done
cat $out
