#!/bin/bash
# runs every registered property check on /repo in parallel; prints one line per property
cd /verif
PROPS=${@:-C01 C02 C03 C04 C05 C06 C07 C08 C09 C10 C11 C12 C13 C14 C15 C16 C17 C18 C19 C20}
printf "%s\n" $PROPS | xargs -P 10 -I{} sh -c 'out=$(bin/cdlint -prop {} -repo /repo -evidence "" 2>&1); echo "$out" | grep "^RESULT\|unknown property" | head -1; echo "$out" | grep -A1 "^VIOLATION" | grep "^  " | head -4 | cut -c1-220' | sort
