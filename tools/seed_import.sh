#!/bin/bash
# usage: seed_import.sh <prop> <A|B>   - copies /tmp/seed-<prop>/SEED/<X> into /verif/seeded/<prop>-<X>, verifies it in a scratch worktree
set -u
P=$1; X=$2
SRC=/tmp/seed-$P/SEED/$X
DST=/verif/seeded/$P-$X
[ -f $SRC/patch.diff ] || { echo "no seed $SRC"; exit 2; }
mkdir -p $DST && cp -r $SRC/. $DST/
export GOFLAGS=-mod=mod GOPROXY=off GOSUMDB=off GOTOOLCHAIN=local GOWORK=off
WT=/tmp/seedverify-$P-$X
git -C /repo worktree add -q --detach $WT HEAD || exit 2
cd $WT
demo_path=$(jq -r .demo_path $DST/meta.json)
demo_cmd=$(jq -r .demo_cmd $DST/meta.json)
# place demo files: every file under demo/ whose basename matches demo_path's basename, else mirror tree
f=$(find $DST/demo -type f -name "$(basename $demo_path)" | head -1)
if [ -n "$f" ]; then mkdir -p $(dirname $demo_path); cp $f $demo_path; else (cd $DST/demo && find . -type f | while read g; do mkdir -p $WT/$(dirname $g); cp $g $WT/$g; done); fi
res_clean=$(bash -c "$demo_cmd" >/tmp/sv-$P-$X-clean.log 2>&1; echo $?)
git apply $DST/patch.diff || { echo "patch does not apply"; cd /; git -C /repo worktree remove --force $WT; exit 2; }
build=$(go build ./... >/dev/null 2>&1; echo $?)
res_patch=$(bash -c "$demo_cmd" >/tmp/sv-$P-$X-patch.log 2>&1; echo $?)
# suite with the patch but without the demo
rm -f $demo_path; (cd $DST/demo && find . -type f | while read g; do rm -f $WT/$g; done)
suite=$(go test -vet=off -count=1 ./... >/tmp/sv-$P-$X-suite.log 2>&1; echo $?)
cd /; git -C /repo worktree remove --force $WT
echo "seed $P-$X: demo_clean_exit=$res_clean (want 0) build=$build (want 0) demo_patched_exit=$res_patch (want !=0) suite_with_patch=$suite (want 0)"
jq --arg c "$res_clean" --arg b "$build" --arg p "$res_patch" --arg s "$suite" '. + {confirmed_by_verifier: {demo_clean_exit: $c, build_exit: $b, demo_patched_exit: $p, suite_with_patch_exit: $s}}' $DST/meta.json > $DST/meta.json.tmp && mv $DST/meta.json.tmp $DST/meta.json
