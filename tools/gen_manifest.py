#!/usr/bin/env python3
"""Regenerates /verif/MANIFEST.json from the table below (single source of truth
for what is claimed). Run from /verif: python3 tools/gen_manifest.py"""
import json, os, sys

HERE = os.path.dirname(os.path.dirname(os.path.abspath(__file__)))

BASE_NOTE = ("Trusted base: go/types + go/ssa (x/tools v0.29.0), the packet codec, bitset, database/sql+sqlite, "
             "viper/cast, fsnotify, gopacket, logrus, x/net, the kernel. Structural necessary conditions are decided "
             "on all abstract paths of first-party code; run-time values (arithmetic results, codec encoding, timing, "
             "storage behaviour) are NOT decided. ")

# id -> (technique, level text, extra note, design section)
CLAIMS = {
 "C01": ("path-partitioned SSA dataflow: nil/bounds/assert/panic-site/lock-pairing/lock-order/no-block rules over call-graph-reachable handlers",
         "Every first-party function reachable from the datagram handlers is explored on all abstract paths; each dereference, index, assertion, map write, panic site, lock acquisition, loop and send site is an obligation that must be discharged. Shows absence of first-party panics/blocking/held locks of the modelled classes for every datagram and history; says nothing about dependencies.",
         "Does not decide panics or blocking inside dependencies, nor resource exhaustion.", "4 C01"),
}

NOT_YET = "rule set designed in DESIGN.md section 4 but not implemented yet in this revision of the checker"
NA = {}

def main():
    ids = ["C%02d" % i for i in range(1, 21)]
    checks = []
    for pid in ids:
        if pid not in CLAIMS:
            continue
        tech, text, note, ref = CLAIMS[pid]
        checks.append({
            "property_id": pid,
            "quick_cmd": "./check.sh %s quick" % pid,
            "thorough_cmd": "./check.sh %s thorough" % pid,
            "evidence_file": "evidence/%s.json" % pid,
            "replay_cmd_template": "bin/cdlint -prop %s -only \"$(jq -r '.rule+\" \"+.key' {path})\"" % pid,
            "engine": "cdlint",
            "level_claimed": {"category": "other", "text": text, "design_ref": "DESIGN.md section " + ref},
            "level_note": BASE_NOTE + note,
            "technique": "static analysis: " + tech,
        })
    na = []
    for pid in ids:
        if pid in CLAIMS:
            continue
        na.append({"property_id": pid, "reason": NA.get(pid, NOT_YET)})
    m = {
        "version": 1,
        "setup_cmd": "./setup.sh",
        "hooks": {
            "guard": "verif",
            "enable": "n/a: static analysis needs no instrumentation; no hook commits exist",
            "baseline_off_cmd": "cd /repo && go test -vet=off -count=1 -timeout 25m ./...",
            "source_commits": [],
            "add_only": True,
        },
        "engines": [{
            "name": "cdlint", "path": "checker/",
            "serves_properties": [c["property_id"] for c in checks],
            "kind_free_text": "repository-specific static analyser over go/packages + go/ssa: path-partitioned CFG exploration (branch facts, phi/local resolution, lock state), derived purity, VTA call graph, provenance, decision-table comparison; reports obligations per construct",
        }],
        "checks": checks,
        "not_applicable": na,
        "notes": "All claims are level 'other': structural necessary conditions decided statically on every path of /repo's current working tree. known_findings.json lists genuine defects (known/fixed). bin/ is built by setup.sh.",
    }
    with open(os.path.join(HERE, "MANIFEST.json"), "w") as f:
        json.dump(m, f, indent=1)
        f.write("\n")
    try:
        import jsonschema
        schema = json.load(open("/root/.vp/MANIFEST.schema.json"))
        jsonschema.validate(m, schema)
        print("MANIFEST.json valid;", len(checks), "claimed,", len(na), "not applicable")
    except ImportError:
        print("jsonschema not available; MANIFEST.json written")

if __name__ == "__main__":
    main()
