#!/usr/bin/env python3
"""Regenerates /verif/MANIFEST.json from the table below (single source of truth
for what is claimed). Run from /verif: python3 tools/gen_manifest.py"""
import json, os, sys

HERE = os.path.dirname(os.path.dirname(os.path.abspath(__file__)))

BASE_NOTE = ("Trusted base: go/types + go/ssa (x/tools v0.29.0), the packet codec, bitset, database/sql+sqlite, "
             "viper/cast, fsnotify, gopacket, logrus, x/net, the kernel. Structural necessary conditions are decided "
             "on all abstract paths of first-party code; run-time values (arithmetic results, codec encoding, timing, "
             "storage behaviour) are NOT decided. ")

# id -> (technique, level text, extra note, design section)
CLAIMS = {
 "C01": ("path-partitioned SSA dataflow: nil/bounds/assert/panic-site/lock-pairing/lock-order/no-block rules over call-graph-reachable handlers",
         "Every first-party function reachable from the datagram handlers is explored on all abstract paths; each dereference, index, assertion, map write, panic site, lock acquisition, loop and send site is an obligation that must be discharged. Shows absence of first-party panics/blocking/held locks of the modelled classes for every datagram and history; says nothing about dependencies.",
         "Does not decide panics or blocking inside dependencies, nor resource exhaustion.", "4 C01"),
 "C11": ("decision-table comparison (three-valued, over per-path branch facts) on HandleMsg4 + who-may-write scan of DHCPv4 identity fields + receive-buffer size constant + provenance of the listener's handler list",
         "Every abstract state reaching a send site must satisfy the request filter and every silent exit must falsify it; the request-type to reply-type map and the stub construction are extracted from SSA and compared with the frozen table; codec facts are re-derived. Decides the server's own filter/type-map logic for all opcodes and types; the codec's encoding is trusted.",
         "Codec encoding and third-party plugins are not decided.", "4 C11"),
 "C12": ("decision-table comparison on HandleMsg6 (type map, filter, relay re-encapsulation, destination, interface pinning) + receive-buffer size constant + provenance of the listener's handler list",
         "The (message type, rapid commit) to constructor map, the send filter, the relay/direct split, the destination and the pinning condition are extracted from all abstract states and compared with the frozen RFC table, including non-vacuity of each row.",
         "Per-layer relay mirroring and xid/client-id echo are the codec constructors' job (trusted).", "4 C12"),
 "C13": ("per-iteration path exploration of LoadPlugins/parsePlugins, structural recognition of the dispatch loops, return-shape rule over all built-in handlers",
         "Shows on all abstract paths that loading appends exactly the configured, supported plugins in order and aborts on unknown/failed ones, that dispatch calls each handler once with (request, running response) until stop, that what is sent is the loop's exit value, and that built-in handlers return nil only with stop.",
         "Registry contents are run-time data.", "4 C13"),
 "C14": ("three-valued comparison of every abstract exit of the serverid handlers with the RFC 8415 s16 matrix / the DHCPv4 two-place rule; init-before-use; who-may-write scan of the server identity (siaddr, option 54, DHCPv6 Server Identifier)",
         "Every drop/accept exit is classified and compared with the frozen matrix over Server-ID presence, type family and DUID equality; DHCPv4 accepts must have examined both siaddr and option 54; accepts stamp this server's identifier; identifiers are initialised by every successful setup.",
         "DUID equality semantics are the codec's.", "4 C14"),
 "C15": ("decision-table comparison of destination/port/L2/pinning at the send sites of HandleMsg4; frame-field provenance in sendEthernet; listener setup must-pass rule",
         "In every abstract state the (address expression, port, link-level flag, control message) chosen equals the RFC 2131 s4.1 row selected by giaddr/NAK/ciaddr/broadcast flag; all five rows are realised; L2 frame fields and listener interface knowledge are checked.",
         "Kernel routing and gopacket serialisation are not decided.", "4 C15"),
 "C17": ("per-emission-site entitlement gates (three-valued over branch facts, with the codec's absent/empty request-list behaviour re-derived), option-code derivation from codec constructors, idempotence and provenance rules, loader argument provenance, retention analysis of pooled option objects",
         "Each option emission of each option plugin is matched with its row of the frozen table: derived option code, entitlement gate true in every abstract state, entitled clients always served, at-most-once, value from the configured global, specified stop flag.",
         "Wire encoding and value equality beyond provenance are not decided.", "4 C17"),
 "C02": ("path rules on the range handler anchored on Recordsv4/allocator/yiaddr: lookup-before-allocate, insert-before-reply, exhaustion, provenance, lease time; per-iteration restart rule; lock discipline",
         "Shows on every abstract path that a new address is allocated and bound only after this client's key was looked up and found absent, that the reply carries the stored or just-allocated address and the configured lease time, that failure binds nothing, that restart re-marks and verifies every stored lease and keys the restored map like the handler, all in one exclusive critical section.",
         "In-range and uniqueness of the numbers are the allocator clauses (C04/C05); sqlite durability is not decided.", "4 C02"),
 "C03": ("writer/reader agreement tables extracted from SQL constants and SSA (columns, Go types, codec inverse pairs with domains, key form); must-pass rules for persistence and expiry provenance, path-condition rule for replies that keep the stored expiry (recognised time.Time comparison forms)",
         "Decides that every row the handler can write is accepted by the loader column by column (including the hardware-address codec's domain), that both sides key the map identically, that persistence precedes every reply and that the stored expiry is the promised one.",
         "sqlite affinity/durability and timing are not decided.", "4 C03"),
 "C04": ("typestate 'bit proved clear' per abstract state (phi-merged indices proved per incoming path), mutex-held dataflow, same-index provenance at returns, sibling agreement, index/prefix conversion-pair agreement, may-alias analysis of writes through pool geometry and of the returned storage, inductive check of a first-free search cursor",
         "For every implementation of allocators.Allocator: every bitmap operation under the exclusive mutex, every Set justified by Test==false / NextClear ok on the same index inside the same critical section, every success return converts exactly the bit set. This is the structural necessary condition for disjoint outstanding blocks under all histories and schedules.",
         "Injectivity of index to address is arithmetic (C05/C20); bitset correctness trusted.", "4 C04"),
 "C05": ("term extraction + exact branch-fact comparison for the linear IPv4 maps (13 weak orderings collapse to two comparisons), mask-length decision table, constructor size terms",
         "Decides exactness of the inclusive range test, the identity toIP after toOffset, bitmap length = max index + 1, the mask-length rule, the capacity term and its guards, and that 'no address available' is reported exactly on exhaustion with no mutation.",
         "IPv6 alignment/in-pool needs the 128-bit arithmetic (not decided).", "4 C05"),
 "C06": ("dominating-fact rules on Free: containment/length before absolute-distance indexing, Test==true before Clear in one section, effect-free error exits; limb-arithmetic well-formedness",
         "Every bitmap index used by Free derives from an address shown inside the pool and (IPv6) from a prefix at least one block long; Clear is justified by Test==true; success clears exactly one bit; every error exit leaves the bitmap untouched.",
         "That the index is the containing block's is arithmetic.", "4 C06"),
 "C07": ("three-valued hint-usable condition at the first-free search and at success returns; exact range test; caller rules (restart re-marking with comparison)",
         "The first-free search is reached only where the hint is definitely unusable and a usable hint's own index is the bit set; the IPv4 range test is exact at both ends; the lease plugins pass stored addresses as hints and verify the answer.",
         "Hint index arithmetic for IPv6 is not decided.", "4 C07"),
 "C08": ("provenance/typestate rules on prefix.Handle per abstract state and per loop iteration; constants by value; allocator rules included",
         "Every delegated prefix is the client's recorded lease or a fresh allocation, keyed by the inner client id; one response IA_PD per request IA_PD with its IAID; NoPrefixAvail when empty; preferred = valid = time to expiry with expiry = now + const ≤ 1h; known leases refreshed before being sent; all inside the critical section.",
         "Pool membership/alignment of the allocator's answers and codec rounding are not decided.", "4 C08"),
 "C09": ("accumulator shape check on SSA phi/append, reuse-before-allocate and marking rules per iteration, samePrefix exit comparison",
         "The value recorded for a client accumulates all new leases on top of the known ones; new blocks only for hints no known lease satisfied (per-hint bitmap, same index); handing back a lease marks hint and lease; reuse only for equal or empty hints; samePrefix compares address and mask.",
         "Recognition of the hint-less placeholder and equality of prefix values across messages are value properties, not decided.", "4 C09"),
 "C10": ("who-writes/who-reads analysis of the served table, swap-on-success rule and its converse (every success exit of a loader passes through the swap), per-iteration line grammar on both sibling loaders, lookup-key agreement, watcher loop shape, provenance of the loaded/watched path (the configured argument)",
         "Decides the loaders' line grammar and all-or-nothing shape, the swap discipline, key agreement between loaders and handlers, exact handler outcomes for listed/unlisted clients, and that the watcher never stops. Reports the shared global table as a known finding.",
         "stdlib address grammars and fsnotify delivery are not decided.", "4 C10"),
 "C16": ("GUARDED-BY table with mutex-held dataflow (caller-context for helpers), cross-critical-section dependence (facts, values and keys through containers), global write reachability, buffer typestate, retention analysis of objects given back to a sync.Pool, fresh-object rule for published maps, lock pairing/order",
         "Every access to guarded state holds its mutex in the required mode on every abstract path; no guarded write depends on facts or values from another critical section; handler-read globals are never written concurrently; receive buffers are released once after parsing. Lock discipline implies race freedom of the guarded state and serialisability of each lease decision.",
         "Codec aliasing of the receive buffer, races in dependencies and heap aliasing of shared option objects are not decided.", "4 C16"),
 "C18": ("C01 safety rules on the config scope, constant propagation of the protocol version, per-version exit tables for getListenAddress, per-iteration rules for parseListen, shape rules for Load/getPlugins/parseConfig/parsePlugins",
         "Decides that config loading cannot panic in first-party code, that listen addresses get the version's wildcard/default port/family check, that listen+interface is rejected on every path, that each configured address is appended exactly once, and the error/success shapes of plugin-list loading.",
         "YAML/viper/cast behaviour and host:port grammar are trusted.", "4 C18"),
 "C19": ("C01 safety rules over all setup functions, family-examined rule per parsed address, handler-or-error exit rule, abort rule, handler safety",
         "Every setup either errors or returns a non-nil handler; no argument vector can panic first-party setup code; every parsed address has its family (and mask width for DHCPv4 networks) examined before being accepted; LoadPlugins aborts on errors; handlers are panic-free by C01's rules.",
         "Round-trip equality through the codec is not decided.", "4 C19"),
 "C20": ("overflow-discipline rules on SSA: math/bits carry consumption, shift guards with linear exponent arithmetic, split-shift alignment, raw limb operations need cited facts, zero results with ErrOverflow",
         "Decides only the discipline: no unguarded wrapping operation, no unchecked slice, no non-zero result with an overflow error, limb shifts aligned. It does NOT decide numerical correctness or the inverse law.",
         "Numerical correctness of the 128-bit results needs a big-integer reference (different technique family).", "4 C20"),
}

NOT_YET = "rule set designed in DESIGN.md section 4 but not implemented yet in this revision of the checker"
NA = {}

def main():
    ids = ["C%02d" % i for i in range(1, 21)]
    checks = []
    for pid in ids:
        if pid not in CLAIMS:
            continue
        tech, text, note, ref = CLAIMS[pid]
        checks.append({
            "property_id": pid,
            "quick_cmd": "./check.sh %s quick" % pid,
            "thorough_cmd": "./check.sh %s thorough" % pid,
            "evidence_file": "evidence/%s.json" % pid,
            "replay_cmd_template": "bin/cdlint -prop %s -only \"$(jq -r '.rule+\" \"+.key' {path})\"" % pid,
            "engine": "cdlint",
            "level_claimed": {"category": "other", "text": text, "design_ref": "DESIGN.md section " + ref},
            "level_note": BASE_NOTE + note,
            "technique": "static analysis: " + tech,
        })
    na = []
    for pid in ids:
        if pid in CLAIMS:
            continue
        na.append({"property_id": pid, "reason": NA.get(pid, NOT_YET)})
    m = {
        "version": 1,
        "setup_cmd": "./setup.sh",
        "hooks": {
            "guard": "verif",
            "enable": "n/a: static analysis needs no instrumentation; no hook commits exist",
            "baseline_off_cmd": "cd /repo && go test -vet=off -count=1 -timeout 25m ./...",
            "source_commits": [],
            "add_only": True,
        },
        "engines": [{
            "name": "cdlint", "path": "checker/",
            "serves_properties": [c["property_id"] for c in checks],
            "kind_free_text": "repository-specific static analyser over go/packages + go/ssa: path-partitioned CFG exploration (branch facts, phi/local resolution, lock state), derived purity, VTA call graph, provenance, decision-table comparison; reports obligations per construct",
        }],
        "checks": checks,
        "not_applicable": na,
        "notes": "All claims are level 'other': structural necessary conditions decided statically on every path of /repo's current working tree. known_findings.json lists genuine defects (known/fixed). bin/ is built by setup.sh.",
    }
    with open(os.path.join(HERE, "MANIFEST.json"), "w") as f:
        json.dump(m, f, indent=1)
        f.write("\n")
    try:
        import jsonschema
        schema = json.load(open("/root/.vp/MANIFEST.schema.json"))
        jsonschema.validate(m, schema)
        print("MANIFEST.json valid;", len(checks), "claimed,", len(na), "not applicable")
    except ImportError:
        print("jsonschema not available; MANIFEST.json written")

if __name__ == "__main__":
    main()
