#!/usr/bin/env python3
"""Regenerates /verif/MANIFEST.json from the table below (single source of truth
for what is claimed). Run from /verif: python3 tools/gen_manifest.py"""
import json, os, sys

HERE = os.path.dirname(os.path.dirname(os.path.abspath(__file__)))

BASE_NOTE = ("Trusted base: go/types + go/ssa (x/tools v0.29.0), the packet codec, bitset, database/sql+sqlite, "
             "viper/cast, fsnotify, gopacket, logrus, x/net, the kernel. Structural necessary conditions are decided "
             "on all abstract paths of first-party code; run-time values (arithmetic results, codec encoding, timing, "
             "storage behaviour) are NOT decided. ")

# id -> (technique, level text, extra note, design section)
CLAIMS = {
 "C01": ("path-partitioned SSA dataflow: nil/bounds/assert/panic-site/lock-pairing/lock-order/no-block rules over call-graph-reachable handlers",
         "Every first-party function reachable from the datagram handlers is explored on all abstract paths; each dereference, index, assertion, map write, panic site, lock acquisition, loop and send site is an obligation that must be discharged. Shows absence of first-party panics/blocking/held locks of the modelled classes for every datagram and history; says nothing about dependencies.",
         "Does not decide panics or blocking inside dependencies, nor resource exhaustion.", "4 C01"),
 "C11": ("decision-table comparison (three-valued, over per-path branch facts) on HandleMsg4 + who-may-write scan of DHCPv4 identity fields",
         "Every abstract state reaching a send site must satisfy the request filter and every silent exit must falsify it; the request-type to reply-type map and the stub construction are extracted from SSA and compared with the frozen table; codec facts are re-derived. Decides the server's own filter/type-map logic for all opcodes and types; the codec's encoding is trusted.",
         "Codec encoding and third-party plugins are not decided.", "4 C11"),
 "C12": ("decision-table comparison on HandleMsg6 (type map, filter, relay re-encapsulation, destination, interface pinning)",
         "The (message type, rapid commit) to constructor map, the send filter, the relay/direct split, the destination and the pinning condition are extracted from all abstract states and compared with the frozen RFC table, including non-vacuity of each row.",
         "Per-layer relay mirroring and xid/client-id echo are the codec constructors' job (trusted).", "4 C12"),
 "C13": ("per-iteration path exploration of LoadPlugins/parsePlugins, structural recognition of the dispatch loops, return-shape rule over all built-in handlers",
         "Shows on all abstract paths that loading appends exactly the configured, supported plugins in order and aborts on unknown/failed ones, that dispatch calls each handler once with (request, running response) until stop, that what is sent is the loop's exit value, and that built-in handlers return nil only with stop.",
         "Registry contents are run-time data.", "4 C13"),
 "C14": ("three-valued comparison of every abstract exit of the serverid handlers with the RFC 8415 s16 matrix / the DHCPv4 two-place rule; init-before-use",
         "Every drop/accept exit is classified and compared with the frozen matrix over Server-ID presence, type family and DUID equality; DHCPv4 accepts must have examined both siaddr and option 54; accepts stamp this server's identifier; identifiers are initialised by every successful setup.",
         "DUID equality semantics are the codec's.", "4 C14"),
 "C15": ("decision-table comparison of destination/port/L2/pinning at the send sites of HandleMsg4; frame-field provenance in sendEthernet; listener setup must-pass rule",
         "In every abstract state the (address expression, port, link-level flag, control message) chosen equals the RFC 2131 s4.1 row selected by giaddr/NAK/ciaddr/broadcast flag; all five rows are realised; L2 frame fields and listener interface knowledge are checked.",
         "Kernel routing and gopacket serialisation are not decided.", "4 C15"),
 "C17": ("per-emission-site entitlement gates (three-valued over branch facts), option-code derivation from codec constructors, idempotence and provenance rules",
         "Each option emission of each option plugin is matched with its row of the frozen table: derived option code, entitlement gate true in every abstract state, entitled clients always served, at-most-once, value from the configured global, specified stop flag.",
         "Wire encoding and value equality beyond provenance are not decided.", "4 C17"),
}

NOT_YET = "rule set designed in DESIGN.md section 4 but not implemented yet in this revision of the checker"
NA = {}

def main():
    ids = ["C%02d" % i for i in range(1, 21)]
    checks = []
    for pid in ids:
        if pid not in CLAIMS:
            continue
        tech, text, note, ref = CLAIMS[pid]
        checks.append({
            "property_id": pid,
            "quick_cmd": "./check.sh %s quick" % pid,
            "thorough_cmd": "./check.sh %s thorough" % pid,
            "evidence_file": "evidence/%s.json" % pid,
            "replay_cmd_template": "bin/cdlint -prop %s -only \"$(jq -r '.rule+\" \"+.key' {path})\"" % pid,
            "engine": "cdlint",
            "level_claimed": {"category": "other", "text": text, "design_ref": "DESIGN.md section " + ref},
            "level_note": BASE_NOTE + note,
            "technique": "static analysis: " + tech,
        })
    na = []
    for pid in ids:
        if pid in CLAIMS:
            continue
        na.append({"property_id": pid, "reason": NA.get(pid, NOT_YET)})
    m = {
        "version": 1,
        "setup_cmd": "./setup.sh",
        "hooks": {
            "guard": "verif",
            "enable": "n/a: static analysis needs no instrumentation; no hook commits exist",
            "baseline_off_cmd": "cd /repo && go test -vet=off -count=1 -timeout 25m ./...",
            "source_commits": [],
            "add_only": True,
        },
        "engines": [{
            "name": "cdlint", "path": "checker/",
            "serves_properties": [c["property_id"] for c in checks],
            "kind_free_text": "repository-specific static analyser over go/packages + go/ssa: path-partitioned CFG exploration (branch facts, phi/local resolution, lock state), derived purity, VTA call graph, provenance, decision-table comparison; reports obligations per construct",
        }],
        "checks": checks,
        "not_applicable": na,
        "notes": "All claims are level 'other': structural necessary conditions decided statically on every path of /repo's current working tree. known_findings.json lists genuine defects (known/fixed). bin/ is built by setup.sh.",
    }
    with open(os.path.join(HERE, "MANIFEST.json"), "w") as f:
        json.dump(m, f, indent=1)
        f.write("\n")
    try:
        import jsonschema
        schema = json.load(open("/root/.vp/MANIFEST.schema.json"))
        jsonschema.validate(m, schema)
        print("MANIFEST.json valid;", len(checks), "claimed,", len(na), "not applicable")
    except ImportError:
        print("jsonschema not available; MANIFEST.json written")

if __name__ == "__main__":
    main()
