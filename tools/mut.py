#!/usr/bin/env python3
"""Sensitivity probe: apply (file, old, new) text edits to a copy of files in an
overlay directory (the repo is not touched) and run the checker on it.
usage: mut.py PROP[,PROP] file old new [file old new ...]"""
import sys, os, subprocess, tempfile, shutil
props = sys.argv[1].split(',')
args = sys.argv[2:]
d = tempfile.mkdtemp(prefix='cdmut')
try:
    for i in range(0, len(args), 3):
        f, old, new = args[i:i+3]
        dst = os.path.join(d, f)
        src = dst if os.path.exists(dst) else os.path.join('/repo', f)
        s = open(src).read()
        if old not in s:
            print("PATTERN NOT FOUND in", f, ":", old); sys.exit(2)
        s = s.replace(old, new, 1)
        os.makedirs(os.path.dirname(dst), exist_ok=True)
        open(dst, 'w').write(s)
    for p in props:
        r = subprocess.run(['/verif/bin/cdlint', '-prop', p, '-overlay', d, '-evidence', ''], capture_output=True, text=True)
        lines = [l for l in r.stdout.splitlines() if l.startswith('VIOLATION') or l.startswith('RESULT') or l.startswith('  C') or 'load failed' in l or 'error' in l.lower()]
        for l in lines[:14]:
            print(l[:330])
        if r.returncode not in (0, 1):
            print(r.stdout[-2000:], r.stderr[-2000:])
finally:
    shutil.rmtree(d)
