#!/bin/bash
# usage: refac_import.sh <Rk>  - imports /tmp/refac-<Rk>/REFAC/R1..R4 into /verif/refactors/<Rk>-<Rm>/
for d in /tmp/refac-$1/REFAC/R*; do
  [ -f $d/patch.diff ] || continue
  n=$1-$(basename $d)
  mkdir -p /verif/refactors/$n && cp $d/patch.diff $d/note.txt /verif/refactors/$n/ 2>/dev/null
done
ls /verif/refactors | grep "^$1-" | tr "\n" " "; echo
