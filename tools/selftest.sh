#!/bin/bash
# runs the thorough tier of every property and fails if a check fails on the current tree or an
# applicable sensitivity witness stays silent (positive controls); prints one line per property
cd /verif
rc=0
for p in C01 C02 C03 C04 C05 C06 C07 C08 C09 C10 C11 C12 C13 C14 C15 C16 C17 C18 C19 C20; do
  ./check.sh $p thorough >/tmp/selftest-$p.log 2>&1; e=$?
  silent=$(jq -r '[.coverage.witnesses.list[]? | select(.status=="silent")] | length' evidence/$p.json)
  fired=$(jq -r '.coverage.witnesses.fired' evidence/$p.json); applied=$(jq -r '.coverage.witnesses.applied' evidence/$p.json)
  echo "$p exit=$e witnesses applied=$applied fired=$fired silent=$silent"
  [ "$e" != "0" ] && rc=1
  [ "$silent" != "0" ] && rc=1
  rm -f /tmp/selftest-$p.log
done
exit $rc
