#!/bin/bash
# applies every seed in /verif/seeded to /repo in turn, runs all property checks in parallel, undoes it
cd /verif
PROPS=${PROPS:-C01 C02 C03 C04 C05 C06 C07 C08 C09 C10 C11 C12 C13 C14 C15 C16 C17 C18 C19 C20}
for d in ${@:-seeded/*}; do
  n=$(basename $d)
  git -C /repo diff --quiet || { echo "/repo dirty"; exit 2; }
  git -C /repo apply /verif/$d/patch.diff || { echo "$n: patch failed"; continue; }
  caught=$(printf "%s\n" $PROPS | xargs -P 10 -I{} sh -c 'bin/cdlint -prop {} -repo /repo -evidence "" 2>&1 | grep -q "^VIOLATION" && echo {}' | sort | tr "\n" " ")
  git -C /repo checkout -- . && git -C /repo clean -fdq
  own=${n%-*}
  status=MISSED; [ -n "$caught" ] && status=caught-elsewhere; echo " $caught " | grep -q " $own " && status=CAUGHT
  echo "$n $status [$caught]"
done
