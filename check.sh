#!/bin/sh
# usage: check.sh <property> <quick|thorough>
cd "$(dirname "$0")"
[ -x bin/cdlint ] || ./setup.sh >/dev/null 2>&1 || { echo "VIOLATION property=$1 replay=- kind=checker (setup failed)"; exit 1; }
exec bin/cdlint -prop "$1" -tier "${2:-quick}" -repo /repo -evidence "evidence/$1.json"
