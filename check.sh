#!/bin/sh
# usage: check.sh <property> <quick|thorough>
cd "$(dirname "$0")"
[ -x bin/cdlint ] || ./setup.sh >/dev/null 2>&1 || { echo "VIOLATION property=$1 replay=- kind=checker (setup failed)"; exit 1; }
# fail closed when the exploration does not terminate (unchanged tree: < 20 s quick, < 15 min thorough)
T=600; [ "${2:-quick}" = thorough ] && T=3600
timeout -k 5 $T bin/cdlint -prop "$1" -tier "${2:-quick}" -repo /repo -evidence "evidence/$1.json"
rc=$?
if [ $rc -eq 124 ] || [ $rc -eq 137 ]; then
  echo "VIOLATION property=$1 replay=- kind=checker (analysis did not terminate within ${T}s: undecided, failing closed)"
  exit 1
fi
exit $rc
