#!/bin/sh
# Builds the checker offline from files on disk (x/tools v0.29.0 is in the module cache).
set -e
cd "$(dirname "$0")/checker"
export GOFLAGS=-mod=mod GOPROXY=off GOSUMDB=off GOTOOLCHAIN=local GOWORK=off CGO_ENABLED=0
mkdir -p ../bin
go build -o ../bin/cdlint .
